#!/bin/bash
# usage: tools/try_seed.sh <patch.diff> <tier> <Cnn> [Cnn ...]
# Applies a seeded change to /repo, runs the given checks, prints what each reported, and undoes the change.
set -u
patch="$1"; tier="$2"; shift 2
cd /repo || exit 2
if [ -n "$(git status --porcelain --untracked-files=no)" ]; then echo "/repo is not clean" >&2; exit 2; fi
git apply "$patch" 2>/dev/null || git apply -3 "$patch" 2>/dev/null || git apply -C1 "$patch" || { echo "patch does not apply" >&2; exit 2; }
trap 'git -C /repo reset -q; git -C /repo checkout -q -- . ; rm -f /verif/replays/*.json' EXIT
cd /verif
for p in "$@"; do
  s=$(date +%s)
  out=$(timeout 3000 ./check "$p" "$tier" 2>&1); code=$?
  e=$(date +%s)
  nviol=$(echo "$out" | grep -a -c '^VIOLATION')
  echo "== $p $tier exit=$code violations=$nviol time=$((e-s))s"
  echo "$out" | grep -a '^--- ' | sort | uniq -c | sort -rn | head -6 | cut -c1-220
  if [ "$code" != "0" ] && [ "$code" != "1" ]; then echo "$out" | tail -5 | cut -c1-300; fi
done
