#!/usr/bin/env python3
"""Apply exact-match edits to /repo (or another root), run its test-suite (feature off), commit.

usage: repofix.py <spec.py> [--root DIR] [--no-commit] [--amend]
spec.py defines EDITS = [(path, old, new), ...] and MSG = "commit message".
"""
import subprocess, sys, runpy

spec = runpy.run_path(sys.argv[1])
root = "/repo"
if "--root" in sys.argv:
    root = sys.argv[sys.argv.index("--root") + 1]

for path, old, new in spec["EDITS"]:
    p = f"{root}/{path}"
    s = open(p).read()
    n = s.count(old)
    if n != 1:
        print(f"EDIT FAILED: {path}: pattern occurs {n} times:\n{old[:200]}")
        sys.exit(1)
    s = s.replace(old, new)
    open(p, "w").write(s)

r = subprocess.run("cargo test --offline 2>&1 | grep -E 'test result|FAILED|failed|^error|never (used|read|constructed)'",
                   shell=True, capture_output=True, text=True, cwd=root).stdout
print(r)
if "FAILED" in r or "error" in r or "failed;" not in r:
    print("TESTS FAILED - not committing")
    sys.exit(1)
if "--no-commit" in sys.argv:
    sys.exit(0)
cmd = ["git", "-C", root, "commit", "-qam", spec["MSG"]]
if "--amend" in sys.argv:
    cmd = ["git", "-C", root, "commit", "-qa", "--amend", "-m", spec["MSG"]]
subprocess.run(cmd, check=True)
print(subprocess.run(["git", "-C", root, "log", "--oneline", "-1"], capture_output=True, text=True).stdout)
