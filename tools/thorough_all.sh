#!/bin/bash
# run from a snapshot of /verif: every thorough check once
for p in C02 C13 C08 C15 C14 C07 C06 C09 C10 C11 C04 C16 C17 C03 C01 C05 C12; do
  s=$(date +%s)
  out=$(VERIF_SEED=${VERIF_SEED:-13} timeout 7200 ./check $p thorough 2>&1); code=$?
  e=$(date +%s)
  echo "== $p thorough exit=$code time=$((e-s))s :: $(echo "$out" | grep -a "^$p thorough" | tail -1)"
  if [ $code -ne 0 ]; then echo "$out" | grep -a -v "^VIOLATION" | head -30 | cut -c1-700; fi
done
