#!/usr/bin/env python3
"""Writes /verif/MANIFEST.json from the table below (edit the table, re-run)."""
import json, subprocess

BUILT = {
 "C01": ("exploration", "runtime differential monitor: executable reference interpreter (DESIGN §4) evaluated on the tree the real parser returned vs eval() under probes, quarantine shadow heap and instruction budget",
         "Every enumerated program up to a node budget and seeded type-directed random programs (6 profiles, injected faults) are executed by the real pipeline and by a definitional tree-walking interpreter; value, captured output and error kind must agree; documented example outputs are checked directly. Held on the programs run; unspecified behaviours (DESIGN 4.3) are skipped and counted.",
         "trusts harness/src/refsem.rs as the definition (cross-checked each run against documented outputs)", "6.1"),
 "C05": ("exploration", "worker-process supervisor as monitor: exit status / signal / stderr of workers, panics caught in-process, instruction budget, wall-clock watchdog with re-run in isolation; release + debug builds and the shipped binary",
         "Directed boundary corpus, token soups, token edits, truncation at every char boundary and Unicode noise are evaluated in supervised worker processes; anything but a value, one of the five error kinds or budget exhaustion inside the VM loop is a violation. Held on the inputs tried.",
         "a hang is decided by a generous watchdog and must repeat in isolation; SIGKILL is inconclusive", "6.5"),
 "C07": ("exploration", "runtime round-trip monitor: print tree -> real parser -> compare trees, under random layouts; operator-pair space enumerated completely",
         "All 11 336 binary-operator trees with at most three operators, assignment/op-assignment over all trees with at most two, postfix/prefix against every operator and else-if chains are printed with minimal parentheses and re-parsed by the real parser; random programs under random layouts. Held on the trees printed.",
         "prefix-operator binding strength is undocumented and avoided by the printer", "6.7"),
 "C08": ("exploration", "token-stream hook compared with generated token sequences; token-conservation monitor on every damaged text that parses; complete string-literal enumeration",
         "Random token sequences over the whole vocabulary with every separator choice a maximal-munch model allows must be seen by the real lexer exactly as written; every damaged text that still parses must keep all its content tokens; all 4 681 string contents up to length 4 over an 8-character alphabet decode exactly. Held on the texts generated.",
         "the adjacency model decides where no separator is needed (Appendix B)", "6.8"),
 "C13": ("exploration", "runtime differential monitor: reference model with object identity vs eval(); (length, index) grid enumerated completely",
         "Complete sweep of every index from -(len+2) to len+2 over arrays of length 0-6 and strings of 0-6 characters of 1- to 4-byte code points (read, write, re-read, lengte, through aliases), every value type as index and stored value, directed aliasing cases and random operation sequences observed through every alias. Held on the sequences run.",
         "aliased string mutation is unspecified (4.3(7)) and skipped", "6.13"),
 "C14": ("exploration", "runtime differential monitor: builtin table of the reference semantics + algebraic laws vs eval(); builtin x shape matrix complete",
         "Every builtin on every value shape and with 0/2/3 arguments, print over a format x argument-count grid, round-trip and identity laws over the int lattice, random ints, floats and texts. Documented entries are compared exactly, undocumented ones for totality and result type. Held on the calls made.",
         "entries under DESIGN 4.3(12,13) are only checked for totality", "6.14"),
 # id: (level, technique, level text, level note, design ref)
 "C06": ("exploration", "runtime differential monitor: exact big-integer / IEEE / code-point oracle over eval() of a op b; boundary lattice exhaustive, release and debug builds",
         "Every pair of a 355-value boundary lattice x 11 operators x 3 syntactic forms is executed on the real interpreter and compared with an exact oracle (complete enumeration), plus random 61-bit, float and string pairs and the 7x7 cross-type matrix; repeated on the debug-assertion/overflow-check build. Held on what was executed; the 2^122 pairs outside lattice+sample are not covered.",
         "trusts the host's i128 and f64 arithmetic as the oracle", "6.6"),
 "C15": ("exploration", "runtime round-trip assertions on the public Object API (constructors vs accessors, pairwise == over a 200x200 cross product)",
         "Direct encode/decode round trips on the real Object type: complete int lattice and (offset,count) boundary grid, random ints/floats (incl. NaN payloads)/strings/nested arrays, complete pairwise distinctness over a 200-value sample. Held on the values constructed.",
         "heap constructors are reached through the GC re-export of the verif feature", "6.15"),
}
ALL = ["C%02d" % i for i in range(1, 18)]

checks = []
for pid in ALL:
    if pid not in BUILT:
        continue
    level, tech, text, note, ref = BUILT[pid]
    checks.append({
        "property_id": pid,
        "quick_cmd": "./check %s quick" % pid,
        "thorough_cmd": "./check %s thorough" % pid,
        "evidence_file": "/verif/evidence/%s.json" % pid,
        "replay_cmd_template": "./check %s --replay {path}" % pid,
        "engine": "nlv",
        "level_claimed": {"category": level, "text": text, "design_ref": "DESIGN.md section " + ref},
        "level_note": note,
        "technique": tech,
    })

commits = subprocess.run(["git", "-C", "/repo", "log", "--format=%h %s"], capture_output=True, text=True).stdout.splitlines()
hook_commits = [c.split()[0] for c in commits if c.split(" ", 1)[1].startswith("verif:")]

manifest = {
    "version": 1,
    "setup_cmd": "./check build",
    "hooks": {
        "guard": "cargo feature `verif` of the nederlang crate (off by default)",
        "enable": "the harness crate /verif/harness depends on /repo by path with features = [\"verif\"]; every ./check invocation rebuilds it from /repo's working tree",
        "baseline_off_cmd": "cd /repo && cargo test --workspace --no-fail-fast --offline",
        "source_commits": hook_commits,
        "add_only": True,
    },
    "engines": [{
        "name": "nlv",
        "path": "/verif/harness",
        "serves_properties": [c["property_id"] for c in checks],
        "kind_free_text": "Rust harness: supervisor + worker processes running the real interpreter under hooks (print capture, instruction budget, guarded probes, shadow heap, GC callbacks); reference-model, metamorphic and offline-log oracles; debug/ASan/Miri/valgrind passes",
    }],
    "checks": checks,
    "not_applicable": [{"property_id": p, "reason": "check under construction in this session (not a claim that runtime monitoring cannot apply)"} for p in ALL if p not in BUILT],
    "notes": "Technique family: runtime monitoring and sanitizers. ./check <id> quick|thorough; VERIF_SEED seeds every random choice. Exit 0 held / 1 VIOLATION / 2 inconclusive / 3 build failure. Known findings: /verif/known_findings.json.",
}
json.dump(manifest, open("/verif/MANIFEST.json", "w"), indent=1)
print("checks:", [c["property_id"] for c in checks])
