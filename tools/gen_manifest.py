#!/usr/bin/env python3
"""Writes /verif/MANIFEST.json from the table below (edit the table, re-run)."""
import json, subprocess

BUILT = {
 "C02": ("exploration", "guarded probes at every unchecked VM access (natural and forced-branch runs) + offline all-paths checker over the bytecode the real compiler emitted, validated against instruction traces of the real VM + control-flow-integrity monitor over every trace (successor relation, shadow call stack)",
         "Every accepted text (directed corpus, enumerated programs, random programs, token mutants and soups that compile) is run with a probe in front of each unchecked access of the VM, naturally and under forced branch schedules, and its emitted bytecode is checked offline on all control-flow paths (decode, jump targets, function regions, minimum stack height, operand ranges); every traced instruction must lie inside the statically computed height range, and every trace is replayed against the encoding (start at the entry, fetch on an instruction boundary, successor = fall-through / jump target / function entry, returns against a shadow call stack), including programs of more than 64 KiB of code. Held on the bytecode seen.",
         "the offline checker is a monitor over recorded compiler output, not a proof about the compiler; accesses inside Vec/String/bitvec are left to the sanitizer passes", "6.2"),
 "C03": ("exploration", "shadow heap (liveness checked at every dereference, double-release detection) + reachability post-condition at the end of every GC::run + direct driver of the collector against a reachability model + valgrind memcheck on the hook-free binary + long runs (millions of allocations into arrays that survived a collection) and one machine with several compilers + arrays with exactly one heap element (every length up to a bound, every slot)",
         "Allocating programs (directed heap shapes, heap/calls profile random programs) run under a quarantine shadow heap; at every collection the set reachable from the roots must stay allocated with unchanged content; the collector is also driven directly with all operation sequences up to a bound and random longer ones; the directed corpus runs under valgrind on the un-instrumented binary. Held on the collections observed.",
         "the shadow heap sees Float/String/Array boxes; the buffers inside them are covered by valgrind/ASan only", "6.3"),
 "C04": ("fault_enumeration", "allocation ledger audited after every run and after every abort point k (instruction budget hook) + managed-set post-condition at every GC::run + collector driver + valgrind leak check + long runs and one machine with several compilers (ledger audited after the machine is gone)",
         "For every program the run is repeated with an error injected after k instructions for every k up to its length (selected k for long runs); after each exit path, and after the harness released each distinct object of the result graph once, the ledger must be empty and nothing released twice; after every collection the managed set must equal managed-before intersected with reachable. Held on the abort points enumerated.",
         "fault = abort after exactly k dispatched instructions, through the same return path a run-time error takes", "6.4"),
 "C09": ("exploration", "runtime differential monitor (reference scoping model) + metamorphic monitors: alpha-renaming, padding with unused/shadowing declarations, injection of an undeclared name + self-checking programs over names that collide under 22 standard hashes and over tens of thousands of distinct names (props/collide.rs)",
         "Directed scoping cases and scopes-profile random programs are compared with the reference model; each program is also compared with its renamed and padded variants (same outcome) and with variants in which one identifier use is replaced by an undeclared name (reference error before any output). Held on the programs and variants run.",
         "closures and self-initialisers are unspecified (4.3) and filtered out", "6.9"),
 "C10": ("exploration", "metamorphic runtime monitor: a program vs its transformed variants (globals to locals, literal to variable, mirrored operands, constant-pool perturbation); no reference interpreter in the oracle + literals that collide under standard hashes, Thue-Morse words, tens of thousands of distinct literals read back; a constant pool filled to the brim",
         "Each closed program is executed together with up to nine variants that differ only in how the compiler implements it; value, output and error kind must be equal; every fused opcode must be dispatched. Held on the program/variant pairs run.",
         "the reference interpreter is used only to filter out programs with unspecified meaning", "6.10"),
 "C11": ("exploration", "runtime differential monitor on an enumerated template space + residue monitors (iteration-count sweep, operand-stack height at loop heads from the instruction trace) + sweep of every jump-operand size around a byte-exact filler (props/jumps.rs)",
         "Nests of depth 1-3 over block/if/else-if/while with every early-exit placement are compared with the reference model (complete in the thorough tier); 16 loop bodies are run for 0 to 70 000 iterations and the code after the loop must behave identically; traced stack heights at loop heads must not change between iterations. Held on the templates and runs executed.",
         "value of a loop that ran is unspecified (4.3(8))", "6.11"),
 "C12": ("exploration", "runtime differential monitor (reference model) + frame-discipline monitor over the instruction trace (base pointer, frame count, stack height at Call/Return) + limit cases + the directed calls through the shipped binary under nine environments",
         "Directed call shapes and calls-profile random programs are compared with the reference; from the trace the callee's base pointer must sit exactly at its first argument and the caller's frame count, base pointer and height must be restored after every return; recursion/argument/local/code-size limits must give the exact value or an error. Held on the calls traced.",
         "limit cases use the weaker oracle 'exact value or an error'", "6.12"),
 "C16": ("exploration", "item-by-item agreement of four execution contexts: fresh process per item, shuffled/repeated in one process with failing evaluations in between, 16 threads, debug build; the batch includes probes at every limit of the interpreter and polluter / probe pairs; the batch again next to millions of live objects of other evaluations (heavy-neighbours)",
         "One batch of generated programs (plus programs just below, at and above the nesting, stack, operand-size and integer-range limits, and programs that modify in place whatever builtins and literals hand out) is evaluated in a fresh process each, repeatedly in random orders inside a long-lived process, concurrently from 16 threads with random delays, and by the debug-assertion build; the renderings must agree. Held on the interleavings and histories produced.",
         "only the two Cargo profiles are compared; thread-sanitizer / Miri passes are part of the thorough tier when their builds are available", "6.16"),
 "C17": ("fault_enumeration", "retained Compiler+VM driven like the prompt; reference session model + eval() of the concatenated successful lines + carry-over and shadow-heap monitors; every line cut after every k instructions; the same sessions typed into the shipped prompt and compared line by line; sessions past 32 / 64 KiB of code, lines typed again after an error, the first failing line compared with the one program as well; the session typed at a pseudo-terminal (tools/pty_session.py), the interrupt key at the idle prompt, the reader of stdout going away, each line on a thread of its own; a size-limit refusal is compared with the one program",
         "All sessions of up to 3 lines over a 14-line alphabet (strided at length 3 in the quick tier), random sessions of 4-12 lines and directed ones; lines fail at parse, compile and run time, and every line of the alphabet sessions is cut after every k instructions, after which following lines probe the state: it must equal a prefix of the line's assignments. Held on the sessions and cuts enumerated.",
         "results handed out by a line are not released by the harness; referring to names declared by a run-time-failed line is unspecified (4.3(16))", "6.17"),
 "C01": ("exploration", "runtime differential monitor: executable reference interpreter (DESIGN §4) evaluated on the tree the real parser returned (and, for the operator-grouping family, on the harness's own tree) vs eval() under probes, quarantine shadow heap and instruction budget",
         "Every enumerated program up to a node budget and seeded type-directed random programs (6 profiles, injected faults) are executed by the real pipeline and by a definitional tree-walking interpreter; value, captured output and error kind must agree; documented example outputs are checked directly. Held on the programs run; unspecified behaviours (DESIGN 4.3) are skipped and counted.",
         "trusts harness/src/refsem.rs as the definition (cross-checked each run against documented outputs)", "6.1"),
 "C05": ("exploration", "worker-process supervisor as monitor: exit status / signal / stderr of workers, panics caught in-process, instruction budget, hang = no answer while consuming CPU time (wall clock only as watchdog) with re-run in isolation; release + debug builds and the shipped binary under a CPU-time limit and an address-space limit, built in the release and in the dev profile; inputs that are not UTF-8",
         "Directed boundary corpus, token soups, token edits, truncation at every char boundary and Unicode noise are evaluated in supervised worker processes; anything but a value, one of the five error kinds or budget exhaustion inside the VM loop is a violation. Held on the inputs tried.",
         "a hang is decided by consumed CPU time and must repeat in isolation; a worker that gets no CPU, SIGKILL and memory exhaustion a program spells out are not verdicts", "6.5"),
 "C07": ("exploration", "runtime round-trip monitor: print tree -> real parser -> compare trees, under random layouts; operator-pair space enumerated completely; every Unicode scalar value inside a comment (props/unisweep.rs); tight / loose / commented comma lists run by the binary under nine environments",
         "All 11 336 binary-operator trees with at most three operators, assignment/op-assignment over all trees with at most two, postfix/prefix against every operator and else-if chains are printed with minimal parentheses and re-parsed by the real parser; random programs under random layouts. Held on the trees printed.",
         "prefix-operator binding strength is undocumented and avoided by the printer", "6.7"),
 "C08": ("exploration", "token-stream hook compared with generated token sequences; token-conservation monitor on every damaged text that parses; complete string-literal enumeration; every Unicode scalar value in a string literal / an identifier / refused as illegal; multi-byte characters across power-of-two offsets of files run by the binary; two files on one command line",
         "Random token sequences over the whole vocabulary with every separator choice a maximal-munch model allows must be seen by the real lexer exactly as written; every damaged text that still parses must keep all its content tokens; all 4 681 string contents up to length 4 over an 8-character alphabet decode exactly. Held on the texts generated.",
         "the adjacency model decides where no separator is needed (Appendix B)", "6.8"),
 "C13": ("exploration", "runtime differential monitor: reference model with object identity vs eval(); (length, index) grid enumerated completely; life cycles of long strings judged by the texts printed next to each observation, under the plain allocator and the quarantine heap (props/strlife.rs); exactly N changes in place between two reads for N around 2^8 … 2^18",
         "Complete sweep of every index from -(len+2) to len+2 over arrays of length 0-6 and strings of 0-6 characters of 1- to 4-byte code points (read, write, re-read, lengte, through aliases), every value type as index and stored value, directed aliasing cases and random operation sequences observed through every alias. Held on the sequences run.",
         "aliased string mutation is unspecified (4.3(7)) and skipped", "6.13"),
 "C14": ("exploration", "runtime differential monitor: builtin table of the reference semantics + algebraic laws vs eval(); builtin x shape matrix complete; life cycles of long strings (props/strlife.rs)",
         "Every builtin on every value shape and with 0/2/3 arguments, print over a format x argument-count grid, round-trip and identity laws over the int lattice, random ints, floats and texts. Documented entries are compared exactly, undocumented ones for totality and result type. Held on the calls made.",
         "entries under DESIGN 4.3(12,13) are only checked for totality", "6.14"),
 # id: (level, technique, level text, level note, design ref)
 "C06": ("exploration", "runtime differential monitor: exact big-integer / IEEE / code-point oracle over eval() of a op b; boundary lattice exhaustive, release and debug builds; chains of 3-5 terms with every application checked against the range; comparisons of long strings across in-place changes (props/strlife.rs)",
         "Every pair of a 355-value boundary lattice x 11 operators x 3 syntactic forms is executed on the real interpreter and compared with an exact oracle (complete enumeration), plus random 61-bit, float and string pairs and the 7x7 cross-type matrix; repeated on the debug-assertion/overflow-check build. Held on what was executed; the 2^122 pairs outside lattice+sample are not covered.",
         "trusts the host's i128 and f64 arithmetic as the oracle", "6.6"),
 "C15": ("exploration", "runtime round-trip assertions on the public Object API (constructors vs accessors, pairwise == over a 200x200 cross product) + literals and == / != read back through whole programs (constant pool, every comparison instruction) + life cycles of long strings (comparisons judged by the texts printed next to them)",
         "Direct encode/decode round trips on the real Object type: complete int lattice and (offset,count) boundary grid, random ints/floats (incl. NaN payloads)/strings/nested arrays, complete pairwise distinctness over a 200-value sample. Held on the values constructed.",
         "heap constructors are reached through the GC re-export of the verif feature", "6.15"),
}
ALL = ["C%02d" % i for i in range(1, 18)]

checks = []
for pid in ALL:
    if pid not in BUILT:
        continue
    level, tech, text, note, ref = BUILT[pid]
    checks.append({
        "property_id": pid,
        "quick_cmd": "./check %s quick" % pid,
        "thorough_cmd": "./check %s thorough" % pid,
        "evidence_file": "/verif/evidence/%s.json" % pid,
        "replay_cmd_template": "./check %s --replay {path}" % pid,
        "engine": "nlv",
        "level_claimed": {"category": level, "text": text, "design_ref": "DESIGN.md section " + ref},
        "level_note": note,
        "technique": tech,
    })

commits = subprocess.run(["git", "-C", "/repo", "log", "--format=%h %s"], capture_output=True, text=True).stdout.splitlines()
hook_commits = [c.split()[0] for c in commits if c.split(" ", 1)[1].startswith("verif:")]

manifest = {
    "version": 1,
    "setup_cmd": "./check build",
    "hooks": {
        "guard": "cargo feature `verif` of the nederlang crate (off by default)",
        "enable": "the harness crate /verif/harness depends on /repo by path with features = [\"verif\"]; every ./check invocation rebuilds it from /repo's working tree",
        "baseline_off_cmd": "cd /repo && cargo test --workspace --no-fail-fast --offline",
        "source_commits": hook_commits,
        "add_only": True,
    },
    "engines": [{
        "name": "nlv",
        "path": "/verif/harness",
        "serves_properties": [c["property_id"] for c in checks],
        "kind_free_text": "Rust harness: supervisor + worker processes running the real interpreter under hooks (print capture, instruction budget, guarded probes, shadow heap, GC callbacks); reference-model, metamorphic and offline-log oracles; debug/ASan/Miri/valgrind passes",
    }],
    "checks": checks,
    "not_applicable": [{"property_id": p, "reason": "check under construction (not a claim that runtime monitoring cannot apply)"} for p in ALL if p not in BUILT],
    "notes": "Technique family: runtime monitoring and sanitizers. ./check <id> quick|thorough; VERIF_SEED seeds every random choice. Exit 0 held / 1 VIOLATION / 2 inconclusive / 3 build failure. Known findings: /verif/known_findings.json.",
}
json.dump(manifest, open("/verif/MANIFEST.json", "w"), indent=1)
print("checks:", [c["property_id"] for c in checks])
