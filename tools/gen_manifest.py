#!/usr/bin/env python3
"""Writes /verif/MANIFEST.json from the table below (edit the table, re-run)."""
import json, subprocess

BUILT = {
 # id: (level, technique, level text, level note, design ref)
 "C06": ("exploration", "runtime differential monitor: exact big-integer / IEEE / code-point oracle over eval() of a op b; boundary lattice exhaustive, release and debug builds",
         "Every pair of a 355-value boundary lattice x 11 operators x 3 syntactic forms is executed on the real interpreter and compared with an exact oracle (complete enumeration), plus random 61-bit, float and string pairs and the 7x7 cross-type matrix; repeated on the debug-assertion/overflow-check build. Held on what was executed; the 2^122 pairs outside lattice+sample are not covered.",
         "trusts the host's i128 and f64 arithmetic as the oracle", "6.6"),
 "C15": ("exploration", "runtime round-trip assertions on the public Object API (constructors vs accessors, pairwise == over a 200x200 cross product)",
         "Direct encode/decode round trips on the real Object type: complete int lattice and (offset,count) boundary grid, random ints/floats (incl. NaN payloads)/strings/nested arrays, complete pairwise distinctness over a 200-value sample. Held on the values constructed.",
         "heap constructors are reached through the GC re-export of the verif feature", "6.15"),
}
ALL = ["C%02d" % i for i in range(1, 18)]

checks = []
for pid in ALL:
    if pid not in BUILT:
        continue
    level, tech, text, note, ref = BUILT[pid]
    checks.append({
        "property_id": pid,
        "quick_cmd": "./check %s quick" % pid,
        "thorough_cmd": "./check %s thorough" % pid,
        "evidence_file": "/verif/evidence/%s.json" % pid,
        "replay_cmd_template": "./check %s --replay {path}" % pid,
        "engine": "nlv",
        "level_claimed": {"category": level, "text": text, "design_ref": "DESIGN.md section " + ref},
        "level_note": note,
        "technique": tech,
    })

commits = subprocess.run(["git", "-C", "/repo", "log", "--format=%h %s"], capture_output=True, text=True).stdout.splitlines()
hook_commits = [c.split()[0] for c in commits if c.split(" ", 1)[1].startswith("verif:")]

manifest = {
    "version": 1,
    "setup_cmd": "./check build",
    "hooks": {
        "guard": "cargo feature `verif` of the nederlang crate (off by default)",
        "enable": "the harness crate /verif/harness depends on /repo by path with features = [\"verif\"]; every ./check invocation rebuilds it from /repo's working tree",
        "baseline_off_cmd": "cd /repo && cargo test --workspace --no-fail-fast --offline",
        "source_commits": hook_commits,
        "add_only": True,
    },
    "engines": [{
        "name": "nlv",
        "path": "/verif/harness",
        "serves_properties": [c["property_id"] for c in checks],
        "kind_free_text": "Rust harness: supervisor + worker processes running the real interpreter under hooks (print capture, instruction budget, guarded probes, shadow heap, GC callbacks); reference-model, metamorphic and offline-log oracles; debug/ASan/Miri/valgrind passes",
    }],
    "checks": checks,
    "not_applicable": [{"property_id": p, "reason": "check under construction in this session (not a claim that runtime monitoring cannot apply)"} for p in ALL if p not in BUILT],
    "notes": "Technique family: runtime monitoring and sanitizers. ./check <id> quick|thorough; VERIF_SEED seeds every random choice. Exit 0 held / 1 VIOLATION / 2 inconclusive / 3 build failure. Known findings: /verif/known_findings.json.",
}
json.dump(manifest, open("/verif/MANIFEST.json", "w"), indent=1)
print("checks:", [c["property_id"] for c in checks])
