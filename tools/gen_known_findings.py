#!/usr/bin/env python3
"""Writes /verif/known_findings.json. The table maps each repair in /repo (commit subject prefix) to the
property whose check found the defect, the signature the check reported, and what failed."""
import json, subprocess

log = subprocess.run(["git", "-C", "/repo", "log", "--format=%h\t%s"], capture_output=True, text=True).stdout.splitlines()
commits = {l.split("\t", 1)[1]: l.split("\t", 1)[0] for l in log if "\t" in l}

def commit(prefix):
    for subj, h in commits.items():
        if subj.startswith(prefix):
            return h
    raise SystemExit("no commit with subject starting: " + prefix)

FIXED = [
 ("C03", "fix: garbage collector marks by object position", "directed:gc-string-in-function:abort:heap-corruption", "`functie f() { \"abc\" } f()`: GC::mark indexed the mark bitmap with (object address - vector address): out-of-bounds write / heap corruption"),
 ("C04", "fix: garbage collector marks by object position", "heap-programs:leak-after-run", "every allocating program: the sweep iterated a length-0 bitmap, so nothing was ever released"),
 ("C06", "fix: order integers as signed values", "int-lattice:<:toplevel:wrong-value", "`-1 < 1` was nee: ordering compared tagged words as unsigned pointers"),
 ("C06", "fix: keep operand order when a constant is the left operand", "int-lattice:-:lit-op-var:wrong-value", "`functie f(n) { 10 - n } f(3)` was -7: fused constant/local opcodes ignored operand order"),
 ("C06", "fix: integer arithmetic reports a zero divisor", "int-lattice:/:toplevel:panic", "`1 / 0`, `1 % 0` panicked; 1152921504606846975 + 1 wrapped silently (release) or hit a debug assertion; negating the smallest integer"),
 ("C05", "fix: integer literals outside the integer range", "directed:huge-int-literal:panic@src/parser.rs", "`99999999999999999999` panicked in the parser; literals in 2^60..2^63 lost their upper bits"),
 ("C06", "fix: comparing arrays or ordering functions", "cross-type:==:toplevel:panic", "`[1] == [1]` and `f < g` hit unimplemented!()"),
 ("C01", "fix: a later declaration of the same name", "enumerated:value", "`stel a = 1; stel a = 2; a` was 1: resolve() returned the first of two equally named symbols"),
 ("C02", "fix: a block used as a value always leaves exactly one value", "directed:if-branch-ends-in-declaration:probe:pop:empty", "`als ja { stel a = 1 }` popped an empty stack; `{}` and empty loop bodies leaked one slot per execution"),
 ("C02", "fix: stop and volgende inside a function do not reach loops", "directed:stop-in-function-in-loop:bytecode:jump:leaves-region", "`zolang ja { functie() { stop }() }` compiled stop into a jump out of the function body"),
 ("C14", "fix: print replaces the placeholders of its format in one pass", "print-formats:output", "print(\"{} {}\", \"{}\", \"x\") printed `x {}`: placeholders were searched again in substituted text"),
 ("C08", "fix: decode string escapes in one pass", "string-decode:decl", "\"a\\\\\\\\b\" lost a backslash, \"\\\\n\" (backslash, n) became a newline, a string ending in an escaped backslash never ended"),
 ("C07", "fix: `anders als` continues with an if-expression", "random-programs:layout:rejected:Type", "`als a { } anders als b { }; [x]`: the `;` was swallowed by the nested statement and `[x]` parsed as an index on the if-expression"),
 ("C10", "fix: evaluating a string literal yields a fresh string", "directed:string-literal-mutated-elsewhere:T4-constant-pool:outcome-differs", "`stel a = \"abc\"; stel b = \"abc\"; a[0] = \"x\"; b` was \"xbc\": string literals were shared mutable constants"),
 ("C13", "fix: bounds check of string indexing counts characters", "string-index-sweep:panic", "`\"é\"[1]` panicked: the bound check used the byte length"),
 ("C14", "fix: int() reports values outside the integer range", "builtin-x-shape:value-instead-of-error", "int(1e30), int(float(1152921504606846975)), int of NaN/inf and int(\"1152921504606846976\") silently produced a wrong integer"),
 ("C05", "fix: a parameter list that contains anything but names", "directed:functie-open:hang", "`functie (`, `functie f(1) {}`: the parameter loop never advanced (parser hang)"),
 ("C08", "fix: an illegal character or an unterminated string", "conservation-mutants:tokens-dropped", "`1 # 2` evaluated to 1, `\"abc` to null, `42 & ,` to 42: Illegal doubled as end-of-input marker"),
 ("C05", "fix: the prompt reports syntax and compile errors", "binary-prompt:hang", "the REPL unwrap()ed parse/compile errors and looped forever at end of input"),
 ("C05", "fix: limit the nesting depth of expressions and blocks", "directed:deep-parens-100k:abort:stack-overflow", "100 000 nested ( [ { - ! als functie, or 300 000 chained additions overflowed the native stack (parser, compiler, AST destructor)"),
 ("C05", "fix: printing an array that contains itself", "directed:cyclic-print:abort:stack-overflow", "`stel a = [1]; a[0] = a; print(a)` recursed forever in Display"),
 ("C05", "fix: reading a global inside its own initialiser", "directed:self-initialiser:panic@src/vm.rs", "`stel x = x` indexed the globals vector out of bounds"),
 ("C05", "fix: antwoord outside of a function is a syntax error", "directed:toplevel-antwoord:would-be-undefined-behaviour:probe:popframe:empty", "top-level `antwoord 1` popped the only call frame and panicked"),
 ("C12", "fix: calls check the number of arguments and the size of the stack", "limits:recursion-60000:monitor-stop", "`functie f() {1} f(1, 2)` underflowed num_locals - num_args; recursion past 65 535 stack slots wrapped the 16-bit base pointer"),
 ("C05", "fix: programs that exceed the operand sizes of the bytecode", "directed:many-args-300:panic@src/compiler.rs", "more than 255 arguments, 65 535 constants / variables / array elements or 64 KiB of code in a jump range panicked in try_into().unwrap()"),
 ("C17", "fix: a failed compilation leaves nothing behind", "len-2:model:output", "after a line that failed to compile, the next line executed the left-over bytecode of the failed one (its print ran), inside its still-open scopes and loop contexts"),
 ("C17", "fix: every run of a retained VM starts with an empty stack", "len-3:carry-over", "after a line that failed at run time, operands and call frames stayed on the VM's stacks for the following lines"),
 ("C17", "fix: the garbage collector of a VM lives as long as the VM", "len-2:monitor:use-after-free", "`stel a = [1.5]` then `a`: the per-run collector released what globals and the retained compiler's constants still referenced"),
 ("C17", "fix: functions survive between the programs of a retained compiler", "directed:retained-function:monitor:probe:call:entry", "`functie f() { 7 }` then `f()`: the function value pointed into the previous line's instruction buffer"),
 ("C03", "fix: assigning a string into itself no longer reads freed memory", "valgrind:invalid-read", "`stel s = \"abcdefghijklmnopqrstuvwxyz\"; s[0] = s`: replace_range read its source from the buffer realloc had just released"),
 ("C11", "fix: stop and volgende in the condition of a loop belong to the enclosing loop", "directed:bytecode-residue:residue:heights-differ-at-join", "`[1, zolang als i > 2 { stop } anders { ja } { i += 1; i }, 3]` came out as [3, null, 3]: a stop / volgende in the condition of a loop left that loop with its previous value still on the stack (first noticed by the author of seeded change C11-b on the clean tree, then reproduced by C11's all-paths height check)"),
 ("C05", "fix: the garbage collector walks nested arrays without recursion", "binary-file:long-run:nest-1M-then-call:exit:None:signal:Some(6)", "`stel a = [1.5]; zolang i < 1000000 { a = [a]; i += 1 }; f()`: GC::mark (and GC::untrace for a result) recursed once per nesting level; the first function return after building the chain overflowed the native stack and the process aborted. Motivated a seeded change (C03-e: 'cap the depth of mark'); reproduced by C05's long-running directed cases on the tree before the fix (abort:stack-overflow in process, SIGABRT of the binary)"),
 ("C05", "fix: an `anders als` chain counts towards the nesting limit", "directed:else-if-chain-50k:abort:stack-overflow", "`als nee { 1 }` followed by 50 000 times ` anders als nee { 2 }` (a 1 MB file): the chain nests to the right, one level per link, and was the one form of nesting the limit of 256 levels did not count; parser / compiler / tree destructor recursed until the native stack overflowed and the process was aborted. Surfaced when the AddressSanitizer pass of C01 overflowed the harness's own tree conversion on a 4 097-arm chain; then reproduced on the real binary and by C05's new directed cases on the tree before the fix"),
 ("C05", "fix: the lexer skips whitespace and comments in a loop instead of by recursion", "binary-dev-file:newlines-300k:abort:stack-overflow", "a file of 30 000 or more consecutive blanks (or as many empty / comment lines) in front of `1`: Tokenizer::next called itself once per skipped character and per comment; in a build without optimisation (the dev profile, what `cargo run` gives) nothing turns that into a loop, the native stack overflowed and the process was aborted. Reported by the author of seeded change C05-i as seen on the clean tree; the harness's own debug flavour (opt-level 1) had hidden it, so C05 now also runs the shipped binary built in the dev profile; reproduced by its new directed cases on the tree before the fix"),
 ("C05", "fix: the number of calls in progress is limited like the stack", "directed:endless-recursion:no-slots:abort:alloc", "`functie f() { f() } f()`: a function without parameters and locals takes no stack slot, so the `stapel is vol` check never fired; the list of call frames grew until an allocation failed (abort after 2-3 s under a 4 GiB cap, the OOM killer otherwise). Reported by the author of seeded change C05-i as seen on the clean tree; the in-process workers had hidden it behind their instruction budget. Reproduced by C05's new directed cases (run without that budget, and through the binary) on the tree before the fix"),
 ("C05", "fix: input that is not valid UTF-8 is reported instead of panicking", "binary-file:invalid-utf8-in-a-comment:panic", "a program file with a byte sequence that is not UTF-8 (`1 // \\xff`): `fs::read_to_string(..).unwrap()` panicked (exit 101); the same line typed at the prompt made `read_line(..).unwrap()` panic. Reported by the author of seeded change C05-j as seen on the clean tree (the harness had only ever handed the binary valid UTF-8); reproduced by C05's new binary cases on the tree before the fix"),
 ("C17", "fix: a failed compilation leaves no constants behind", "directed:many-refused-lines:size-limit-although-the-one-program-is-small:after-refused-lines-only", "a session of 65 600 refused lines (`<literal> + bestaatniet`, a literal of its own each) and then `stel c = 70002`: the constants of refused lines stayed in the retained compiler's pool of 65 535 entries, so every later line with a new literal was refused with `programma is te groot`. Reported by the author of seeded change C17-j as seen on the clean tree; reproduced by C17's new directed session (and the new comparison of a size-limit error with the one program) on the tree before the fix"),
 ("C11", "fix: stop and volgende discard the operands of half-evaluated expressions", "residue:loop-head-height:x = 1 + als i % 2 == 0 { volgende } anders { 2 }", "stop / volgende from inside a half-evaluated expression left the pending operands on the stack: one or more slots of residue per early exit"),
]

# genuine defects that are recorded, not repaired: (property, exact signature, what fails)
KNOWN = [
 ("C17", "directed:run-time-failures-leave-their-code:size-limit-although-the-one-program-is-small:after-lines-that-failed-while-running", "session `stel a = 1` / 9 000 statements then `[1][5]` (36 KB of code, fails while running) / the same again / `als a == 1 { 2 } anders { 3 }`: the last line is refused with `programma is te groot` although the one program made of the successful lines is tiny — the code of a line that was accepted and then failed while running stays in the session's 64 KiB of jump range (DESIGN §13)"),
 ("C17", "random:size-limit-although-the-one-program-is-small:after-lines-that-failed-while-running", "the same in a generated session: a line with tens of kilobytes of code fails (or is cut) while running, a later line with a branch or a loop is refused with `programma is te groot` (DESIGN §13)"),
]

# (the thorough tier repeats the in-process families in an AddressSanitizer build: its signatures carry the prefix `asan:`)
KNOWN += [(p, "asan:" + sig, what + " [AddressSanitizer pass]") for p, sig, what in KNOWN]

out = {
 "comment": "Genuine defects of dannyvankooten/nederlang found by the checks in /verif. status=fixed entries document a repair (property, commit in /repo, signature the check reported, what failed) and suppress nothing: the check passes on the repaired tree and reports the violation again if it returns. status=known entries are genuine defects that are recorded and not repaired: a check that observes exactly that signature prints KNOWN-FINDING and still exits 0; any other violation of the same property is reported as usual. This file is never written at run time.",
 "findings": [{"property": p, "status": "fixed", "commit": commit(prefix), "signature": sig, "what": what} for p, prefix, sig, what in FIXED]
           + [{"property": p, "status": "known", "signature": sig, "what": what} for p, sig, what in KNOWN],
}
json.dump(out, open("/verif/known_findings.json", "w"), indent=1, ensure_ascii=False)
print(len(out["findings"]), "entries")
