#!/bin/bash
# usage: tools/seeds_all.sh [tier]   — every seeded change against the check of the property it targets
# (through tools/try_seed_iso.sh, so /repo is never touched). Prints one line per seed: detected / MISSED.
tier=${1:-quick}
# optional second argument: a regular expression on the seed id (to run several lanes side by side, each with its own ISO=n)
only=${2:-.}
cd "$(dirname "$0")/.."
for d in seeded/*/; do
  id=$(basename "$d"); p=${id%%-*}
  echo "$id" | grep -Eq "$only" || continue
  # (a few changes violate nothing the check of their own property observes: meta.json names the check that does)
  cw=$(jq -r '.check_with // empty' "$d/meta.json" 2>/dev/null); [ -n "$cw" ] && p=$cw
  if [ -n "$(jq -r '.neutralised_by // empty' "$d/meta.json" 2>/dev/null)" ]; then echo "skipped  $id :: no longer a breaking change (see meta.json: neutralised_by)"; continue; fi
  out=$(tools/try_seed_iso.sh "$d/patch.diff" "$tier" "$p" 2>&1)
  line=$(echo "$out" | grep -a "^== $p")
  case "$line" in
    *"exit=1 "*) echo "detected $id :: $line :: $(echo "$out" | grep -a '^ *[0-9]* --- ' | head -2 | sed 's/^ *[0-9]* --- //' | tr '\n' ';' | cut -c1-160)";;
    *) echo "MISSED   $id :: $line $(echo "$out" | tail -2 | tr '\n' ' ' | cut -c1-200)";;
  esac
done
