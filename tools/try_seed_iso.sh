#!/bin/bash
# usage: tools/try_seed_iso.sh <patch.diff> <tier> <Cnn> [Cnn ...]
# Like try_seed.sh, but without touching /repo: a scratch worktree of /repo gets the patch, a scratch copy of
# the framework is pointed at it, the checks run there. For use while something else (a thorough sweep) is
# building from /repo. The registered checks and the committed evidence always come from /verif + /repo.
# The scratch copies (/tmp/wt/iso-repo, /tmp/wt/iso-verif) are kept between calls for incremental builds;
# remove them with `tools/try_seed_iso.sh --clean`.
set -u
wt=/tmp/wt/iso-repo${ISO:-}
vs=/tmp/wt/iso-verif${ISO:-}
if [ "${1:-}" = "--clean" ]; then rm -rf "$vs"; git -C /repo worktree remove --force "$wt" 2>/dev/null; git -C /repo worktree prune; exit 0; fi
patch="$(readlink -f "$1")"; tier="$2"; shift 2
exec 9>/tmp/wt/iso${ISO:-}.lock; flock 9
git -C /repo worktree prune
if [ ! -d "$wt" ]; then git -C /repo worktree add -q --detach "$wt" HEAD || exit 2; fi
# reset --hard, not checkout -- .: `git apply -3` stages what it applies, and a staged change survives a checkout
( cd "$wt" && git reset -q --hard && git clean -fdq && git checkout -q --detach "$(git -C /repo rev-parse HEAD)" && git reset -q --hard ) || exit 2
[ -z "$(git -C "$wt" status --porcelain)" ] || { echo "scratch worktree is not clean" >&2; exit 2; }
# (a 3-way attempt that ends in conflicts leaves markers behind: reset before trying anything else)
( cd "$wt" && { git apply "$patch" 2>/dev/null || git apply -3 "$patch" 2>/dev/null || { git reset -q --hard; git apply -C1 "$patch" 2>/dev/null; } || git apply --ignore-whitespace "$patch"; } ) || { echo "patch does not apply" >&2; exit 2; }
mkdir -p "$vs"
# (ISO_SRC: a frozen copy of the framework, so that work on /verif can go on while a long series of trials runs)
rsync -a --exclude 'target*' --exclude '.git' --exclude 'replays/*' --exclude 'evidence/*' "${ISO_SRC:-/verif}"/ "$vs"/
sed -i "s#path = \"/repo\"#path = \"$wt\"#" "$vs/harness/Cargo.toml"
sed -i "s#cd /repo && cargo build#cd $wt \&\& cargo build#" "$vs/check"
mkdir -p "$vs/evidence"
cd "$vs"
for p in "$@"; do
  s=$(date +%s)
  out=$(timeout 3000 ./check "$p" "$tier" 2>&1); code=$?
  e=$(date +%s)
  nviol=$(echo "$out" | grep -a -c '^VIOLATION')
  echo "== $p $tier exit=$code violations=$nviol time=$((e-s))s"
  echo "$out" | grep -a '^--- ' | sort | uniq -c | sort -rn | head -6 | cut -c1-220
  if [ "$code" != "0" ] && [ "$code" != "1" ]; then echo "$out" | tail -5 | cut -c1-300; fi
done
( cd "$wt" && git reset -q --hard )
