#!/bin/bash
# usage: tools/coverage.sh [tier] [Cnn ...]
# Which lines of /repo/src do the workloads of the checks execute? Builds the harness with -Cinstrument-coverage
# (nightly), runs the given checks (default: all, quick tier) from a scratch root so that /verif/evidence is not
# touched, merges the profiles and prints per-file line coverage of /repo/src plus the uncovered lines.
# Not a check: a tool to find what the generators never reach.
set -u
tier=${1:-quick}; shift || true
props=${*:-C01 C02 C03 C04 C05 C06 C07 C08 C09 C10 C11 C12 C13 C14 C15 C16 C17}
V="$(cd "$(dirname "$0")/.." && pwd)"
S=/tmp/nlv-cov; rm -rf $S; mkdir -p $S/root $S/prof
ln -s "$V/harness" $S/root/harness; cp "$V/known_findings.json" $S/root/
SYS=$(rustc +nightly --print sysroot)/lib/rustlib/x86_64-unknown-linux-gnu/bin
( cd "$V/harness" && RUSTFLAGS="-Cinstrument-coverage" CARGO_NET_OFFLINE=true cargo +nightly build --release --offline -q --target-dir target-cov 2>/dev/null ) || { echo "coverage build failed"; exit 3; }
for p in $props; do
  NLV_ROOT=$S/root LLVM_PROFILE_FILE="$S/prof/$p-%p-%m.profraw" "$V/harness/target-cov/release/nlv" run $p $tier 2>&1 | grep -a "^$p $tier" | cut -c1-160
done
$SYS/llvm-profdata merge -sparse $S/prof/*.profraw -o $S/all.profdata 2>/dev/null
$SYS/llvm-cov report "$V/harness/target-cov/release/nlv" -instr-profile=$S/all.profdata /repo/src 2>/dev/null | grep -v "verif.rs" | cut -c1-200
$SYS/llvm-cov show "$V/harness/target-cov/release/nlv" -instr-profile=$S/all.profdata /repo/src --show-line-counts-or-regions 2>/dev/null > $S/show.txt
# uncovered executable lines (count 0), with file names
awk '/^\/repo\/src\//{f=$0} /^ +[0-9]+\| +0\|/{print f" "$0}' $S/show.txt | grep -v "verif.rs" > "$V/harness/target/uncovered-lines.txt"
echo "uncovered lines: $(wc -l < "$V/harness/target/uncovered-lines.txt") (harness/target/uncovered-lines.txt)"
rm -rf $S/prof
