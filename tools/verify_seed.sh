#!/bin/bash
# usage: tools/verify_seed.sh <agent-worktree> <seed-id>
# Confirms a seeded change independently in a fresh scratch worktree: patch applies, crate builds,
# the 99 baseline tests pass, the demonstration differs with / without the change. Copies the
# artefacts to /verif/seeded/<seed-id>/ and removes the scratch worktree.
set -u
src="$1"; id="$2"
w=/tmp/wt/verify-$id
rm -rf "$w"; git -C /repo worktree prune
git -C /repo worktree add -q --detach "$w" HEAD || exit 2
cd "$w" || exit 2
ok=1
git apply "$src/SEED/patch.diff" || { echo "PATCH DOES NOT APPLY"; ok=0; }
if [ $ok = 1 ]; then
  if git diff --name-only | grep -v '^src/' | grep -q .; then echo "patch touches files outside src/"; fi
  cargo build --offline -q 2>/dev/null || { echo "BUILD FAILS"; ok=0; }
fi
if [ $ok = 1 ]; then
  t=$(cargo test --offline 2>&1 | grep -E "^test result" | awk '{p+=$4; f+=$6} END {print p" passed "f" failed"}')
  echo "tests with change: $t"
  case "$t" in "99 passed 0 failed") ;; *) echo "TESTS DO NOT PASS"; ok=0;; esac
fi
demo=$(ls "$src"/SEED/demo.sh 2>/dev/null | head -1)
[ -n "$demo" ] || demo=$(ls "$src"/SEED/demo.* 2>/dev/null | head -1)
if [ $ok = 1 ] && [ -n "$demo" ] && [[ "$demo" == *.nl ]]; then
  with=$(timeout 60 target/debug/nederlang "$demo" 2>&1 | head -40)
  git apply -R "$src/SEED/patch.diff"; cargo build --offline -q 2>/dev/null
  without=$(timeout 60 target/debug/nederlang "$demo" 2>&1 | head -40)
  echo "--- demo WITH change:"; echo "$with" | head -12
  echo "--- demo WITHOUT change:"; echo "$without" | head -12
  if [ "$with" = "$without" ]; then
    echo "DEMO OUTPUT IDENTICAL: memory-only change, asking valgrind (memcheck, leak-check=full)"
    vg="valgrind -q --error-exitcode=99 --leak-check=full --errors-for-leak-kinds=definite,indirect"
    $vg target/debug/nederlang "$demo" >/dev/null 2>/tmp/vg-without.txt; c0=$?
    git apply "$src/SEED/patch.diff"; cargo build --offline -q 2>/dev/null
    $vg target/debug/nederlang "$demo" >/dev/null 2>/tmp/vg-with.txt; c1=$?
    echo "valgrind exit WITHOUT change: $c0, WITH change: $c1 ($(grep -m1 -E "Invalid|uninitialised|lost" /tmp/vg-with.txt | cut -c1-100))"
    if [ "$c0" = "0" ] && [ "$c1" = "99" ]; then :; else echo "VALGRIND DOES NOT SEPARATE THEM"; ok=0; fi
  fi
fi
if [ $ok = 1 ] && [ -n "$demo" ] && [[ "$demo" == *.rs ]]; then
  cp "$demo" tests/seed_demo.rs
  with=$(cargo test --offline --test seed_demo 2>&1 | grep -E "^test result|panicked|assert" | head -5)
  git apply -R "$src/SEED/patch.diff"
  without=$(cargo test --offline --test seed_demo 2>&1 | grep -E "^test result|panicked|assert" | head -5)
  rm -f tests/seed_demo.rs
  echo "--- demo test WITH change:"; echo "$with"
  echo "--- demo test WITHOUT change:"; echo "$without"
fi
if [ $ok = 1 ] && [ -n "$demo" ] && [[ "$demo" == *.txt ]]; then
  with=$(timeout 60 target/debug/nederlang < "$demo" 2>&1 | head -40)
  git apply -R "$src/SEED/patch.diff"; cargo build --offline -q 2>/dev/null
  without=$(timeout 60 target/debug/nederlang < "$demo" 2>&1 | head -40)
  echo "--- session WITH change:"; echo "$with" | head -14
  echo "--- session WITHOUT change:"; echo "$without" | head -14
  if [ "$with" = "$without" ]; then
    echo "SESSION OUTPUT IDENTICAL: memory-only change, asking valgrind"
    vg="valgrind -q --error-exitcode=99 --leak-check=full --errors-for-leak-kinds=definite,indirect"
    $vg target/debug/nederlang < "$demo" >/dev/null 2>/tmp/vg-without.txt; c0=$?
    git apply "$src/SEED/patch.diff"; cargo build --offline -q 2>/dev/null
    $vg target/debug/nederlang < "$demo" >/dev/null 2>/tmp/vg-with.txt; c1=$?
    echo "valgrind exit WITHOUT change: $c0, WITH change: $c1 ($(grep -m1 -E "Invalid|uninitialised|lost" /tmp/vg-with.txt | cut -c1-100))"
    if [ "$c0" = "0" ] && [ "$c1" = "99" ]; then :; else echo "VALGRIND DOES NOT SEPARATE THEM"; ok=0; fi
  fi
fi
if [ $ok = 1 ] && [ -n "$demo" ] && [[ "$demo" == *.sh ]]; then
  # a script run from the worktree root: exit 0 without the change, non-zero with it
  mkdir -p SEED; cp "$src"/SEED/* SEED/ 2>/dev/null
  timeout 300 bash SEED/demo.sh >/tmp/demo-with.txt 2>&1; c1=$?
  git apply -R "$src/SEED/patch.diff"; cargo build --offline -q 2>/dev/null
  timeout 300 bash SEED/demo.sh >/tmp/demo-without.txt 2>&1; c0=$?
  echo "--- script WITH change (exit $c1):"; head -8 /tmp/demo-with.txt
  echo "--- script WITHOUT change (exit $c0):"; head -8 /tmp/demo-without.txt
  if [ "$c0" = "0" ] && [ "$c1" != "0" ]; then :; else echo "SCRIPT DOES NOT SEPARATE THEM"; ok=0; fi
fi
mkdir -p /verif/seeded/$id
cp "$src"/SEED/patch.diff /verif/seeded/$id/ 2>/dev/null
cp "$src"/SEED/demo.* /verif/seeded/$id/ 2>/dev/null
cp "$src"/SEED/NOTES.md /verif/seeded/$id/NOTES.md 2>/dev/null
cd /; git -C /repo worktree remove --force "$w"
echo "verified=$ok id=$id"
