#!/bin/bash
# usage: tools/quick_seeds.sh <seed> [<seed> ...]  — every quick check at the given seeds, one line each
# (evidence files are rewritten by every run: finish with a run at the default seed before committing evidence)
cd "$(dirname "$0")/.."
for s in "$@"; do
  for p in C01 C02 C03 C04 C05 C06 C07 C08 C09 C10 C11 C12 C13 C14 C15 C16 C17; do
    out=$(VERIF_SEED=$s ./check $p quick 2>&1); code=$?
    echo "seed=$s $p exit=$code :: $(echo "$out" | grep -a "^$p quick" | tail -1 | cut -c1-150)"
    if [ $code -ne 0 ]; then echo "$out" | grep -a -v "^VIOLATION" | head -12 | cut -c1-600; fi
  done
done
