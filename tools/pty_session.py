#!/usr/bin/env python3
"""Type a session into a program that sits on a pseudo-terminal.

usage: pty_session.py <binary> <session-file> [<arg> ...]

The binary gets a terminal as stdin / stdout / stderr (isatty() is true for all three), with echo and output
post-processing switched off, so that what it writes arrives byte for byte. The lines of the session file are typed
one at a time, each after the program has shown its prompt (`>>> `) or after a short wait; then end-of-input (^D).
A line consisting of `^C` stands for the interrupt key.
Everything the program wrote is copied to stdout; the last line on stderr is `status=<exit code or -signal>`.
A wall-clock limit of 60 s ends a program that does not react (status=timeout).
"""
import os
import pty
import select
import sys
import termios
import time

binary, session = sys.argv[1], sys.argv[2]
args = [binary] + sys.argv[3:]
lines = open(session, "rb").read().split(b"\n")
if lines and lines[-1] == b"":
    lines.pop()

pid, fd = pty.fork()
if pid == 0:
    try:
        a = termios.tcgetattr(0)
        a[1] &= ~termios.OPOST
        a[3] &= ~(termios.ECHO | termios.ECHONL | termios.ECHOE | termios.ECHOK)
        termios.tcsetattr(0, termios.TCSANOW, a)
    except Exception:
        pass
    os.execv(binary, args)

out = bytearray()
status = "timeout"
deadline = time.time() + 60


def read_until_prompt(wait):
    """collect output until it ends in the prompt (or nothing arrives for `wait` seconds); False = the program is gone"""
    global out
    end = time.time() + wait
    while time.time() < min(end, deadline):
        r, _, _ = select.select([fd], [], [], 0.05)
        if r:
            try:
                b = os.read(fd, 65536)
            except OSError:
                return False
            if not b:
                return False
            out += b
            end = time.time() + wait
            if out.endswith(b">>> ") or out.endswith(b"... "):
                return True
    return True


alive = read_until_prompt(2.0)
for l in lines:
    if not alive or time.time() > deadline:
        break
    try:
        if l == b"^C":
            # the interrupt key: the terminal driver sends SIGINT to the program
            time.sleep(0.2)
            os.write(fd, b"\x03")
            time.sleep(0.3)
            alive = read_until_prompt(0.3)
            continue
        os.write(fd, l + b"\n")
    except OSError:
        alive = False
        break
    alive = read_until_prompt(1.0)
if alive:
    try:
        os.write(fd, b"\x04")
    except OSError:
        pass
    while time.time() < deadline:
        r, _, _ = select.select([fd], [], [], 0.2)
        if r:
            try:
                b = os.read(fd, 65536)
            except OSError:
                break
            if not b:
                break
            out += b
        else:
            p, st = os.waitpid(pid, os.WNOHANG)
            if p:
                pid = 0
                status = str(os.WEXITSTATUS(st)) if os.WIFEXITED(st) else "-%d" % os.WTERMSIG(st)
                break

if pid:
    for _ in range(100):
        p, st = os.waitpid(pid, os.WNOHANG)
        if p:
            status = str(os.WEXITSTATUS(st)) if os.WIFEXITED(st) else "-%d" % os.WTERMSIG(st)
            break
        time.sleep(0.05)
    else:
        os.kill(pid, 9)
        os.waitpid(pid, 0)
sys.stdout.buffer.write(bytes(out))
sys.stdout.flush()
sys.stderr.write("status=%s\n" % status)
