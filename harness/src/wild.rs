//! A second program generator: structure first, types second. Where `gen.rs` builds programs whose types work
//! out (so that they run deep), this one puts any construct of the grammar into any slot that the grammar allows,
//! with only light hints towards operands that fit. Many of its programs end in a type error early — the reference
//! says which, and where — but all of them are *compiled* completely, and the compiler is what the structural
//! variety is for: every (slot <- construct) combination, empty bodies everywhere, loops / early exits / function
//! literals in value positions, declarations in odd places.
//!
//! Termination: every loop that can run carries a counter that stops it; the reference's step limit and the VM's
//! instruction budget take care of the rest.

use crate::ast::*;
use crate::rng::Rng;

#[derive(Clone, Copy, PartialEq)]
enum Hint {
    Any,
    Int,
    Bool,
}

struct W<'a> {
    r: &'a mut Rng,
    /// scopes of the current context (innermost last); entering a function starts a fresh list
    scopes: Vec<Vec<String>>,
    /// names of the outermost global scope (visible inside functions)
    globals: Vec<String>,
    fn_depth: usize,
    loop_depth: usize,
    /// loops whose counter is incremented at the end of the body: `volgende` would skip it
    no_continue: usize,
    fresh: usize,
    nodes: usize,
    max_nodes: usize,
    /// a second statement that belongs directly behind the one `stmt` returned (a loop behind its counter)
    pending: Option<Stmt>,
}

const NAMES: [&str; 8] = ["a", "b", "c", "s", "v", "w", "x1", "één"];

impl<'a> W<'a> {
    fn visible(&self) -> Vec<String> {
        let mut v: Vec<String> = self.scopes.iter().flatten().cloned().collect();
        if self.fn_depth > 0 {
            v.extend(self.globals.iter().cloned());
        }
        v
    }

    fn declare(&mut self, n: &str) {
        if self.fn_depth == 0 && self.scopes.len() == 1 {
            self.globals.push(n.to_string());
        }
        self.scopes.last_mut().unwrap().push(n.to_string());
    }

    fn name(&mut self) -> Expr {
        let v = self.visible();
        if v.is_empty() || self.r.chance(1, 40) {
            return ident("nergens");
        }
        ident(&v[self.r.below(v.len() as u64) as usize])
    }

    fn leaf(&mut self, hint: Hint) -> Expr {
        let hint = if self.r.chance(1, 5) { Hint::Any } else { hint };
        match hint {
            Hint::Int => match self.r.below(4) {
                0 => ident("a"),
                1 => self.name(),
                _ => Expr::Int(*self.r.pick(&[0, 1, 2, 3, 7, 10, 255, 256])),
            },
            Hint::Bool => match self.r.below(4) {
                0 => ident("w"),
                1 => Expr::Bool(false),
                _ => Expr::Bool(true),
            },
            Hint::Any => match self.r.below(9) {
                0 => Expr::Int(self.r.range(0, 9)),
                1 => Expr::Float(*self.r.pick(&[0.0, 1.5, 2.25])),
                2 => Expr::Bool(self.r.chance(1, 2)),
                3 => Expr::Str((*self.r.pick(&["", "xy", "é💖", "1"])).to_string()),
                4 => Expr::Array(vec![]),
                _ => self.name(),
            },
        }
    }

    fn block(&mut self, max: u64, depth: usize) -> Vec<Stmt> {
        self.scopes.push(vec![]);
        let n = self.r.below(max + 1);
        let mut out = vec![];
        for _ in 0..n {
            self.push_stmt(&mut out, depth + 1);
        }
        self.scopes.pop();
        out
    }

    fn function(&mut self, name: &str, depth: usize) -> Expr {
        let np = self.r.below(3) as usize;
        let params: Vec<String> = (0..np).map(|k| ["p", "q", "a"][k].to_string()).collect();
        let saved = std::mem::replace(&mut self.scopes, vec![params.clone()]);
        let (sl, sn) = (self.loop_depth, self.no_continue);
        self.loop_depth = 0;
        self.no_continue = 0;
        self.fn_depth += 1;
        let n = self.r.below(4);
        let mut body = vec![];
        for _ in 0..n {
            self.push_stmt(&mut body, depth + 1);
        }
        self.fn_depth -= 1;
        self.loop_depth = sl;
        self.no_continue = sn;
        self.scopes = saved;
        Expr::Function { name: name.to_string(), params, body }
    }

    /// `with_counter`: the caller can put the declaration of the loop counter in front of the loop
    fn while_expr(&mut self, depth: usize, with_counter: bool) -> (Option<Stmt>, Expr) {
        self.fresh += 1;
        let n = format!("n{}", self.fresh);
        let k = if with_counter { self.r.below(5) } else { *self.r.pick(&[0, 0, 4]) };
        match k {
            // never runs: the body may be anything, also nothing
            0 => {
                // a condition that is false whatever the operands are (a comparison of a pure expression with itself, a
                // false literal): an arbitrary integer expression against a constant can come out true, and an empty body
                // then never ends
                let cond = match self.r.below(4) {
                    0 | 1 => Expr::Bool(false),
                    2 => infix(Expr::Int(self.r.range(1, 9)), Op::Lt, Expr::Int(0)),
                    _ => {
                        let x = self.leaf(Hint::Int);
                        let x = if matches!(x, Expr::Int(_) | Expr::Ident(_)) { x } else { Expr::Int(3) };
                        infix(x.clone(), Op::Lt, x)
                    }
                };
                self.loop_depth += 1;
                let body = self.block(2, depth);
                self.loop_depth -= 1;
                (None, Expr::While { cond: Box::new(cond), body })
            }
            // any condition; the counter at the head of the body ends the loop
            1 | 2 => {
                let cond = self.expr(Hint::Bool, depth + 1);
                self.loop_depth += 1;
                self.scopes.push(vec![]);
                let mut body = vec![
                    Stmt::Expr(assign(ident(&n), infix(ident(&n), Op::Add, Expr::Int(1)))),
                    Stmt::Expr(Expr::If { cond: Box::new(infix(ident(&n), Op::Gt, Expr::Int(self.r.range(1, 3)))), cons: vec![Stmt::Break], alt: None }),
                ];
                for _ in 0..self.r.below(3) {
                    self.push_stmt(&mut body, depth + 1);
                }
                self.scopes.pop();
                self.loop_depth -= 1;
                (Some(Stmt::Let(n.clone(), Expr::Int(0))), Expr::While { cond: Box::new(cond), body })
            }
            // counted, the increment at the end (no volgende inside)
            3 => {
                let cond = infix(ident(&n), Op::Lt, Expr::Int(self.r.range(0, 3)));
                self.loop_depth += 1;
                self.no_continue += 1;
                self.scopes.push(vec![]);
                let mut body = vec![];
                for _ in 0..self.r.below(3) {
                    self.push_stmt(&mut body, depth + 1);
                }
                body.push(Stmt::Expr(assign(ident(&n), infix(ident(&n), Op::Add, Expr::Int(1)))));
                self.scopes.pop();
                self.no_continue -= 1;
                self.loop_depth -= 1;
                (Some(Stmt::Let(n.clone(), Expr::Int(0))), Expr::While { cond: Box::new(cond), body })
            }
            // `zolang ja { …; stop }`
            _ => {
                self.loop_depth += 1;
                self.no_continue += 1;
                self.scopes.push(vec![]);
                let mut body = vec![];
                for _ in 0..self.r.below(3) {
                    self.push_stmt(&mut body, depth + 1);
                }
                body.push(Stmt::Break);
                self.scopes.pop();
                self.no_continue -= 1;
                self.loop_depth -= 1;
                (None, Expr::While { cond: Box::new(Expr::Bool(true)), body })
            }
        }
    }

    fn if_expr(&mut self, depth: usize) -> Expr {
        let cond = self.expr(Hint::Bool, depth + 1);
        let cons = self.block(2, depth);
        let alt = match self.r.below(4) {
            0 => None,
            1 => Some(vec![Stmt::Expr(self.if_expr(depth + 1))]),
            _ => Some(self.block(2, depth)),
        };
        Expr::If { cond: Box::new(cond), cons, alt }
    }

    fn expr(&mut self, hint: Hint, depth: usize) -> Expr {
        self.nodes += 1;
        if depth > 4 || self.nodes > self.max_nodes {
            return self.leaf(hint);
        }
        let k = self.r.below(26);
        match k {
            0..=6 => self.leaf(hint),
            7..=10 => {
                let (op, h) = match hint {
                    Hint::Bool if !self.r.chance(1, 5) => (*self.r.pick(&[Op::Lt, Op::Lte, Op::Gt, Op::Gte, Op::Eq, Op::Neq, Op::And, Op::Or]), Hint::Int),
                    Hint::Int if !self.r.chance(1, 5) => (*self.r.pick(&[Op::Add, Op::Subtract, Op::Multiply, Op::Divide, Op::Modulo]), Hint::Int),
                    _ => (*self.r.pick(&[Op::Add, Op::Subtract, Op::Multiply, Op::Divide, Op::Modulo, Op::Lt, Op::Lte, Op::Gt, Op::Gte, Op::Eq, Op::Neq, Op::And, Op::Or]), Hint::Any),
                };
                let h = if matches!(op, Op::And | Op::Or) { Hint::Bool } else { h };
                let mut l = self.expr(h, depth + 1);
                if matches!(l, Expr::Function { .. }) {
                    l = self.leaf(h);
                }
                // the right operand of && / || stays pure (DESIGN 4.3(5))
                let r = if matches!(op, Op::And | Op::Or) { self.leaf(Hint::Bool) } else { self.expr(h, depth + 1) };
                infix(l, op, r)
            }
            11 => {
                let (op, h) = if hint == Hint::Bool { (Op::Not, Hint::Bool) } else { (Op::Subtract, Hint::Int) };
                prefix(op, self.expr(h, depth + 1))
            }
            12 | 13 => {
                let n = self.r.below(4);
                Expr::Array((0..n).map(|_| self.expr(Hint::Any, depth + 1)).collect())
            }
            14 | 15 => {
                let base = match self.r.below(4) {
                    0 => Expr::Array((0..self.r.range(1, 3)).map(|_| self.expr(hint, depth + 1)).collect()),
                    1 => Expr::Str("abc".to_string()),
                    2 => ident("b"),
                    _ => self.name(),
                };
                let i = if self.r.chance(2, 3) { int(self.r.range(-1, 1)) } else { self.expr(Hint::Int, depth + 1) };
                index(base, i)
            }
            16..=18 => {
                // calls: the prelude's functions, builtins, whatever name, an immediately invoked literal
                match self.r.below(6) {
                    0 => calln("id", vec![self.expr(hint, depth + 1)]),
                    1 => calln("twee", vec![self.expr(Hint::Any, depth + 1), self.expr(Hint::Any, depth + 1)]),
                    2 => {
                        let b = *self.r.pick(&["lengte", "type", "string", "int", "bool", "float"]);
                        calln(b, vec![self.expr(Hint::Any, depth + 1)])
                    }
                    3 => {
                        let f = self.function("", depth + 1);
                        let n = if let Expr::Function { params, .. } = &f { params.len() } else { 0 };
                        let args = (0..n).map(|_| self.expr(Hint::Any, depth + 1)).collect();
                        call(f, args)
                    }
                    4 => calln("print", vec![Expr::Str("{} {}".to_string()), self.expr(Hint::Any, depth + 1), self.leaf(Hint::Any)]),
                    _ => {
                        let n = self.name();
                        let args = (0..self.r.below(3)).map(|_| self.expr(Hint::Any, depth + 1)).collect();
                        call(n, args)
                    }
                }
            }
            19 | 20 => {
                let target = if self.r.chance(1, 3) { index(ident("b"), Expr::Int(self.r.range(0, 2))) } else { self.name() };
                if matches!(target, Expr::Ident(_) | Expr::Index { .. }) {
                    assign(target, self.expr(hint, depth + 1))
                } else {
                    self.leaf(hint)
                }
            }
            21 | 22 => self.if_expr(depth),
            23 => self.while_expr(depth, false).1,
            _ => {
                // a function literal in the middle of an expression, now and then with a name (which the current scope
                // then declares, exactly as a function statement would: it is gone when the block ends)
                if self.r.chance(1, 3) {
                    let n = if self.r.chance(1, 2) { (*self.r.pick(&NAMES)).to_string() } else { format!("h{}", self.fresh) };
                    self.fresh += 1;
                    let f = self.function(&n, depth + 1);
                    self.declare(&n);
                    f
                } else {
                    self.function("", depth + 1)
                }
            }
        }
    }

    fn push_stmt(&mut self, out: &mut Vec<Stmt>, depth: usize) {
        let s = self.stmt(depth);
        out.push(s);
        if let Some(p) = self.pending.take() {
            out.push(p);
        }
    }

    fn stmt(&mut self, depth: usize) -> Stmt {
        self.nodes += 1;
        if depth > 5 || self.nodes > self.max_nodes {
            return Stmt::Expr(self.leaf(Hint::Any));
        }
        match self.r.below(24) {
            0..=3 => {
                let n = (*self.r.pick(&NAMES)).to_string();
                let e = self.expr(Hint::Any, depth + 1);
                // the initialiser must not read the name it declares (DESIGN 4.3(3)): declare afterwards, and a
                // reference to an outer variable of the same name inside the initialiser is left to the reference
                self.declare(&n);
                Stmt::Let(n, e)
            }
            4..=8 => Stmt::Expr(self.expr(Hint::Any, depth + 1)),
            9 | 10 => Stmt::Block(self.block(3, depth)),
            11 | 12 => Stmt::Expr(self.if_expr(depth)),
            13 | 14 => {
                let (pre, w) = self.while_expr(depth, true);
                match pre {
                    Some(p) => {
                        // (the counter is not entered into the visible names: no generated statement may assign it)
                        // counter and loop side by side in the current statement list: wrap only sometimes
                        if self.r.chance(1, 3) {
                            Stmt::Block(vec![p, Stmt::Expr(w)])
                        } else {
                            // the declaration goes first as its own statement: emitted through a block-less pair
                            self.pending = Some(Stmt::Expr(w));
                            p
                        }
                    }
                    None => Stmt::Expr(w),
                }
            }
            15 | 16 if self.fn_depth > 0 => Stmt::Return(self.expr(Hint::Any, depth + 1)),
            17 | 18 if self.loop_depth > 0 => {
                if self.no_continue == 0 && self.r.chance(1, 2) {
                    Stmt::Continue
                } else {
                    Stmt::Break
                }
            }
            19 => {
                self.fresh += 1;
                // now and then a function that takes the name of a variable (statements before it in the same block
                // still mean the variable)
                let n = if self.r.chance(1, 3) { (*self.r.pick(&NAMES)).to_string() } else { format!("f{}", self.fresh) };
                let f = self.function(&n, depth + 1);
                self.declare(&n);
                Stmt::Expr(f)
            }
            20 if self.r.chance(1, 6) => {
                // misplaced early exits: rejected at compile time or unspecified, the reference knows
                match self.r.below(3) {
                    0 => Stmt::Break,
                    1 => Stmt::Continue,
                    _ => Stmt::Return(Expr::Int(1)),
                }
            }
            _ => Stmt::Expr(self.expr(Hint::Any, depth + 1)),
        }
    }
}

/// One program: a fixed prelude (so that names of every type exist) followed by 1-6 wild statements.
pub fn wild_program(r: &mut Rng) -> Vec<Stmt> {
    let max_nodes = *r.pick(&[12usize, 25, 25, 40, 60]);
    let mut w = W { r, scopes: vec![vec![]], globals: vec![], fn_depth: 0, loop_depth: 0, no_continue: 0, fresh: 0, nodes: 0, max_nodes, pending: None };
    let mut p = vec![
        Stmt::Let("a".into(), Expr::Int(1)),
        Stmt::Let("b".into(), Expr::Array(vec![Expr::Int(1), Expr::Int(2), Expr::Int(3)])),
        Stmt::Let("s".into(), Expr::Str("xyz".into())),
        Stmt::Let("v".into(), Expr::Float(2.5)),
        Stmt::Let("w".into(), Expr::Bool(true)),
        Stmt::Expr(Expr::Function { name: "id".into(), params: vec!["x".into()], body: vec![Stmt::Expr(ident("x"))] }),
        Stmt::Expr(Expr::Function { name: "twee".into(), params: vec!["p".into(), "q".into()], body: vec![Stmt::Expr(Expr::Array(vec![ident("p"), ident("q")]))] }),
    ];
    for n in ["a", "b", "s", "v", "w", "id", "twee"] {
        w.declare(n);
    }
    let n = w.r.range(1, 6);
    for _ in 0..n {
        w.push_stmt(&mut p, 0);
    }
    p
}
