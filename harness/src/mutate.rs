//! Hostile inputs: token soups, token-level edits of well-formed programs, truncations, Unicode noise.

use crate::print::{need_sep, pieces_of, Piece};
use crate::rng::Rng;
use crate::ast::Stmt;

pub const VOCAB: [&str; 62] = [
    "als", "anders", "antwoord", "functie", "zolang", "stel", "ja", "nee", "volgende", "stop", // keywords
    "a", "b", "f", "x", "één", "_", "alsof", "print", "lengte", "int", "string", "type", "bool", "float", // identifiers / builtins
    "0", "1", "2", "42", "1152921504606846975", "1.5", "0.0", "\"\"", "\"a\"", "\"{}\"", "\"é💖\"", // literals
    "<=", ">=", "==", "!=", "&&", "||", // two-character operators
    "=", ";", ",", ".", "(", ")", "{", "}", "[", "]", "!", "<", ">", "-", "+", "*", "/", "^", "%", // one-character tokens
    "&", "|", // illegal on their own
];

pub fn tokens_of(prog: &[Stmt]) -> Vec<String> {
    let mut out = vec![];
    for p in pieces_of(prog) {
        match p {
            Piece::T(s) => out.push(s),
            Piece::Semi(_) => out.push(";".to_string()),
            Piece::Comma(m) => {
                if m {
                    out.push(",".to_string())
                } else {
                    out.push(",".to_string())
                }
            }
        }
    }
    // drop the comma the printer puts before a closing bracket
    let mut cleaned: Vec<String> = vec![];
    for (i, t) in out.iter().enumerate() {
        if t == "," && matches!(out.get(i + 1).map(|s| s.as_str()), Some(")") | Some("]")) {
            continue;
        }
        cleaned.push(t.clone());
    }
    cleaned
}

pub fn join(tokens: &[String]) -> String {
    let mut s = String::new();
    for (i, t) in tokens.iter().enumerate() {
        if i > 0 && (need_sep(&tokens[i - 1], t) || true) {
            s.push(' ');
        }
        s.push_str(t);
    }
    s
}

pub fn soup(r: &mut Rng) -> String {
    let n = r.range(1, 40);
    let toks: Vec<String> = (0..n).map(|_| r.pick(&VOCAB).to_string()).collect();
    join(&toks)
}

/// a soup that is biased towards being almost well-formed: brackets mostly balanced
pub fn structured_soup(r: &mut Rng) -> String {
    let mut toks: Vec<String> = vec![];
    let mut open: Vec<&str> = vec![];
    let n = r.range(3, 40);
    for _ in 0..n {
        let t = *r.pick(&VOCAB);
        match t {
            "(" => open.push(")"),
            "[" => open.push("]"),
            "{" => open.push("}"),
            ")" | "]" | "}" => {
                if let Some(c) = open.pop() {
                    toks.push(c.to_string());
                }
                continue;
            }
            _ => {}
        }
        toks.push(t.to_string());
    }
    while let Some(c) = open.pop() {
        if r.chance(9, 10) {
            toks.push(c.to_string());
        }
    }
    join(&toks)
}

#[derive(Clone, Copy, Debug)]
pub enum Edit {
    Delete,
    Duplicate,
    Swap,
    Replace,
    Insert,
}

pub fn edit_tokens(tokens: &[String], r: &mut Rng) -> (Vec<String>, Edit) {
    let mut t = tokens.to_vec();
    if t.is_empty() {
        return (vec![r.pick(&VOCAB).to_string()], Edit::Insert);
    }
    let i = r.below(t.len() as u64) as usize;
    let e = *r.pick(&[Edit::Delete, Edit::Duplicate, Edit::Swap, Edit::Replace, Edit::Insert]);
    match e {
        Edit::Delete => {
            t.remove(i);
        }
        Edit::Duplicate => {
            let x = t[i].clone();
            t.insert(i, x);
        }
        Edit::Swap => {
            let j = r.below(t.len() as u64) as usize;
            t.swap(i, j);
        }
        Edit::Replace => {
            t[i] = r.pick(&VOCAB).to_string();
        }
        Edit::Insert => {
            t.insert(i, r.pick(&VOCAB).to_string());
        }
    }
    (t, e)
}

/// every prefix that ends on a char boundary
pub fn truncations(text: &str) -> Vec<String> {
    let mut out = vec![];
    for (i, _) in text.char_indices() {
        out.push(text[..i].to_string());
    }
    out
}

pub fn noise(r: &mut Rng) -> String {
    let n = r.range(1, 30);
    let mut s = String::new();
    for _ in 0..n {
        let c = match r.below(10) {
            0 => *r.pick(&crate::print::WHITESPACE),
            1 => '\u{feff}',
            2 => '\0',
            3 => char::from_u32(r.range(0x300, 0x36f) as u32).unwrap(), // combining marks
            4 => char::from_u32(r.range(0x20, 0x7e) as u32).unwrap(),
            5 => *r.pick(&['"', '\\', '/', '&', '|', '#', '@', '$', '`', '~', '?', ':', '\'']),
            6 => char::from_u32(r.range(0x660, 0x669) as u32).unwrap(), // arabic-indic digits
            7 => {
                let w: &str = *r.pick(&VOCAB);
                s.push_str(w);
                ' '
            }
            _ => loop {
                if let Some(c) = char::from_u32(r.below(0x110000) as u32) {
                    break c;
                }
            },
        };
        s.push(c);
    }
    s
}

/// insert a piece of noise at a random char boundary
pub fn inject_noise(text: &str, r: &mut Rng) -> String {
    let bounds: Vec<usize> = text.char_indices().map(|(i, _)| i).chain(std::iter::once(text.len())).collect();
    let at = bounds[r.below(bounds.len() as u64) as usize];
    let mut s = text[..at].to_string();
    s.push_str(&noise(r));
    s.push_str(&text[at..]);
    s
}
