//! Small deterministic PRNG (splitmix64 seeding xoshiro256**). No external crates.

#[derive(Clone)]
pub struct Rng {
    s: [u64; 4],
}

pub fn splitmix(x: &mut u64) -> u64 {
    *x = x.wrapping_add(0x9E37_79B9_7F4A_7C15);
    let mut z = *x;
    z = (z ^ (z >> 30)).wrapping_mul(0xBF58_476D_1CE4_E5B9);
    z = (z ^ (z >> 27)).wrapping_mul(0x94D0_49BB_1331_11EB);
    z ^ (z >> 31)
}

/// 64-bit FNV-1a, used for distinct-case hashes
pub fn hash_bytes(b: &[u8]) -> u64 {
    let mut h: u64 = 0xcbf2_9ce4_8422_2325;
    for x in b {
        h ^= *x as u64;
        h = h.wrapping_mul(0x0000_0100_0000_01B3);
    }
    h
}

pub fn hash_str(s: &str) -> u64 {
    hash_bytes(s.as_bytes())
}

impl Rng {
    pub fn new(seed: u64) -> Rng {
        let mut x = seed;
        let s = [
            splitmix(&mut x),
            splitmix(&mut x),
            splitmix(&mut x),
            splitmix(&mut x),
        ];
        Rng { s }
    }

    /// Independent stream for (seed, family, index)
    pub fn for_case(seed: u64, family: u64, idx: u64) -> Rng {
        let mut x = seed ^ family.wrapping_mul(0xA24B_AED4_963E_E407);
        let a = splitmix(&mut x);
        let mut y = a ^ idx.wrapping_mul(0x9FB2_1C65_1E98_DF25);
        let b = splitmix(&mut y);
        Rng::new(b)
    }

    pub fn next(&mut self) -> u64 {
        let r = self.s[1].wrapping_mul(5).rotate_left(7).wrapping_mul(9);
        let t = self.s[1] << 17;
        self.s[2] ^= self.s[0];
        self.s[3] ^= self.s[1];
        self.s[1] ^= self.s[2];
        self.s[0] ^= self.s[3];
        self.s[2] ^= t;
        self.s[3] = self.s[3].rotate_left(45);
        r
    }

    /// uniform in 0..n (n > 0)
    pub fn below(&mut self, n: u64) -> u64 {
        if n <= 1 {
            return 0;
        }
        // multiply-shift; bias negligible for our n
        ((self.next() as u128 * n as u128) >> 64) as u64
    }

    pub fn range(&mut self, lo: i64, hi: i64) -> i64 {
        // inclusive
        lo + self.below((hi - lo + 1) as u64) as i64
    }

    pub fn chance(&mut self, num: u64, den: u64) -> bool {
        self.below(den) < num
    }

    pub fn pick<'a, T>(&mut self, xs: &'a [T]) -> &'a T {
        &xs[self.below(xs.len() as u64) as usize]
    }

    /// weighted choice: returns index
    pub fn weighted(&mut self, w: &[u32]) -> usize {
        let total: u64 = w.iter().map(|x| *x as u64).sum();
        let mut r = self.below(total.max(1));
        for (i, x) in w.iter().enumerate() {
            if r < *x as u64 {
                return i;
            }
            r -= *x as u64;
        }
        w.len() - 1
    }

    pub fn shuffle<T>(&mut self, xs: &mut [T]) {
        for i in (1..xs.len()).rev() {
            let j = self.below(i as u64 + 1) as usize;
            xs.swap(i, j);
        }
    }
}
