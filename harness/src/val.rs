//! Plain value trees used to compare what the implementation returned with what the reference says.

use std::fmt::Write;

#[derive(Clone, Debug)]
pub enum Val {
    Null,
    Bool(bool),
    Int(i64),
    Float(f64),
    Str(String),
    Array(Vec<Val>),
    Func,
    /// back reference to the enclosing array `n` levels up (cyclic arrays)
    Cycle(usize),
    /// nesting deeper than the walker goes
    TooDeep,
}

#[derive(Clone, Copy, Debug, PartialEq, Eq, PartialOrd, Ord, Hash)]
pub enum ErrKind {
    Syntax,
    Reference,
    Type,
    Index,
    Argument,
}

impl ErrKind {
    pub fn name(self) -> &'static str {
        match self {
            ErrKind::Syntax => "Syntax",
            ErrKind::Reference => "Reference",
            ErrKind::Type => "Type",
            ErrKind::Index => "Index",
            ErrKind::Argument => "Argument",
        }
    }
    pub const ALL: [ErrKind; 5] = [
        ErrKind::Syntax,
        ErrKind::Reference,
        ErrKind::Type,
        ErrKind::Index,
        ErrKind::Argument,
    ];
}

/// set of error kinds as a bit mask
#[derive(Clone, Copy, Debug, PartialEq, Eq)]
pub struct Kinds(pub u8);

impl Kinds {
    pub const ANY: Kinds = Kinds(0b11111);
    pub fn one(k: ErrKind) -> Kinds {
        Kinds(1 << (k as u8))
    }
    pub fn of(ks: &[ErrKind]) -> Kinds {
        let mut m = 0;
        for k in ks {
            m |= 1 << (*k as u8);
        }
        Kinds(m)
    }
    pub fn has(self, k: ErrKind) -> bool {
        self.0 & (1 << (k as u8)) != 0
    }
    pub fn union(self, o: Kinds) -> Kinds {
        Kinds(self.0 | o.0)
    }
    pub fn render(self) -> String {
        let mut v = vec![];
        for k in ErrKind::ALL {
            if self.has(k) {
                v.push(k.name());
            }
        }
        format!("{{{}}}", v.join("|"))
    }
}

pub fn same_val(a: &Val, b: &Val) -> bool {
    match (a, b) {
        (Val::Null, Val::Null) => true,
        (Val::Bool(x), Val::Bool(y)) => x == y,
        (Val::Int(x), Val::Int(y)) => x == y,
        (Val::Float(x), Val::Float(y)) => (x.is_nan() && y.is_nan()) || x.to_bits() == y.to_bits(),
        (Val::Str(x), Val::Str(y)) => x == y,
        (Val::Func, Val::Func) => true,
        (Val::Cycle(x), Val::Cycle(y)) => x == y,
        (Val::TooDeep, Val::TooDeep) => true,
        (Val::Array(x), Val::Array(y)) => {
            x.len() == y.len() && x.iter().zip(y.iter()).all(|(p, q)| same_val(p, q))
        }
        _ => false,
    }
}

pub fn render_val(v: &Val) -> String {
    let mut s = String::new();
    render_into(v, &mut s);
    s
}

fn render_into(v: &Val, s: &mut String) {
    match v {
        Val::Null => s.push_str("null"),
        Val::Bool(b) => s.push_str(if *b { "ja" } else { "nee" }),
        Val::Int(i) => {
            let _ = write!(s, "{}", i);
        }
        Val::Float(f) => {
            let _ = write!(s, "{:?}f", f);
        }
        Val::Str(x) => {
            let _ = write!(s, "{:?}", x);
        }
        Val::Func => s.push_str("<functie>"),
        Val::Cycle(n) => {
            let _ = write!(s, "<cycle^{}>", n);
        }
        Val::TooDeep => s.push_str("<too deep>"),
        Val::Array(xs) => {
            s.push('[');
            for (i, x) in xs.iter().enumerate() {
                if i > 0 {
                    s.push_str(", ");
                }
                render_into(x, s);
            }
            s.push(']');
        }
    }
}
