mod ast;
mod bcv;
mod diff;
mod enumerate;
mod gen;
mod heapmon;
mod mutate;
mod obs;
mod print;
mod refsem;
mod props;
mod rng;
mod scale;
mod sup;
mod val;
mod wild;
mod xform;

use sup::{Check, Ctx, Tier};

fn usage() -> ! {
    eprintln!("usage: nlv run <Cnn> <quick|thorough> | nlv worker <Cnn> <tier> <seed> [--trace] | nlv replay <file>");
    std::process::exit(64);
}

fn seed_from_env() -> u64 {
    std::env::var("VERIF_SEED")
        .ok()
        .and_then(|s| s.trim().parse::<i64>().ok())
        .map(|x| x as u64)
        .unwrap_or(1)
}

fn main() {
    let args: Vec<String> = std::env::args().collect();
    if args.len() < 2 {
        usage();
    }
    match args[1].as_str() {
        "run" => {
            if args.len() < 4 {
                usage();
            }
            let prop = args[2].clone();
            let tier = Tier::parse(&args[3]).unwrap_or_else(|| usage());
            let ctx = Ctx {
                seed: seed_from_env(),
                tier,
                flavour: sup::Flavour::from_env(),
            };
            if props::make(&prop).is_none() {
                eprintln!("unknown property {}", prop);
                std::process::exit(64);
            }
            let jobs = std::env::var("VERIF_JOBS")
                .ok()
                .and_then(|s| s.parse().ok())
                .unwrap_or(16usize);
            let factory = move || props::make(&prop).unwrap();
            let r = sup::run_sharded(&factory, &ctx, jobs, None);
            let mut check = factory();
            let mut stats = r.stats;
            let t1 = std::time::Instant::now();
            check.post(&ctx, &mut stats);
            let wall = r.wall_s + t1.elapsed().as_secs_f64();
            let code = sup::conclude(check.as_ref(), &ctx, stats, wall);
            std::process::exit(code);
        }
        "worker" => {
            if args.len() < 5 {
                usage();
            }
            let mut check = props::make(&args[2]).unwrap_or_else(|| usage());
            let tier = Tier::parse(&args[3]).unwrap_or_else(|| usage());
            let seed: u64 = args[4].parse().unwrap_or(1);
            let trace = args.iter().any(|a| a == "--trace");
            let ctx = Ctx { seed, tier, flavour: sup::Flavour::from_env() };
            sup::worker_main(check.as_mut(), &ctx, trace);
        }
        "replay" => {
            if args.len() < 3 {
                usage();
            }
            let s = std::fs::read_to_string(&args[2]).unwrap_or_else(|e| {
                eprintln!("cannot read {}: {}", args[2], e);
                std::process::exit(64);
            });
            let v: serde_json::Value = serde_json::from_str(&s).unwrap_or_else(|e| {
                eprintln!("bad replay file: {}", e);
                std::process::exit(64);
            });
            let prop = v["property"].as_str().unwrap_or("").to_string();
            let tier = Tier::parse(v["tier"].as_str().unwrap_or("quick")).unwrap_or(Tier::Quick);
            let seed = v["seed"].as_u64().unwrap_or(1);
            let idx = v["idx"].as_u64().unwrap_or(0);
            let ctx = Ctx { seed, tier, flavour: sup::Flavour::from_env() };
            if props::make(&prop).is_none() {
                eprintln!("unknown property {}", prop);
                std::process::exit(64);
            }
            // one-case run through the same supervisor path (crash isolation included)
            let p2 = prop.clone();
            let factory = move || -> Box<dyn Check> { props::make(&p2).unwrap() };
            let r = sup::run_sharded(&factory, &ctx, 1, Some((idx, idx + 1)));
            let mut n = 0;
            for viol in &r.stats.violations {
                println!("VIOLATION property={} replay={}", prop, args[2]);
                eprintln!("  {} :: {}\n  input: {}", viol.sig, obs::clip(&viol.detail, 800), obs::clip(&viol.input, 800));
                n += 1;
            }
            if n == 0 {
                println!("replay of {} case {}: no violation", prop, idx);
            }
            std::process::exit(if n > 0 { 1 } else { 0 });
        }
        "debug-session" => {
            // lines of a session from a file; `// cut after N instructions` sets a budget
            obs::install_panic_hook();
            let text = std::fs::read_to_string(&args[2]).unwrap();
            let lines: Vec<props::c17::Line> = text
                .lines()
                .filter(|l| !l.trim().is_empty())
                .map(|l| {
                    if let Some(p) = l.find("// cut after ") {
                        let n: u64 = l[p + 13..].split_whitespace().next().unwrap().parse().unwrap();
                        props::c17::Line { text: l[..p].trim_end().to_string(), budget: Some(n) }
                    } else {
                        props::c17::Line { text: l.to_string(), budget: None }
                    }
                })
                .collect();
            let (o, ev) = props::c17::run_session_real(&lines, nederlang::verif::ShadowMode::Quarantine, true);
            for (i, l) in o.iter().enumerate() {
                println!("{:2} [{}] {} out={:?} stack={} frames={} count={}   <- {}", i + 1, l.stage, l.outcome.render(), l.output, l.stack_len, l.frames, l.count, lines[i].text);
            }
            println!("events: {:?}", ev);
        }
        "inproc" => {
            // nlv inproc <prop> <tier> <seed> <from> <to> [<stride> <offset>]: run cases in this very process (no
            // workers): used under Miri. With a stride, only the cases from + offset + k * stride are run, so that
            // expensive families are spread over the shards
            if args.len() < 7 {
                usage();
            }
            obs::install_panic_hook();
            let mut check = props::make(&args[2]).unwrap_or_else(|| usage());
            let tier = Tier::parse(&args[3]).unwrap_or_else(|| usage());
            let seed: u64 = args[4].parse().unwrap_or(1);
            let from: u64 = args[5].parse().unwrap_or(0);
            let to: u64 = args[6].parse().unwrap_or(0);
            let ctx = Ctx { seed, tier, flavour: sup::Flavour::from_env() };
            let stride: u64 = args.get(7).and_then(|s| s.parse().ok()).unwrap_or(1).max(1);
            let offset: u64 = args.get(8).and_then(|s| s.parse().ok()).unwrap_or(0);
            let total = check.total_cases(&ctx);
            let mut st = sup::Stats::default();
            let mut idx = from + offset;
            while idx < to.min(total) {
                st.cur_idx = idx;
                check.run_case(&ctx, idx, &mut st);
                idx += stride;
            }
            println!("inproc {} cases {}..{} evaluations={} violations={}", args[2], from, to.min(total), st.evaluations, st.violations.len());
            for v in &st.violations {
                println!("INPROC-VIOLATION {} :: {} :: {}", v.sig, obs::clip(&v.detail, 300), obs::clip(&v.input, 300));
            }
            for s in &st.inconclusive {
                println!("INPROC-INCONCLUSIVE {}", s);
            }
            sup::print_substats(&st, &args[2]);
        }
        "eval-one" => {
            // program on stdin, canonical rendering of the outcome on stdout (C16: fresh process / other build)
            obs::install_panic_hook();
            let mut text = String::new();
            use std::io::Read;
            std::io::stdin().read_to_string(&mut text).unwrap();
            println!("{}", props::c16::rendering(&text));
        }
        "debug-parse" => {
            // nlv debug-parse <file>: the tree the real parser returns (mirror rendering), one statement per line
            let text = std::fs::read_to_string(&args[2]).unwrap();
            match ast::parse_real(&text) {
                Ok(t) => {
                    for s in &t {
                        println!("{:?}", s);
                    }
                    println!("--- printed again: {}", print::to_text(&t));
                }
                Err((k, m)) => println!("error {}: {}", k.name(), m),
            }
        }
        "debug-eval" => {
            // nlv debug-eval <file> [t|f ...]: evaluate under probes with an optional branch schedule, print the trace
            obs::install_panic_hook();
            let text = std::fs::read_to_string(&args[2]).unwrap();
            let sched: Vec<bool> = args[3..].iter().map(|a| a == "t").collect();
            let cfg = obs::ObsCfg { budget: Some(2000), probes: true, shadow: nederlang::verif::ShadowMode::Quarantine, trace: true, branch_schedule: if sched.is_empty() { None } else { Some(sched) } };
            let o = obs::eval_observed(&text, &cfg);
            let (tr, _) = nederlang::verif::take_trace();
            println!("{} output={:?} events={:?} count={}", o.outcome.render(), o.output, o.events, o.count);
            let names: std::collections::HashMap<u8, String> = nederlang::verif::opcode_table().into_iter().map(|(b, n, _)| (b, n)).collect();
            for t in tr.iter().take(200) {
                println!("  ip={:4} {:18} stack={} bp={} frames={}", t.ip, names.get(&t.op).cloned().unwrap_or_default(), t.stack_len, t.bp, t.frames);
            }
        }
        "run-sub" => {
            // the sharded part only, statistics on stdout (used for the dbg / asan passes)
            if args.len() < 5 {
                usage();
            }
            let prop = args[2].clone();
            let tier = Tier::parse(&args[3]).unwrap_or_else(|| usage());
            let seed: u64 = args[4].parse().unwrap_or(1);
            let ctx = Ctx { seed, tier, flavour: sup::Flavour::from_env() };
            if props::make(&prop).is_none() {
                usage();
            }
            let p2 = prop.clone();
            let factory = move || -> Box<dyn Check> { props::make(&p2).unwrap() };
            let r = sup::run_sharded(&factory, &ctx, 16, None);
            sup::print_substats(&r.stats, &prop);
        }
        _ => usage(),
    }
}
