//! Differential check of one program text: the real interpreter (under the monitors) against the
//! reference semantics evaluated on the tree the real parser returned.

use crate::ast::{self, Stmt};
use crate::obs::{eval_observed, event_class, render_event, Obs, ObsCfg, Outcome};
use crate::refsem::{run_program, RefOutcome, RefResult};
use crate::sup::Stats;
use crate::val::{render_val, same_val};
use nederlang::verif;

pub enum Verdict {
    /// outcomes agree; `nontrivial`: specified outcome and ≥ 20 instructions dispatched
    Agree { nontrivial: bool },
    /// the reference has no opinion (§4.3)
    Skip(String),
    /// reference out of steps etc.
    Inconclusive(String),
    Mismatch { sig: String, detail: String },
}

pub struct DiffOut {
    pub verdict: Verdict,
    pub obs: Option<Obs>,
    pub reference: Option<RefResult>,
    pub tree: Option<Vec<Stmt>>,
}

thread_local! {
    static OPNAMES: Vec<String> = {
        let mut v = vec![String::new(); 256];
        for (b, name, _) in verif::opcode_table() {
            v[b as usize] = name;
        }
        v
    };
}

pub fn record_opcodes(st: &mut Stats) {
    let counts = verif::per_opcode_counts();
    OPNAMES.with(|names| {
        for (i, c) in counts.iter().enumerate() {
            if *c > 0 {
                let n = if names[i].is_empty() { format!("op:#{}", i) } else { format!("op:{}", names[i]) };
                st.add(&n, *c);
            }
        }
    });
}

pub fn opcode_names() -> Vec<String> {
    OPNAMES.with(|n| n.iter().filter(|s| !s.is_empty()).cloned().collect())
}

pub fn missing_opcodes(st: &Stats) -> Vec<String> {
    opcode_names()
        .into_iter()
        .filter(|n| st.counters.get(&format!("op:{}", n)).copied().unwrap_or(0) == 0)
        .collect()
}

/// Compare an observation with a reference result. None = agree.
pub fn compare(obs: &Obs, r: &RefResult) -> Option<(String, String)> {
    let mismatch = |class: &str, want: String| -> Option<(String, String)> {
        Some((
            class.to_string(),
            format!(
                "expected {} with output {:?}; got {} with output {:?}{}",
                want,
                clip_lines(&r.output),
                obs.outcome.render(),
                clip_lines(&obs.output),
                if obs.events.is_empty() { String::new() } else { format!("; monitor events: {:?}", obs.events.iter().map(render_event).collect::<Vec<_>>()) }
            ),
        ))
    };
    match (&obs.outcome, &r.outcome) {
        (Outcome::Panic(..), RefOutcome::Value(v)) => mismatch("panic", format!("Value({})", render_val(v))),
        (Outcome::Panic(..), RefOutcome::Error(k)) => mismatch("panic", format!("Err{}", k.render())),
        (Outcome::Stop, RefOutcome::Value(_)) | (Outcome::Stop, RefOutcome::Error(_)) => {
            let c = obs.events.first().map(event_class).unwrap_or_else(|| "?".to_string());
            mismatch(&format!("monitor-stop:{}", c), "a normal outcome".to_string())
        }
        (Outcome::Budget, RefOutcome::Value(_)) | (Outcome::Budget, RefOutcome::Error(_)) => {
            mismatch("nontermination", format!("termination (reference needed {} steps, implementation exceeded {} instructions)", r.steps, obs.count))
        }
        (Outcome::Value(v), RefOutcome::Value(w)) => {
            if obs.output != r.output {
                mismatch("output", format!("Value({})", render_val(w)))
            } else if r.value_specified && !same_val(v, w) {
                mismatch("value", format!("Value({})", render_val(w)))
            } else {
                None
            }
        }
        (Outcome::Error(k, _), RefOutcome::Error(ks)) => {
            if obs.output != r.output {
                mismatch("output-before-error", format!("Err{}", ks.render()))
            } else if !ks.has(*k) {
                mismatch("error-kind", format!("Err{}", ks.render()))
            } else {
                None
            }
        }
        (Outcome::Value(_), RefOutcome::Error(ks)) => mismatch("value-instead-of-error", format!("Err{}", ks.render())),
        (Outcome::Error(..), RefOutcome::Value(w)) => mismatch("error-instead-of-value", format!("Value({})", render_val(w))),
        (_, RefOutcome::Unspecified(_)) | (_, RefOutcome::OutOfSteps) => None,
    }
}

fn clip_lines(v: &[String]) -> Vec<String> {
    v.iter().take(6).map(|s| crate::obs::clip(s, 60)).collect()
}

/// Full differential check of one program text.
pub fn differential(text: &str, cfg: &ObsCfg, ref_steps: u64, st: &mut Stats) -> DiffOut {
    st.evaluations += 1;
    let tree = match ast::parse_real(text) {
        Ok(t) => t,
        Err((k, m)) => {
            return DiffOut {
                verdict: Verdict::Mismatch {
                    sig: format!("parser-rejects:{}", k.name()),
                    detail: format!("the parser rejected a program printed from a well-formed tree: {}", m),
                },
                obs: None,
                reference: None,
                tree: None,
            };
        }
    };
    let r = run_program(&tree, ref_steps);
    match &r.outcome {
        RefOutcome::Unspecified(why) => {
            // the implementation must still not crash (counted for C05 by its own check); here: skip
            let key: String = why.split(':').next().unwrap_or("?").to_string();
            st.count(&format!("skipped-unspecified:{}", key));
            return DiffOut {
                verdict: Verdict::Skip(why.clone()),
                obs: None,
                reference: Some(r),
                tree: Some(tree),
            };
        }
        RefOutcome::OutOfSteps => {
            st.count("case-inconclusive:reference-out-of-steps");
            return DiffOut {
                verdict: Verdict::Inconclusive("reference out of steps".to_string()),
                obs: None,
                reference: Some(r),
                tree: Some(tree),
            };
        }
        RefOutcome::Error(k) => st.count(&format!("ref-error:{}", k.render())),
        RefOutcome::Value(_) => st.count("ref-value"),
    }
    let mut c = cfg.clone();
    c.budget = Some(64 * r.steps + 10_000);
    let obs = eval_observed(text, &c);
    record_opcodes(st);
    st.add("instructions", obs.count);
    st.count(&format!("impl:{}", obs.outcome.class()));
    let verdict = match compare(&obs, &r) {
        None => Verdict::Agree {
            nontrivial: obs.count >= 20,
        },
        Some((class, detail)) => Verdict::Mismatch { sig: class, detail },
    };
    DiffOut {
        verdict,
        obs: Some(obs),
        reference: Some(r),
        tree: Some(tree),
    }
}
