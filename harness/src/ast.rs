//! Mirror of nederlang's syntax tree (same shape), the conversion from the real tree, and a
//! Debug-like rendering used to compare trees.

use nederlang::verif::ast as real;

#[derive(Clone, Copy, Debug, PartialEq, Eq, Hash)]
pub enum Op {
    Add,
    Subtract,
    Multiply,
    Divide,
    Gt,
    Gte,
    Lt,
    Lte,
    Eq,
    Neq,
    Not,
    Negate,
    And,
    Or,
    Modulo,
    Assign,
    /// an operator the mirror does not know (added to nederlang later)
    Unknown,
}

pub const BINARY_OPS: [Op; 13] = [
    Op::Add,
    Op::Subtract,
    Op::Multiply,
    Op::Divide,
    Op::Modulo,
    Op::Lt,
    Op::Lte,
    Op::Gt,
    Op::Gte,
    Op::Eq,
    Op::Neq,
    Op::And,
    Op::Or,
];

impl Op {
    pub fn text(self) -> &'static str {
        match self {
            Op::Add => "+",
            Op::Subtract | Op::Negate => "-",
            Op::Multiply => "*",
            Op::Divide => "/",
            Op::Modulo => "%",
            Op::Gt => ">",
            Op::Gte => ">=",
            Op::Lt => "<",
            Op::Lte => "<=",
            Op::Eq => "==",
            Op::Neq => "!=",
            Op::Not => "!",
            Op::And => "&&",
            Op::Or => "||",
            Op::Assign => "=",
            Op::Unknown => "?",
        }
    }
    /// documented binding levels: * / % > + - > < <= > >= > == != > && || > =
    pub fn level(self) -> u8 {
        match self {
            Op::Multiply | Op::Divide | Op::Modulo => 6,
            Op::Add | Op::Subtract => 5,
            Op::Lt | Op::Lte | Op::Gt | Op::Gte => 4,
            Op::Eq | Op::Neq => 3,
            Op::And | Op::Or => 2,
            Op::Assign => 1,
            _ => 0,
        }
    }
    pub fn is_arith(self) -> bool {
        matches!(self, Op::Add | Op::Subtract | Op::Multiply | Op::Divide | Op::Modulo)
    }
    pub fn is_order(self) -> bool {
        matches!(self, Op::Lt | Op::Lte | Op::Gt | Op::Gte)
    }
    pub fn is_equality(self) -> bool {
        matches!(self, Op::Eq | Op::Neq)
    }
}

#[derive(Clone, Debug, PartialEq)]
pub enum Expr {
    Infix { left: Box<Expr>, op: Op, right: Box<Expr> },
    Prefix { op: Op, right: Box<Expr> },
    Int(i64),
    Float(f64),
    Bool(bool),
    If { cond: Box<Expr>, cons: Vec<Stmt>, alt: Option<Vec<Stmt>> },
    Ident(String),
    Function { name: String, params: Vec<String>, body: Vec<Stmt> },
    Call { left: Box<Expr>, args: Vec<Expr> },
    Assign { left: Box<Expr>, right: Box<Expr> },
    Str(String),
    Array(Vec<Expr>),
    Index { left: Box<Expr>, index: Box<Expr> },
    While { cond: Box<Expr>, body: Vec<Stmt> },
    /// a node kind the mirror does not know
    Unknown(String),
}

#[derive(Clone, Debug, PartialEq)]
pub enum Stmt {
    Let(String, Expr),
    Return(Expr),
    Expr(Expr),
    Block(Vec<Stmt>),
    Break,
    Continue,
}

pub fn ident(s: &str) -> Expr {
    Expr::Ident(s.to_string())
}
pub fn infix(l: Expr, op: Op, r: Expr) -> Expr {
    Expr::Infix { left: Box::new(l), op, right: Box::new(r) }
}
pub fn prefix(op: Op, r: Expr) -> Expr {
    Expr::Prefix { op, right: Box::new(r) }
}
pub fn call(f: Expr, args: Vec<Expr>) -> Expr {
    Expr::Call { left: Box::new(f), args }
}
pub fn calln(name: &str, args: Vec<Expr>) -> Expr {
    call(ident(name), args)
}
pub fn assign(l: Expr, r: Expr) -> Expr {
    Expr::Assign { left: Box::new(l), right: Box::new(r) }
}
pub fn index(l: Expr, i: Expr) -> Expr {
    Expr::Index { left: Box::new(l), index: Box::new(i) }
}
/// integer as an expression tree: negative numbers are a prefix minus on a literal
pub fn int(v: i64) -> Expr {
    if v >= 0 {
        Expr::Int(v)
    } else if v == i64::MIN {
        Expr::Int(0)
    } else if v == crate::props::MIN_INT {
        infix(prefix(Op::Subtract, Expr::Int(crate::props::MAX_INT)), Op::Subtract, Expr::Int(1))
    } else {
        prefix(Op::Subtract, Expr::Int(-v))
    }
}

// ------------------------------------------------------------------------------------------------
// conversion from the real tree

fn conv_op(o: &real::Operator) -> Op {
    use real::Operator as R;
    #[allow(unreachable_patterns)]
    match o {
        R::Add => Op::Add,
        R::Subtract => Op::Subtract,
        R::Multiply => Op::Multiply,
        R::Divide => Op::Divide,
        R::Gt => Op::Gt,
        R::Gte => Op::Gte,
        R::Lt => Op::Lt,
        R::Lte => Op::Lte,
        R::Eq => Op::Eq,
        R::Neq => Op::Neq,
        R::Not => Op::Not,
        R::Negate => Op::Negate,
        R::And => Op::And,
        R::Or => Op::Or,
        R::Modulo => Op::Modulo,
        R::Assign => Op::Assign,
        _ => Op::Unknown,
    }
}

pub fn conv_block(b: &[real::Stmt]) -> Vec<Stmt> {
    b.iter().map(conv_stmt).collect()
}

pub fn conv_stmt(s: &real::Stmt) -> Stmt {
    use real::Stmt as R;
    #[allow(unreachable_patterns)]
    match s {
        R::Let(n, e) => Stmt::Let(n.clone(), conv_expr(e)),
        R::Return(e) => Stmt::Return(conv_expr(e)),
        R::Expr(e) => Stmt::Expr(conv_expr(e)),
        R::Block(b) => Stmt::Block(conv_block(b)),
        R::Break => Stmt::Break,
        R::Continue => Stmt::Continue,
        other => Stmt::Expr(Expr::Unknown(format!("{:?}", other))),
    }
}

pub fn conv_expr(e: &real::Expr) -> Expr {
    use real::Expr as R;
    #[allow(unreachable_patterns)]
    match e {
        R::Infix { left, operator, right } => Expr::Infix {
            left: Box::new(conv_expr(left)),
            op: conv_op(operator),
            right: Box::new(conv_expr(right)),
        },
        R::Prefix { operator, right } => Expr::Prefix { op: conv_op(operator), right: Box::new(conv_expr(right)) },
        R::Int { value } => Expr::Int(*value as i64),
        R::Float { value } => Expr::Float(*value),
        R::Bool { value } => Expr::Bool(*value),
        R::If { condition, consequence, alternative } => Expr::If {
            cond: Box::new(conv_expr(condition)),
            cons: conv_block(consequence),
            alt: alternative.as_ref().map(|a| conv_block(a)),
        },
        R::Identifier(n) => Expr::Ident(n.clone()),
        R::Function { name, parameters, body } => Expr::Function {
            name: name.clone(),
            params: parameters.clone(),
            body: conv_block(body),
        },
        R::Call { left, arguments } => Expr::Call {
            left: Box::new(conv_expr(left)),
            args: arguments.iter().map(conv_expr).collect(),
        },
        R::Assign { left, right } => Expr::Assign { left: Box::new(conv_expr(left)), right: Box::new(conv_expr(right)) },
        R::String { value } => Expr::Str(value.clone()),
        R::Array { values } => Expr::Array(values.iter().map(conv_expr).collect()),
        R::Index { left, index } => Expr::Index { left: Box::new(conv_expr(left)), index: Box::new(conv_expr(index)) },
        R::While { condition, body } => Expr::While { cond: Box::new(conv_expr(condition)), body: conv_block(body) },
        other => Expr::Unknown(format!("{:?}", other)),
    }
}

/// Result of the real parser as a mirror tree
pub fn parse_real(text: &str) -> Result<Vec<Stmt>, (crate::val::ErrKind, String)> {
    match nederlang::parser::parse(text) {
        Ok(b) => Ok(conv_block(&b)),
        Err(e) => Err(crate::obs::kind_of(&e)),
    }
}

/// tree equality where floats are compared by bits (NaN never appears in literals)
pub fn same_tree(a: &[Stmt], b: &[Stmt]) -> bool {
    format!("{:?}", a) == format!("{:?}", b)
}

/// number of nodes (statements + expressions)
pub fn size_block(b: &[Stmt]) -> usize {
    b.iter().map(size_stmt).sum()
}
pub fn size_stmt(s: &Stmt) -> usize {
    1 + match s {
        Stmt::Let(_, e) | Stmt::Return(e) | Stmt::Expr(e) => size_expr(e),
        Stmt::Block(b) => size_block(b),
        Stmt::Break | Stmt::Continue => 0,
    }
}
pub fn size_expr(e: &Expr) -> usize {
    1 + match e {
        Expr::Infix { left, right, .. } => size_expr(left) + size_expr(right),
        Expr::Prefix { right, .. } => size_expr(right),
        Expr::If { cond, cons, alt } => size_expr(cond) + size_block(cons) + alt.as_ref().map(|a| size_block(a)).unwrap_or(0),
        Expr::Function { body, .. } => size_block(body),
        Expr::Call { left, args } => size_expr(left) + args.iter().map(size_expr).sum::<usize>(),
        Expr::Assign { left, right } => size_expr(left) + size_expr(right),
        Expr::Array(xs) => xs.iter().map(size_expr).sum(),
        Expr::Index { left, index } => size_expr(left) + size_expr(index),
        Expr::While { cond, body } => size_expr(cond) + size_block(body),
        _ => 0,
    }
}

/// coarse shape hash input: the tree with literals and names blanked
pub fn shape_block(b: &[Stmt], out: &mut String) {
    out.push('{');
    for s in b {
        shape_stmt(s, out);
    }
    out.push('}');
}
fn shape_stmt(s: &Stmt, out: &mut String) {
    match s {
        Stmt::Let(_, e) => {
            out.push('L');
            shape_expr(e, out)
        }
        Stmt::Return(e) => {
            out.push('R');
            shape_expr(e, out)
        }
        Stmt::Expr(e) => {
            out.push('E');
            shape_expr(e, out)
        }
        Stmt::Block(b) => shape_block(b, out),
        Stmt::Break => out.push('B'),
        Stmt::Continue => out.push('C'),
    }
}
fn shape_expr(e: &Expr, out: &mut String) {
    match e {
        Expr::Infix { left, op, right } => {
            out.push('(');
            shape_expr(left, out);
            out.push_str(op.text());
            shape_expr(right, out);
            out.push(')');
        }
        Expr::Prefix { op, right } => {
            out.push_str(op.text());
            shape_expr(right, out)
        }
        Expr::Int(_) => out.push('i'),
        Expr::Float(_) => out.push('f'),
        Expr::Bool(_) => out.push('b'),
        Expr::Str(_) => out.push('s'),
        Expr::Ident(_) => out.push('v'),
        Expr::If { cond, cons, alt } => {
            out.push('?');
            shape_expr(cond, out);
            shape_block(cons, out);
            if let Some(a) = alt {
                out.push(':');
                shape_block(a, out);
            }
        }
        Expr::Function { params, body, .. } => {
            out.push('F');
            out.push_str(&params.len().to_string());
            shape_block(body, out);
        }
        Expr::Call { left, args } => {
            out.push('c');
            shape_expr(left, out);
            out.push('(');
            for a in args {
                shape_expr(a, out);
                out.push(',');
            }
            out.push(')');
        }
        Expr::Assign { left, right } => {
            out.push('=');
            shape_expr(left, out);
            shape_expr(right, out);
        }
        Expr::Array(xs) => {
            out.push('[');
            for a in xs {
                shape_expr(a, out);
                out.push(',');
            }
            out.push(']');
        }
        Expr::Index { left, index } => {
            shape_expr(left, out);
            out.push('[');
            shape_expr(index, out);
            out.push(']');
        }
        Expr::While { cond, body } => {
            out.push('W');
            shape_expr(cond, out);
            shape_block(body, out);
        }
        Expr::Unknown(_) => out.push('U'),
    }
}
pub fn shape_hash(b: &[Stmt]) -> u64 {
    let mut s = String::new();
    shape_block(b, &mut s);
    crate::rng::hash_str(&s)
}

// ------------------------------------------------------------------------------------------------
// structural coverage of a corpus: which (parent construct, slot, child construct) combinations occur

pub const KIND_NAMES: [&str; 22] = [
    "Infix", "Prefix", "Int", "Float", "Bool", "If", "Ident", "Function", "Call", "Assign", "Str", "Array", "Index", "While", "Unknown", "Let", "Return", "ExprStmt", "Block", "Break", "Continue", "(empty)",
];
pub const SLOT_NAMES: [&str; 24] = [
    "program.item", "program.last", "let.value", "return.value", "block.item", "block.last", "infix.left", "infix.right", "prefix.operand", "assign.target", "assign.value", "if.cond", "if.cons.item", "if.cons.last",
    "if.alt.item", "if.alt.last", "while.cond", "while.body.item", "while.body.last", "function.body.item", "function.body.last", "call.callee", "call.arg", "array.item",
];
const SLOT_INDEX_BASE: u8 = 24;
const SLOT_INDEX_INDEX: u8 = 25;

pub fn slot_name(s: u8) -> &'static str {
    match s {
        24 => "index.base",
        25 => "index.index",
        _ => SLOT_NAMES[s as usize],
    }
}

fn expr_kind(e: &Expr) -> u8 {
    match e {
        Expr::Infix { .. } => 0,
        Expr::Prefix { .. } => 1,
        Expr::Int(_) => 2,
        Expr::Float(_) => 3,
        Expr::Bool(_) => 4,
        Expr::If { .. } => 5,
        Expr::Ident(_) => 6,
        Expr::Function { .. } => 7,
        Expr::Call { .. } => 8,
        Expr::Assign { .. } => 9,
        Expr::Str(_) => 10,
        Expr::Array(_) => 11,
        Expr::Index { .. } => 12,
        Expr::While { .. } => 13,
        Expr::Unknown(_) => 14,
    }
}

/// the construct a statement contributes to an edge: an expression statement counts as its expression
fn stmt_kind(s: &Stmt) -> u8 {
    match s {
        Stmt::Let(..) => 15,
        Stmt::Return(_) => 16,
        Stmt::Expr(e) => expr_kind(e),
        Stmt::Block(_) => 18,
        Stmt::Break => 19,
        Stmt::Continue => 20,
    }
}

/// every (slot, child kind) edge of the tree, as (slot, kind) codes; an empty statement list gives (last slot, "(empty)")
pub fn edges_block(b: &[Stmt], item: u8, last: u8, out: &mut Vec<(u8, u8)>) {
    if b.is_empty() {
        out.push((last, 21));
    }
    for (i, s) in b.iter().enumerate() {
        out.push((if i + 1 == b.len() { last } else { item }, stmt_kind(s)));
        match s {
            Stmt::Let(_, e) => {
                out.push((2, expr_kind(e)));
                edges_expr(e, out);
            }
            Stmt::Return(e) => {
                out.push((3, expr_kind(e)));
                edges_expr(e, out);
            }
            Stmt::Expr(e) => edges_expr(e, out),
            Stmt::Block(inner) => edges_block(inner, 4, 5, out),
            Stmt::Break | Stmt::Continue => {}
        }
    }
}

pub fn edges_expr(e: &Expr, out: &mut Vec<(u8, u8)>) {
    let mut sub = |slot: u8, x: &Expr, out: &mut Vec<(u8, u8)>| {
        out.push((slot, expr_kind(x)));
        edges_expr(x, out);
    };
    match e {
        Expr::Infix { left, right, .. } => {
            sub(6, left, out);
            sub(7, right, out);
        }
        Expr::Prefix { right, .. } => sub(8, right, out),
        Expr::Assign { left, right } => {
            sub(9, left, out);
            sub(10, right, out);
        }
        Expr::If { cond, cons, alt } => {
            sub(11, cond, out);
            edges_block(cons, 12, 13, out);
            if let Some(a) = alt {
                edges_block(a, 14, 15, out);
            }
        }
        Expr::While { cond, body } => {
            sub(16, cond, out);
            edges_block(body, 17, 18, out);
        }
        Expr::Function { body, .. } => edges_block(body, 19, 20, out),
        Expr::Call { left, args } => {
            sub(21, left, out);
            for a in args {
                sub(22, a, out);
            }
        }
        Expr::Array(xs) => {
            for x in xs {
                sub(23, x, out);
            }
        }
        Expr::Index { left, index } => {
            sub(SLOT_INDEX_BASE, left, out);
            sub(SLOT_INDEX_INDEX, index, out);
        }
        _ => {}
    }
}

pub fn edges_program(p: &[Stmt]) -> Vec<(u8, u8)> {
    let mut out = vec![];
    edges_block(p, 0, 1, &mut out);
    out
}
