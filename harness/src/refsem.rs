//! The reference semantics of DESIGN.md §4: a definitional tree-walking evaluator written from the
//! README and the property statements. It never calls into nederlang's compiler or VM.

use crate::ast::{Expr, Op, Stmt};
use crate::props::{MAX_INT, MIN_INT};
use crate::val::{ErrKind, Kinds, Val};
use std::cell::RefCell;
use std::rc::Rc;

pub const BUILTINS: [&str; 7] = ["print", "type", "bool", "int", "float", "string", "lengte"];

#[derive(Clone)]
pub enum RV {
    Null,
    Bool(bool),
    Int(i64),
    Float(f64),
    Str(Rc<RefCell<String>>),
    Arr(Rc<RefCell<Vec<RV>>>),
    Func(Rc<FuncVal>),
    /// ⊥: a value the documentation does not fix (§4.4)
    Indet,
}

pub struct FuncVal {
    /// identity = defining node (address of the Expr::Function in the tree being evaluated)
    pub node: usize,
    pub params: Vec<String>,
    pub body: Vec<Stmt>,
    /// global-context scopes visible at the definition, each with the number of names declared so far
    globals: Vec<(ScopeRef, usize)>,
}

struct Binding {
    val: RV,
    init: bool,
    alive: bool,
}
type BRef = Rc<RefCell<Binding>>;
type ScopeRef = Rc<RefCell<Vec<(String, BRef)>>>;

#[derive(Clone, Debug)]
pub enum RefOutcome {
    Value(Val),
    Error(Kinds),
    Unspecified(String),
    /// the reference itself ran out of steps
    OutOfSteps,
}

#[derive(Clone, Debug)]
pub struct RefResult {
    pub output: Vec<String>,
    pub outcome: RefOutcome,
    /// false: output and error are specified but the final value is not (§4.3(8,9))
    pub value_specified: bool,
    pub steps: u64,
    pub tags: Vec<&'static str>,
    pub max_call_depth: usize,
}

enum Stop {
    Err(Kinds),
    Unspec(String),
    OutOfSteps,
    /// the line was cut after the configured number of completed assignments (session model)
    Cut,
}

enum Flow {
    Normal(RV),
    Break,
    Continue,
    Return(RV),
}

type R<T> = Result<T, Stop>;

fn err<T>(k: ErrKind) -> R<T> {
    Err(Stop::Err(Kinds::one(k)))
}
fn unspec<T>(s: &str) -> R<T> {
    Err(Stop::Unspec(s.to_string()))
}

// ------------------------------------------------------------------------------------------------
// static phase

#[derive(Default, Debug, Clone)]
pub struct StaticInfo {
    pub errors: Option<Kinds>,
    pub unspecified: Option<String>,
    pub max_block_depth: usize,
    pub shadowings: usize,
    pub redeclarations: usize,
    pub functions: usize,
    pub nested_functions: usize,
}

struct SCtx {
    /// scopes of this context
    scopes: Vec<Vec<String>>,
    loop_depth: usize,
    is_global: bool,
}

struct Static {
    ctxs: Vec<SCtx>,
    info: StaticInfo,
}

impl Static {
    fn error(&mut self, k: ErrKind) {
        let cur = self.info.errors.unwrap_or(Kinds(0));
        self.info.errors = Some(cur.union(Kinds::one(k)));
    }
    fn unspec(&mut self, s: &str) {
        if self.info.unspecified.is_none() {
            self.info.unspecified = Some(s.to_string());
        }
    }
    fn cur(&mut self) -> &mut SCtx {
        self.ctxs.last_mut().unwrap()
    }
    fn define(&mut self, name: &str) {
        if BUILTINS.contains(&name) {
            self.unspec("4.3(15): variable named like a builtin");
        }
        let visible_outer = self.lookup(name).is_some();
        let c = self.cur();
        if c.scopes.last().unwrap().iter().any(|n| n == name) {
            self.info.redeclarations += 1;
        } else if visible_outer {
            self.info.shadowings += 1;
        }
        self.cur().scopes.last_mut().unwrap().push(name.to_string());
    }
    /// Some(true) = resolves in own context or the global context; Some(false) = only in an enclosing function (closure)
    fn lookup(&self, name: &str) -> Option<bool> {
        let n = self.ctxs.len();
        let own = &self.ctxs[n - 1];
        if own.scopes.iter().any(|s| s.iter().any(|x| x == name)) {
            return Some(true);
        }
        // The locals of an enclosing function are not visible (C09: a function body sees its own parameters and
        // locals and the globals): such a name means the global of that name, or nothing at all.
        if n > 1 && self.ctxs[0].scopes.iter().any(|s| s.iter().any(|x| x == name)) {
            return Some(true);
        }
        None
    }
    fn use_name(&mut self, name: &str) {
        match self.lookup(name) {
            Some(true) => {}
            Some(false) => self.unspec("4.3(4): function refers to a local of an enclosing function"),
            None => self.error(ErrKind::Reference),
        }
    }
    fn block(&mut self, b: &[Stmt]) {
        self.cur().scopes.push(vec![]);
        let d: usize = self.ctxs.iter().map(|c| c.scopes.len()).sum();
        if d > self.info.max_block_depth {
            self.info.max_block_depth = d;
        }
        for s in b {
            self.stmt(s);
        }
        self.cur().scopes.pop();
    }
    fn stmt(&mut self, s: &Stmt) {
        match s {
            Stmt::Let(n, e) => {
                self.define(n);
                self.expr(e);
            }
            Stmt::Return(e) => {
                if self.ctxs.len() == 1 {
                    self.unspec("4.3(10): antwoord outside any function");
                }
                self.expr(e);
            }
            Stmt::Expr(e) => self.expr(e),
            Stmt::Block(b) => self.block(b),
            Stmt::Break | Stmt::Continue => {
                if self.cur().loop_depth == 0 {
                    self.error(ErrKind::Syntax);
                }
            }
        }
    }
    fn expr(&mut self, e: &Expr) {
        match e {
            Expr::Int(_) | Expr::Float(_) | Expr::Bool(_) | Expr::Str(_) => {}
            Expr::Unknown(_) => self.unspec("unknown node kind"),
            Expr::Ident(n) => self.use_name(n),
            Expr::Infix { left, right, .. } => {
                self.expr(left);
                self.expr(right);
            }
            Expr::Prefix { right, .. } => self.expr(right),
            Expr::If { cond, cons, alt } => {
                self.expr(cond);
                self.block(cons);
                if let Some(a) = alt {
                    self.block(a);
                }
            }
            Expr::While { cond, body } => {
                self.expr(cond);
                self.cur().loop_depth += 1;
                self.block(body);
                self.cur().loop_depth -= 1;
            }
            Expr::Function { name, params, body } => {
                self.info.functions += 1;
                if self.ctxs.len() > 1 {
                    self.info.nested_functions += 1;
                }
                if !name.is_empty() {
                    self.define(name);
                }
                self.ctxs.push(SCtx {
                    scopes: vec![vec![]],
                    loop_depth: 0,
                    is_global: false,
                });
                for (i, p) in params.iter().enumerate() {
                    if params[..i].contains(p) {
                        self.unspec("4.3(6): duplicate parameter names");
                    }
                    self.define(p);
                }
                self.block(body);
                self.ctxs.pop();
            }
            Expr::Call { left, args } => {
                for a in args {
                    self.expr(a);
                }
                match &**left {
                    Expr::Ident(n) if BUILTINS.contains(&n.as_str()) => {}
                    other => self.expr(other),
                }
            }
            Expr::Assign { left, right } => match &**left {
                Expr::Ident(n) => {
                    // the compiler resolves the target first, then compiles the value
                    self.use_name(n);
                    self.expr(right);
                }
                Expr::Index { left: l, index } => {
                    self.expr(l);
                    self.expr(index);
                    self.expr(right);
                }
                _ => {
                    self.error(ErrKind::Type);
                    self.expr(right);
                }
            },
            Expr::Array(xs) => {
                for x in xs {
                    self.expr(x);
                }
            }
            Expr::Index { left, index } => {
                self.expr(left);
                self.expr(index);
            }
        }
    }
}

pub fn static_check(prog: &[Stmt]) -> StaticInfo {
    static_check_with(prog, &[])
}

/// static phase with globals that already exist (retained sessions)
pub fn static_check_with(prog: &[Stmt], globals: &[String]) -> StaticInfo {
    let mut s = Static {
        ctxs: vec![SCtx {
            scopes: vec![globals.to_vec()],
            loop_depth: 0,
            is_global: true,
        }],
        info: StaticInfo::default(),
    };
    for st in prog {
        s.stmt(st);
    }
    s.info
}

// ------------------------------------------------------------------------------------------------
// dynamic phase

struct Frame {
    scopes: Vec<ScopeRef>,
    globals: Vec<(ScopeRef, usize)>,
    is_global: bool,
}

pub struct Interp {
    frames: Vec<Frame>,
    pub output: Vec<String>,
    steps: u64,
    max_steps: u64,
    effects: u64,
    tags: Vec<&'static str>,
    max_depth: usize,
    depth_limit: usize,
    /// completed assignments (declarations, assignments, element stores) so far in this line
    pub assignments: u64,
    /// stop with `Cut` before the assignment that would exceed this number
    pub assignment_limit: Option<u64>,
}

pub fn render_print(v: &RV) -> R<String> {
    let mut s = String::new();
    render_into(v, &mut s, &mut vec![])?;
    Ok(s)
}

fn fmt_float(f: f64) -> R<String> {
    if !f.is_finite() {
        return unspec("4.3(12): rendering of NaN / infinity");
    }
    Ok(format!("{}", f))
}

fn render_into(v: &RV, s: &mut String, path: &mut Vec<*const RefCell<Vec<RV>>>) -> R<()> {
    match v {
        RV::Null => {}
        RV::Bool(b) => s.push_str(if *b { "ja" } else { "nee" }),
        RV::Int(i) => s.push_str(&i.to_string()),
        RV::Float(f) => s.push_str(&fmt_float(*f)?),
        RV::Str(x) => s.push_str(&x.borrow()),
        RV::Func(_) => s.push_str("functie"),
        RV::Indet => return unspec("4.4: use of an indeterminate value (rendering)"),
        RV::Arr(a) => {
            let p = Rc::as_ptr(a);
            if path.contains(&p) {
                return unspec("4.3(14): cyclic array rendered");
            }
            if path.len() > 64 {
                return unspec("4.3(14): array nested deeper than 64");
            }
            path.push(p);
            s.push('[');
            let items = a.borrow().clone();
            for (i, x) in items.iter().enumerate() {
                if i > 0 {
                    s.push_str(", ");
                }
                render_into(x, s, path)?;
            }
            s.push(']');
            path.pop();
        }
    }
    Ok(())
}

pub fn type_name(v: &RV) -> &'static str {
    match v {
        RV::Null => "null",
        RV::Bool(_) => "bool",
        RV::Int(_) => "int",
        RV::Float(_) => "float",
        RV::Str(_) => "string",
        RV::Arr(_) => "array",
        RV::Func(_) => "functie",
        RV::Indet => "?",
    }
}

fn new_str(s: &str) -> RV {
    RV::Str(Rc::new(RefCell::new(s.to_string())))
}

fn in_range(v: i128) -> bool {
    v >= MIN_INT as i128 && v <= MAX_INT as i128
}

/// classification of text handed to int()/float(): canonical decimal, clearly not a number, or in between
pub enum NumText {
    Int(i128),
    Decimal(f64),
    NonNumeric,
    Unclear,
}

pub fn classify_number(text: &str) -> NumText {
    let t = text.trim();
    let body = t.strip_prefix('-').unwrap_or(t);
    if !body.is_empty() && body.bytes().all(|b| b.is_ascii_digit()) {
        if body.len() <= 30 {
            return NumText::Int(t.parse::<i128>().unwrap());
        }
        return NumText::Unclear;
    }
    if let Some((a, b)) = body.split_once('.') {
        if !a.is_empty() && !b.is_empty() && a.bytes().all(|x| x.is_ascii_digit()) && b.bytes().all(|x| x.is_ascii_digit()) {
            return NumText::Decimal(t.parse::<f64>().unwrap());
        }
    }
    // things a lenient number parser might accept
    let lower = t.to_lowercase();
    let numberish = !t.is_empty()
        && (t.chars().all(|c| c.is_ascii_digit() || matches!(c, '+' | '-' | '.' | 'e' | 'E' | '_'))
            || ["inf", "+inf", "-inf", "nan", "+nan", "-nan", "infinity", "+infinity", "-infinity"].contains(&lower.as_str())
            || t.chars().any(|c| c.is_numeric() && !c.is_ascii_digit()));
    if numberish && t.chars().any(|c| c.is_numeric() || lower.contains("inf") || lower.contains("nan")) {
        return NumText::Unclear;
    }
    NumText::NonNumeric
}

impl Interp {
    pub fn new(max_steps: u64) -> Interp {
        let g: ScopeRef = Rc::new(RefCell::new(vec![]));
        Interp {
            frames: vec![Frame {
                scopes: vec![g],
                globals: vec![],
                is_global: true,
            }],
            output: vec![],
            steps: 0,
            max_steps,
            effects: 0,
            tags: vec![],
            max_depth: 0,
            depth_limit: 200,
            assignments: 0,
            assignment_limit: None,
        }
    }

    /// called immediately before an assignment takes effect
    fn before_assign(&mut self) -> R<()> {
        if let Some(l) = self.assignment_limit {
            if self.assignments >= l {
                return Err(Stop::Cut);
            }
        }
        self.assignments += 1;
        self.effects += 1;
        Ok(())
    }

    fn tick(&mut self) -> R<()> {
        self.steps += 1;
        if self.steps > self.max_steps {
            return Err(Stop::OutOfSteps);
        }
        Ok(())
    }

    fn tag(&mut self, t: &'static str) {
        if !self.tags.contains(&t) {
            self.tags.push(t);
        }
    }

    fn frame(&mut self) -> &mut Frame {
        self.frames.last_mut().unwrap()
    }

    fn declare(&mut self, name: &str) -> BRef {
        let b: BRef = Rc::new(RefCell::new(Binding {
            val: RV::Null,
            init: false,
            alive: true,
        }));
        let f = self.frame();
        f.scopes.last().unwrap().borrow_mut().push((name.to_string(), b.clone()));
        b
    }

    fn lookup(&self, name: &str) -> Option<BRef> {
        let f = self.frames.last().unwrap();
        for s in f.scopes.iter().rev() {
            if let Some((_, b)) = s.borrow().iter().rev().find(|(n, _)| n == name) {
                return Some(b.clone());
            }
        }
        for (s, len) in f.globals.iter().rev() {
            let sc = s.borrow();
            let upto = (*len).min(sc.len());
            if let Some((_, b)) = sc[..upto].iter().rev().find(|(n, _)| n == name) {
                return Some(b.clone());
            }
        }
        None
    }

    fn read(&mut self, name: &str) -> R<RV> {
        match self.lookup(name) {
            None => err(ErrKind::Reference), // static phase normally reports this first
            Some(b) => {
                let b = b.borrow();
                if !b.alive {
                    return unspec("4.3(4): function uses a block variable that has gone out of scope");
                }
                if !b.init {
                    return unspec("4.3(3): variable read inside its own initialiser");
                }
                Ok(b.val.clone())
            }
        }
    }

    fn snapshot_globals(&self) -> Vec<(ScopeRef, usize)> {
        let f = self.frames.last().unwrap();
        if f.is_global {
            f.scopes.iter().map(|s| (s.clone(), s.borrow().len())).collect()
        } else {
            f.globals.clone()
        }
    }

    fn enter_scope(&mut self) {
        self.frame().scopes.push(Rc::new(RefCell::new(vec![])));
    }
    fn leave_scope(&mut self) {
        let s = self.frame().scopes.pop().unwrap();
        for (_, b) in s.borrow().iter() {
            b.borrow_mut().alive = false;
        }
    }

    /// value of a block (§4.2), run in a fresh scope
    fn block(&mut self, b: &[Stmt]) -> R<Flow> {
        self.enter_scope();
        let r = self.block_inner(b);
        self.leave_scope();
        r
    }

    fn block_inner(&mut self, b: &[Stmt]) -> R<Flow> {
        let mut value_before = false;
        let n = b.len();
        let mut last = RV::Null;
        for (i, s) in b.iter().enumerate() {
            let is_last = i + 1 == n;
            match s {
                Stmt::Expr(e) => {
                    let v = self.eval(e)?;
                    let v = match v {
                        Flow::Normal(v) => v,
                        other => return Ok(other),
                    };
                    value_before = true;
                    if is_last {
                        last = v;
                    }
                }
                Stmt::Let(name, e) => {
                    let bref = self.declare(name);
                    let v = match self.eval(e)? {
                        Flow::Normal(v) => v,
                        other => return Ok(other),
                    };
                    self.before_assign()?;
                    let mut bm = bref.borrow_mut();
                    bm.val = v;
                    bm.init = true;
                    drop(bm);
                    if is_last {
                        last = if value_before { RV::Indet } else { RV::Null };
                    }
                }
                Stmt::Block(inner) => {
                    let v = match self.block(inner)? {
                        Flow::Normal(v) => v,
                        other => return Ok(other),
                    };
                    if is_last {
                        // value of the nested block; an empty nested block or one without a value gives null
                        last = v;
                        if value_before && matches!(last, RV::Null) && !block_has_value(inner) {
                            last = RV::Indet;
                        }
                    } else if block_has_value(inner) {
                        value_before = true;
                    }
                }
                Stmt::Return(e) => {
                    let v = match self.eval(e)? {
                        Flow::Normal(v) => v,
                        other => return Ok(other),
                    };
                    return Ok(Flow::Return(v));
                }
                Stmt::Break => return Ok(Flow::Break),
                Stmt::Continue => return Ok(Flow::Continue),
            }
        }
        Ok(Flow::Normal(last))
    }

    fn eval_val(&mut self, e: &Expr) -> R<Result<RV, Flow>> {
        Ok(match self.eval(e)? {
            Flow::Normal(v) => Ok(v),
            other => Err(other),
        })
    }

    fn eval(&mut self, e: &Expr) -> R<Flow> {
        self.tick()?;
        macro_rules! val {
            ($x:expr) => {
                match self.eval($x)? {
                    Flow::Normal(v) => v,
                    other => return Ok(other),
                }
            };
        }
        let v = match e {
            Expr::Int(i) => {
                if !in_range(*i as i128) {
                    return unspec("4.3(12): integer literal outside the 61-bit range");
                }
                RV::Int(*i)
            }
            Expr::Float(f) => RV::Float(*f),
            Expr::Bool(b) => RV::Bool(*b),
            Expr::Str(s) => new_str(s),
            Expr::Unknown(_) => return unspec("unknown node kind"),
            Expr::Ident(n) => self.read(n)?,
            Expr::Array(xs) => {
                let mut v = Vec::with_capacity(xs.len());
                for x in xs {
                    v.push(val!(x));
                }
                RV::Arr(Rc::new(RefCell::new(v)))
            }
            Expr::Prefix { op, right } => {
                let r = val!(right);
                match op {
                    Op::Not => match r {
                        RV::Bool(b) => RV::Bool(!b),
                        RV::Indet => return unspec("4.4: use of an indeterminate value (!)"),
                        _ => return err(ErrKind::Type),
                    },
                    Op::Subtract | Op::Negate => match r {
                        RV::Int(i) => {
                            let n = -(i as i128);
                            if !in_range(n) {
                                return Err(Stop::Err(Kinds::ANY));
                            }
                            RV::Int(n as i64)
                        }
                        RV::Float(f) => RV::Float(-f),
                        RV::Indet => return unspec("4.4: use of an indeterminate value (-)"),
                        _ => return err(ErrKind::Type),
                    },
                    _ => return unspec("prefix operator not in the grammar"),
                }
            }
            Expr::Infix { left, op, right } => {
                let l = val!(left);
                if matches!(op, Op::And | Op::Or) {
                    // §4.3(5): when the left operand decides, the right one may or may not be evaluated
                    if let RV::Bool(lb) = l {
                        let decides = (*op == Op::And && !lb) || (*op == Op::Or && lb);
                        if decides {
                            let before = self.effects;
                            let out_before = self.output.len();
                            let r = self.eval(right);
                            let pure_bool = matches!(r, Ok(Flow::Normal(RV::Bool(_)))) && self.effects == before && self.output.len() == out_before;
                            if let Err(Stop::OutOfSteps) = r {
                                return Err(Stop::OutOfSteps);
                            }
                            if let Err(Stop::Cut) = r {
                                return Err(Stop::Cut);
                            }
                            if !pure_bool {
                                return unspec("4.3(5): right operand of && / || with effects, failure or non-bool value while the left operand decides");
                            }
                            self.tag("andor-left-decides");
                            return Ok(Flow::Normal(RV::Bool(lb)));
                        }
                    }
                }
                let r = val!(right);
                self.binary(*op, l, r)?
            }
            Expr::If { cond, cons, alt } => {
                let c = val!(cond);
                let c = match c {
                    RV::Bool(b) => b,
                    RV::Indet => return unspec("4.4: use of an indeterminate value (condition)"),
                    _ => return err(ErrKind::Type),
                };
                if c {
                    return self.block(cons);
                } else if let Some(a) = alt {
                    return self.block(a);
                } else {
                    RV::Null
                }
            }
            Expr::While { cond, body } => {
                let mut iterations = 0u64;
                loop {
                    self.tick()?;
                    let c = val!(cond);
                    let c = match c {
                        RV::Bool(b) => b,
                        RV::Indet => return unspec("4.4: use of an indeterminate value (loop condition)"),
                        _ => return err(ErrKind::Type),
                    };
                    if !c {
                        break;
                    }
                    iterations += 1;
                    match self.block(body)? {
                        Flow::Normal(_) | Flow::Continue => {}
                        Flow::Break => break,
                        Flow::Return(v) => return Ok(Flow::Return(v)),
                    }
                }
                if iterations == 0 {
                    RV::Null
                } else {
                    RV::Indet
                }
            }
            Expr::Function { name, params, body } => {
                let bref = if !name.is_empty() { Some(self.declare(name)) } else { None };
                let globals = self.snapshot_globals();
                let f = RV::Func(Rc::new(FuncVal {
                    node: e as *const Expr as usize,
                    params: params.clone(),
                    body: body.clone(),
                    globals,
                }));
                if let Some(b) = bref {
                    self.before_assign()?;
                    let mut bm = b.borrow_mut();
                    bm.val = f.clone();
                    bm.init = true;
                }
                f
            }
            Expr::Assign { left, right } => match &**left {
                Expr::Ident(n) => {
                    let b = match self.lookup(n) {
                        Some(b) => b,
                        None => return err(ErrKind::Reference),
                    };
                    let v = val!(right);
                    if !b.borrow().alive {
                        return unspec("4.3(4): assignment to a block variable that has gone out of scope");
                    }
                    self.before_assign()?;
                    let mut bm = b.borrow_mut();
                    // assigning to a variable inside its own initialiser
                    if !bm.init {
                        return unspec("4.3(3): variable assigned inside its own initialiser");
                    }
                    bm.val = v.clone();
                    v
                }
                Expr::Index { left: target, index } => {
                    let t = val!(target);
                    let i = val!(index);
                    let v = val!(right);
                    self.index_set(t, i, v.clone())?;
                    v
                }
                _ => return err(ErrKind::Type),
            },
            Expr::Index { left, index } => {
                let t = val!(left);
                let i = val!(index);
                self.index_get(t, i)?
            }
            Expr::Call { left, args } => {
                let mut argv = Vec::with_capacity(args.len());
                for a in args {
                    argv.push(val!(a));
                }
                if let Expr::Ident(n) = &**left {
                    if BUILTINS.contains(&n.as_str()) {
                        return Ok(Flow::Normal(self.builtin(n, argv)?));
                    }
                }
                let callee = val!(left);
                let f = match callee {
                    RV::Func(f) => f,
                    RV::Indet => return unspec("4.4: use of an indeterminate value (callee)"),
                    _ => return err(ErrKind::Type),
                };
                if f.params.len() != argv.len() {
                    return unspec("4.3(6): arity mismatch on a user function");
                }
                if self.frames.len() > self.depth_limit {
                    return unspec("4.3(14): recursion deeper than 200 frames");
                }
                self.effects += 1;
                let scope: ScopeRef = Rc::new(RefCell::new(vec![]));
                for (p, a) in f.params.iter().zip(argv.into_iter()) {
                    scope.borrow_mut().push((
                        p.clone(),
                        Rc::new(RefCell::new(Binding {
                            val: a,
                            init: true,
                            alive: true,
                        })),
                    ));
                }
                self.frames.push(Frame {
                    scopes: vec![scope],
                    globals: f.globals.clone(),
                    is_global: false,
                });
                if self.frames.len() > self.max_depth {
                    self.max_depth = self.frames.len();
                }
                let r = self.block(&f.body);
                self.frames.pop();
                match r? {
                    Flow::Normal(v) | Flow::Return(v) => v,
                    Flow::Break | Flow::Continue => return unspec("stop/volgende escaped a function body"),
                }
            }
        };
        Ok(Flow::Normal(v))
    }

    fn binary(&mut self, op: Op, l: RV, r: RV) -> R<RV> {
        if matches!(l, RV::Indet) || matches!(r, RV::Indet) {
            return unspec("4.4: use of an indeterminate value (operand)");
        }
        Ok(match (&l, &r) {
            (RV::Int(a), RV::Int(b)) => {
                let (x, y) = (*a as i128, *b as i128);
                let res = match op {
                    Op::Add => Some(x + y),
                    Op::Subtract => Some(x - y),
                    Op::Multiply => Some(x * y),
                    Op::Divide => {
                        if y == 0 {
                            None
                        } else {
                            Some(x / y)
                        }
                    }
                    Op::Modulo => {
                        if y == 0 {
                            None
                        } else {
                            Some(x % y)
                        }
                    }
                    Op::Lt => return Ok(RV::Bool(x < y)),
                    Op::Lte => return Ok(RV::Bool(x <= y)),
                    Op::Gt => return Ok(RV::Bool(x > y)),
                    Op::Gte => return Ok(RV::Bool(x >= y)),
                    Op::Eq => return Ok(RV::Bool(x == y)),
                    Op::Neq => return Ok(RV::Bool(x != y)),
                    Op::And | Op::Or => return err(ErrKind::Type),
                    _ => return unspec("operator not binary"),
                };
                match res {
                    Some(v) if in_range(v) => RV::Int(v as i64),
                    _ => return Err(Stop::Err(Kinds::ANY)),
                }
            }
            (RV::Float(a), RV::Float(b)) => {
                let (a, b) = (*a, *b);
                match op {
                    Op::Add => RV::Float(a + b),
                    Op::Subtract => RV::Float(a - b),
                    Op::Multiply => RV::Float(a * b),
                    Op::Divide => RV::Float(a / b),
                    Op::Modulo => RV::Float(a % b),
                    Op::Lt => RV::Bool(a < b),
                    Op::Lte => RV::Bool(a <= b),
                    Op::Gt => RV::Bool(a > b),
                    Op::Gte => RV::Bool(a >= b),
                    Op::Eq => RV::Bool(a == b),
                    Op::Neq => RV::Bool(a != b),
                    Op::And | Op::Or => return err(ErrKind::Type),
                    _ => return unspec("operator not binary"),
                }
            }
            (RV::Str(a), RV::Str(b)) => {
                let (a, b) = (a.borrow(), b.borrow());
                let (ca, cb): (Vec<char>, Vec<char>) = (a.chars().collect(), b.chars().collect());
                match op {
                    Op::Lt => RV::Bool(ca < cb),
                    Op::Lte => RV::Bool(ca <= cb),
                    Op::Gt => RV::Bool(ca > cb),
                    Op::Gte => RV::Bool(ca >= cb),
                    Op::Eq => RV::Bool(ca == cb),
                    Op::Neq => RV::Bool(ca != cb),
                    _ => return err(ErrKind::Type),
                }
            }
            (RV::Bool(a), RV::Bool(b)) => match op {
                Op::And => RV::Bool(*a && *b),
                Op::Or => RV::Bool(*a || *b),
                Op::Eq => RV::Bool(a == b),
                Op::Neq => RV::Bool(a != b),
                Op::Lt | Op::Lte | Op::Gt | Op::Gte => return unspec("4.3(11): ordering of bool"),
                _ => return err(ErrKind::Type),
            },
            (RV::Null, RV::Null) => match op {
                Op::Eq => RV::Bool(true),
                Op::Neq => RV::Bool(false),
                Op::Lt | Op::Lte | Op::Gt | Op::Gte => return unspec("4.3(11): ordering of null"),
                _ => return err(ErrKind::Type),
            },
            (RV::Func(a), RV::Func(b)) => match op {
                Op::Eq => RV::Bool(a.node == b.node),
                Op::Neq => RV::Bool(a.node != b.node),
                Op::Lt | Op::Lte | Op::Gt | Op::Gte => return unspec("4.3(11): ordering of functions"),
                _ => return err(ErrKind::Type),
            },
            (RV::Arr(_), RV::Arr(_)) => match op {
                Op::Eq | Op::Neq | Op::Lt | Op::Lte | Op::Gt | Op::Gte => return unspec("4.3(11): equality / ordering of arrays"),
                _ => return err(ErrKind::Type),
            },
            // different types
            _ => return err(ErrKind::Type),
        })
    }

    fn norm_index(i: i64, len: usize) -> Option<usize> {
        let len = len as i64;
        if i >= 0 && i < len {
            Some(i as usize)
        } else if i < 0 && i >= -len {
            Some((i + len) as usize)
        } else {
            None
        }
    }

    fn index_get(&mut self, t: RV, i: RV) -> R<RV> {
        if matches!(t, RV::Indet) || matches!(i, RV::Indet) {
            return unspec("4.4: use of an indeterminate value (indexing)");
        }
        let idx = match i {
            RV::Int(i) => i,
            _ => return err(ErrKind::Type),
        };
        match t {
            RV::Arr(a) => {
                let a = a.borrow();
                match Self::norm_index(idx, a.len()) {
                    Some(k) => Ok(a[k].clone()),
                    None => err(ErrKind::Index),
                }
            }
            RV::Str(s) => {
                let chars: Vec<char> = s.borrow().chars().collect();
                match Self::norm_index(idx, chars.len()) {
                    Some(k) => Ok(new_str(&chars[k].to_string())),
                    None => err(ErrKind::Index),
                }
            }
            _ => err(ErrKind::Type),
        }
    }

    fn index_set(&mut self, t: RV, i: RV, v: RV) -> R<()> {
        if matches!(t, RV::Indet) || matches!(i, RV::Indet) {
            return unspec("4.4: use of an indeterminate value (index assignment)");
        }
        let idx = match i {
            RV::Int(i) => Some(i),
            _ => None,
        };
        match &t {
            RV::Arr(a) => {
                let idx = match idx {
                    Some(i) => i,
                    None => return err(ErrKind::Type),
                };
                let len = a.borrow().len();
                match Self::norm_index(idx, len) {
                    Some(k) => {
                        self.before_assign()?;
                        a.borrow_mut()[k] = v;
                        Ok(())
                    }
                    None => err(ErrKind::Index),
                }
            }
            RV::Str(s) => {
                // collect every condition that fails (K is the union)
                let mut k = Kinds(0);
                let chars: Vec<char> = s.borrow().chars().collect();
                let pos = match idx {
                    Some(i) => {
                        let p = Self::norm_index(i, chars.len());
                        if p.is_none() {
                            k = k.union(Kinds::one(ErrKind::Index));
                        }
                        p
                    }
                    None => {
                        k = k.union(Kinds::one(ErrKind::Type));
                        None
                    }
                };
                let newtext = match &v {
                    RV::Str(x) => Some(x.borrow().clone()),
                    RV::Indet => return unspec("4.4: use of an indeterminate value (stored into a string)"),
                    _ => {
                        k = k.union(Kinds::one(ErrKind::Type));
                        None
                    }
                };
                if k.0 != 0 {
                    return Err(Stop::Err(k));
                }
                let (pos, newtext) = (pos.unwrap(), newtext.unwrap());
                if newtext.chars().count() != 1 {
                    return unspec("4.3(7): replacing one character by a string that is not one character long");
                }
                // the target is held by this temporary and by at most one other place
                if Rc::strong_count(s) > 2 {
                    return unspec("4.3(7): mutation of a string reachable under more than one name");
                }
                self.before_assign()?;
                let mut out = String::new();
                for (j, c) in chars.iter().enumerate() {
                    if j == pos {
                        out.push_str(&newtext);
                    } else {
                        out.push(*c);
                    }
                }
                *s.borrow_mut() = out;
                Ok(())
            }
            _ => {
                // indexing into something that is neither array nor string
                err(ErrKind::Type)
            }
        }
    }

    fn builtin(&mut self, name: &str, args: Vec<RV>) -> R<RV> {
        if name == "print" {
            self.effects += 1;
            if args.is_empty() {
                self.output.push(String::new());
                return Ok(RV::Null);
            }
            let fmt = render_print(&args[0])?;
            let mut reps = vec![];
            for a in &args[1..] {
                reps.push(render_print(a)?);
            }
            // one left-to-right pass over the format
            let mut out = String::new();
            let mut rest = fmt.as_str();
            let mut k = 0;
            while let Some(p) = rest.find("{}") {
                if k >= reps.len() {
                    break;
                }
                out.push_str(&rest[..p]);
                out.push_str(&reps[k]);
                k += 1;
                rest = &rest[p + 2..];
            }
            out.push_str(rest);
            self.output.push(out);
            return Ok(RV::Null);
        }
        if args.len() != 1 {
            return err(ErrKind::Argument);
        }
        let a = args.into_iter().next().unwrap();
        if matches!(a, RV::Indet) {
            return unspec("4.4: use of an indeterminate value (builtin argument)");
        }
        match name {
            "type" => Ok(new_str(type_name(&a))),
            "lengte" => match &a {
                RV::Str(s) => Ok(RV::Int(s.borrow().chars().count() as i64)),
                RV::Arr(v) => Ok(RV::Int(v.borrow().len() as i64)),
                _ => Err(Stop::Err(Kinds::of(&[ErrKind::Type, ErrKind::Argument]))),
            },
            "bool" => match &a {
                RV::Bool(b) => Ok(RV::Bool(*b)),
                RV::Int(i) => Ok(RV::Bool(*i > 0)),
                RV::Float(f) => {
                    if f.is_nan() {
                        return unspec("4.3(12): bool of NaN");
                    }
                    Ok(RV::Bool(*f > 0.0))
                }
                RV::Str(s) => Ok(RV::Bool(!s.borrow().is_empty())),
                RV::Arr(_) | RV::Null => unspec("4.3(13): bool of null / array"),
                RV::Func(_) => Err(Stop::Err(Kinds::of(&[ErrKind::Type, ErrKind::Argument]))),
                RV::Indet => unreachable!(),
            },
            "int" => match &a {
                RV::Int(i) => Ok(RV::Int(*i)),
                RV::Bool(b) => Ok(RV::Int(*b as i64)),
                RV::Float(f) => {
                    if !f.is_finite() {
                        return unspec("4.3(12): int of a non-finite float");
                    }
                    let t = f.trunc();
                    if t >= -(2f64.powi(60)) && t < 2f64.powi(60) {
                        Ok(RV::Int(t as i64))
                    } else {
                        Err(Stop::Err(Kinds::ANY))
                    }
                }
                RV::Str(s) => match classify_number(&s.borrow()) {
                    NumText::Int(v) => {
                        if in_range(v) {
                            Ok(RV::Int(v as i64))
                        } else {
                            Err(Stop::Err(Kinds::ANY))
                        }
                    }
                    NumText::Decimal(_) | NumText::Unclear => unspec("4.3(12): int of text that is numeric but not a canonical integer"),
                    NumText::NonNumeric => err(ErrKind::Argument),
                },
                RV::Null => unspec("4.3(13): int of null"),
                RV::Arr(_) | RV::Func(_) => Err(Stop::Err(Kinds::of(&[ErrKind::Type, ErrKind::Argument]))),
                RV::Indet => unreachable!(),
            },
            "float" => match &a {
                RV::Float(f) => Ok(RV::Float(*f)),
                RV::Int(i) => Ok(RV::Float(*i as f64)),
                RV::Bool(b) => Ok(RV::Float(if *b { 1.0 } else { 0.0 })),
                RV::Str(s) => match classify_number(&s.borrow()) {
                    // the value of the decimal text (keeps the sign of "-0")
                    NumText::Int(_) | NumText::Decimal(_) => Ok(RV::Float(s.borrow().trim().parse::<f64>().unwrap_or(f64::NAN))),
                    NumText::Unclear => unspec("4.3(12): float of text that is numeric but not canonical decimal"),
                    NumText::NonNumeric => err(ErrKind::Argument),
                },
                RV::Null => unspec("4.3(13): float of null"),
                RV::Arr(_) | RV::Func(_) => Err(Stop::Err(Kinds::of(&[ErrKind::Type, ErrKind::Argument]))),
                RV::Indet => unreachable!(),
            },
            "string" => match &a {
                RV::Str(_) => Ok(a.clone()),
                RV::Int(i) => Ok(new_str(&i.to_string())),
                RV::Float(f) => Ok(new_str(&fmt_float(*f)?)),
                RV::Bool(b) => Ok(new_str(if *b { "true" } else { "false" })),
                RV::Null => unspec("4.3(13): string of null"),
                RV::Arr(_) | RV::Func(_) => Err(Stop::Err(Kinds::of(&[ErrKind::Type, ErrKind::Argument]))),
                RV::Indet => unreachable!(),
            },
            _ => unspec("unknown builtin"),
        }
    }

    /// Run top-level statements in the global scope (used by `run_program` and by the session model)
    pub fn run_toplevel(&mut self, prog: &[Stmt]) -> (RefOutcome, bool) {
        let mut last = RV::Null;
        let mut value_specified = false;
        let n = prog.len();
        for (i, s) in prog.iter().enumerate() {
            let is_last = i + 1 == n;
            let r: R<Flow> = match s {
                Stmt::Expr(e) => self.eval(e),
                Stmt::Let(..) | Stmt::Block(_) | Stmt::Return(_) | Stmt::Break | Stmt::Continue => {
                    // reuse the block machinery for one statement, in the global scope itself
                    self.block_inner(std::slice::from_ref(s))
                }
            };
            match r {
                Ok(Flow::Normal(v)) => {
                    if is_last {
                        if matches!(s, Stmt::Expr(_)) {
                            last = v;
                            value_specified = true;
                        } else {
                            value_specified = false;
                        }
                    }
                }
                Ok(_) => return (RefOutcome::Unspecified("control flow escaped the top level".to_string()), false),
                Err(Stop::Err(k)) => return (RefOutcome::Error(k), true),
                Err(Stop::Unspec(s)) => return (RefOutcome::Unspecified(s), false),
                Err(Stop::OutOfSteps) => return (RefOutcome::OutOfSteps, false),
                Err(Stop::Cut) => return (RefOutcome::Unspecified("cut".to_string()), false),
            }
        }
        if matches!(last, RV::Indet) {
            return (RefOutcome::Value(Val::Null), false);
        }
        match to_val(&last) {
            Some(v) => (RefOutcome::Value(v), value_specified),
            None => (RefOutcome::Value(Val::Null), false),
        }
    }

    pub fn steps(&self) -> u64 {
        self.steps
    }

    /// names declared in the top-level scope so far, in order
    pub fn global_names(&self) -> Vec<String> {
        self.frames[0].scopes[0].borrow().iter().map(|(n, _)| n.clone()).collect()
    }

    /// current values of the named global variables (session model)
    pub fn global_value(&self, name: &str) -> Option<RV> {
        let g = &self.frames[0].scopes[0];
        let g = g.borrow();
        g.iter().rev().find(|(n, _)| n == name).map(|(_, b)| b.borrow().val.clone())
    }
}

fn block_has_value(b: &[Stmt]) -> bool {
    b.iter().any(|s| match s {
        Stmt::Expr(_) => true,
        Stmt::Block(inner) => block_has_value(inner),
        _ => false,
    })
}

/// RV -> plain tree; None if it contains ⊥
pub fn to_val(v: &RV) -> Option<Val> {
    fn rec(v: &RV, path: &mut Vec<*const RefCell<Vec<RV>>>) -> Option<Val> {
        Some(match v {
            RV::Null => Val::Null,
            RV::Bool(b) => Val::Bool(*b),
            RV::Int(i) => Val::Int(*i),
            RV::Float(f) => Val::Float(*f),
            RV::Str(s) => Val::Str(s.borrow().clone()),
            RV::Func(_) => Val::Func,
            RV::Indet => return None,
            RV::Arr(a) => {
                let p = Rc::as_ptr(a);
                if let Some(pos) = path.iter().rposition(|x| *x == p) {
                    return Some(Val::Cycle(path.len() - pos));
                }
                if path.len() > 64 {
                    return Some(Val::TooDeep);
                }
                path.push(p);
                let items = a.borrow().clone();
                let mut out = vec![];
                for x in items.iter() {
                    out.push(rec(x, path)?);
                }
                path.pop();
                Val::Array(out)
            }
        })
    }
    rec(v, &mut vec![])
}

/// Evaluate a whole program: static phase, then the dynamic phase.
pub fn run_program(prog: &[Stmt], max_steps: u64) -> RefResult {
    let info = static_check(prog);
    if let Some(u) = info.unspecified {
        return RefResult {
            output: vec![],
            outcome: RefOutcome::Unspecified(u),
            value_specified: false,
            steps: 0,
            tags: vec![],
            max_call_depth: 0,
        };
    }
    if let Some(k) = info.errors {
        return RefResult {
            output: vec![],
            outcome: RefOutcome::Error(k),
            value_specified: true,
            steps: 0,
            tags: vec!["static-error"],
            max_call_depth: 0,
        };
    }
    let mut it = Interp::new(max_steps);
    let (outcome, value_specified) = it.run_toplevel(prog);
    RefResult {
        output: std::mem::take(&mut it.output),
        outcome,
        value_specified,
        steps: it.steps,
        tags: it.tags.clone(),
        max_call_depth: it.max_depth,
    }
}
