//! Type-directed random program generator (DESIGN.md §5). Programs terminate by construction:
//! loops are counted, recursion decreases an integer argument.

use crate::ast::*;
use crate::rng::Rng;

#[derive(Clone, Debug, PartialEq)]
pub enum Ty {
    Int,
    Float,
    Bool,
    Str,
    /// homogeneous array
    Arr(Box<Ty>),
    /// function of n int parameters returning the given type
    Func(usize, Box<Ty>),
    Null,
    /// a value that must never be used (loop values, §4.3(8))
    Junk,
}

#[derive(Clone, Copy, Debug, PartialEq, Eq)]
pub enum Profile {
    General,
    Control,
    Calls,
    Scopes,
    Heap,
    Fusable,
}

pub const PROFILES: [Profile; 6] = [Profile::General, Profile::Control, Profile::Calls, Profile::Scopes, Profile::Heap, Profile::Fusable];

impl Profile {
    pub fn name(self) -> &'static str {
        match self {
            Profile::General => "general",
            Profile::Control => "control",
            Profile::Calls => "calls",
            Profile::Scopes => "scopes",
            Profile::Heap => "heap",
            Profile::Fusable => "fusable",
        }
    }
}

#[derive(Clone, Debug)]
struct Var {
    name: String,
    ty: Ty,
    /// may be assigned by generated statements (loop counters and recursion arguments may not)
    assignable: bool,
    /// string variable reserved for in-place mutation: never aliased
    mutable_str: bool,
    /// declared in the top-level scope of the global context
    toplevel: bool,
}

struct Ctx {
    scopes: Vec<Vec<Var>>,
    in_loop: bool,
    ret: Option<Ty>,
}

pub struct Gen<'a> {
    pub r: &'a mut Rng,
    pub profile: Profile,
    ctxs: Vec<Ctx>,
    budget: i64,
    name_counter: usize,
    fault_pending: bool,
    pub fault_used: Option<&'static str>,
    max_depth: usize,
    pure_only: bool,
}

const NAMES: [&str; 14] = ["a", "b", "c", "x", "y", "n", "teller", "som", "lijst", "tekst", "waarde", "één", "_t", "k2"];
const STRS: [&str; 14] = ["", "a", "abc", "hallo wereld", "é", "aé€💖", "12", " 7 ", "{}", "x{}y", "regel\nnieuw", "tab\tquote\"back\\", "C:\\nieuw\\tabel", "\\\\n"];

pub fn size_class(r: &mut Rng) -> i64 {
    match r.below(10) {
        0..=3 => 12,
        4..=8 => 80,
        _ => 400,
    }
}

impl<'a> Gen<'a> {
    pub fn new(r: &'a mut Rng, profile: Profile, budget: i64, with_fault: bool) -> Gen<'a> {
        Gen {
            r,
            profile,
            ctxs: vec![Ctx {
                scopes: vec![vec![]],
                in_loop: false,
                ret: None,
            }],
            budget,
            name_counter: 0,
            fault_pending: with_fault,
            fault_used: None,
            max_depth: 4,
            pure_only: false,
        }
    }

    fn cx(&mut self) -> &mut Ctx {
        self.ctxs.last_mut().unwrap()
    }
    fn in_function(&self) -> bool {
        self.ctxs.len() > 1
    }

    /// variables visible here: own context innermost first, then top-level globals (inside functions)
    fn visible(&self) -> Vec<Var> {
        let mut out: Vec<Var> = vec![];
        let own = self.ctxs.last().unwrap();
        for s in own.scopes.iter().rev() {
            for v in s.iter().rev() {
                if !out.iter().any(|o| o.name == v.name) {
                    out.push(v.clone());
                }
            }
        }
        if self.ctxs.len() > 1 {
            // functions may only use globals of the top-level scope (block variables die, §4.3(4)),
            // and must not see names of enclosing functions (closures, §4.3(4)): such names are hidden
            // (names of enclosing functions hide nothing: their locals are simply not visible in here, so a
            // global of the same name is what such a name means)
            let mut hidden: Vec<String> = vec![];
            // block-scoped globals shadow top-level ones in the real resolver: hide those names too
            for s in self.ctxs[0].scopes[1..].iter() {
                for v in s {
                    hidden.push(v.name.clone());
                }
            }
            for v in self.ctxs[0].scopes[0].iter().rev() {
                if !out.iter().any(|o| o.name == v.name) && !hidden.contains(&v.name) {
                    out.push(v.clone());
                }
            }
        }
        out
    }

    fn vars_of(&self, ty: &Ty) -> Vec<Var> {
        self.visible().into_iter().filter(|v| &v.ty == ty).collect()
    }

    fn fresh_name(&mut self) -> String {
        // sometimes reuse a visible or known name (shadowing / slot reuse), otherwise a new one
        let reuse_pct = match self.profile {
            Profile::Scopes => 45,
            _ => 12,
        };
        if self.profile == Profile::Scopes && self.r.below(100) < 6 {
            // redeclaration in the same scope: the later declaration takes over
            let cur: Vec<String> = self.ctxs.last().unwrap().scopes.last().unwrap().iter().map(|v| v.name.clone()).collect();
            if !cur.is_empty() {
                return cur[self.r.below(cur.len() as u64) as usize].clone();
            }
        }
        if self.r.below(100) < reuse_pct {
            let depth_ok = self.ctxs.last().unwrap().scopes.len() > 1 || self.in_function();
            if depth_ok {
                let vis = self.visible();
                // only shadow from an inner scope: never redeclare in the same scope by accident here
                let cur: Vec<String> = self.ctxs.last().unwrap().scopes.last().unwrap().iter().map(|v| v.name.clone()).collect();
                let cands: Vec<&Var> = vis.iter().filter(|v| !cur.contains(&v.name)).collect();
                if !cands.is_empty() {
                    let v = cands[self.r.below(cands.len() as u64) as usize];
                    return v.name.clone();
                }
            }
        }
        self.name_counter += 1;
        let base = NAMES[self.r.below(NAMES.len() as u64) as usize];
        format!("{}{}", base, self.name_counter)
    }

    fn declare(&mut self, name: &str, ty: Ty, assignable: bool) {
        let toplevel = self.ctxs.len() == 1 && self.ctxs[0].scopes.len() == 1;
        let c = self.cx();
        c.scopes.last_mut().unwrap().push(Var {
            name: name.to_string(),
            ty,
            assignable,
            mutable_str: false,
            toplevel,
        });
    }

    fn spend(&mut self, n: i64) -> bool {
        self.budget -= n;
        self.budget > 0
    }

    // -------------------------------------------------------------------------------------------
    // expressions

    fn small_int(&mut self) -> i64 {
        match self.r.below(12) {
            0 => 0,
            1 => 1,
            2 => -1,
            3..=7 => self.r.range(-20, 100),
            8 => self.r.range(-100000, 100000),
            9 => *self.r.pick(&[255, 256, 65535, 65536, 2147483647, 2147483648, -2147483648]),
            10 => *self.r.pick(&[crate::props::MAX_INT, crate::props::MIN_INT + 1, 1 << 59, (1 << 59) - 1]),
            _ => self.r.range(2, 9),
        }
    }

    pub fn random_type(&mut self, depth: usize) -> Ty {
        let w: [u32; 6] = match self.profile {
            Profile::Heap => [3, 3, 1, 4, 6, 0],
            Profile::Fusable => [8, 1, 2, 1, 1, 0],
            _ => [6, 2, 2, 3, 3, 0],
        };
        match self.r.weighted(&w) {
            0 => Ty::Int,
            1 => Ty::Float,
            2 => Ty::Bool,
            3 => Ty::Str,
            _ => {
                if depth >= 2 {
                    Ty::Arr(Box::new(Ty::Int))
                } else {
                    let inner = match self.r.below(6) {
                        0 => Ty::Float,
                        1 => Ty::Str,
                        2 => Ty::Arr(Box::new(Ty::Int)),
                        _ => Ty::Int,
                    };
                    Ty::Arr(Box::new(inner))
                }
            }
        }
    }

    fn fault(&mut self, want: &Ty) -> Option<Expr> {
        if !self.fault_pending || self.r.below(6) != 0 {
            return None;
        }
        self.fault_pending = false;
        // inside a nested function: a local of the enclosing function is not visible (reference error)
        if self.ctxs.len() > 2 && self.r.chance(1, 2) {
            let own: Vec<String> = self.ctxs.last().unwrap().scopes.iter().flatten().map(|v| v.name.clone()).collect();
            let globals: Vec<String> = self.ctxs[0].scopes.iter().flatten().map(|v| v.name.clone()).collect();
            let cands: Vec<String> = self.ctxs[1..self.ctxs.len() - 1]
                .iter()
                .flat_map(|c| c.scopes.iter().flatten().map(|v| v.name.clone()))
                .filter(|n| !own.contains(n) && !globals.contains(n))
                .collect();
            if !cands.is_empty() {
                let n = cands[self.r.below(cands.len() as u64) as usize].clone();
                self.fault_used = Some("enclosing-local-not-visible");
                return Some(ident(&n));
            }
        }
        // a variable that does not hold an int, combined with an int literal (either side): a type error on the
        // generic path, and it must be one on the specialised <op>LocalConst path as well
        if self.r.chance(1, 4) {
            let vs: Vec<Var> = self.visible().into_iter().filter(|v| matches!(v.ty, Ty::Str | Ty::Float | Ty::Bool | Ty::Arr(_)) && !v.mutable_str).collect();
            if !vs.is_empty() {
                let v = ident(&vs[self.r.below(vs.len() as u64) as usize].name);
                let op = *self.r.pick(&[Op::Add, Op::Subtract, Op::Multiply, Op::Divide, Op::Modulo, Op::Lt, Op::Lte, Op::Gt, Op::Gte, Op::Eq, Op::Neq, Op::Eq, Op::Neq]);
                let lit_ = Expr::Int(self.r.range(0, 9));
                self.fault_used = Some("non-int-variable-with-int-literal");
                return Some(if self.r.chance(1, 2) { infix(v, op, lit_) } else { infix(lit_, op, v) });
            }
        }
        let k = self.r.below(6);
        let (name, e) = match k {
            0 => ("zero-divisor", infix(Expr::Int(self.small_int().abs().min(1000) + 1), if self.r.chance(1, 2) { Op::Divide } else { Op::Modulo }, Expr::Int(0))),
            1 => ("index-out-of-range", index(Expr::Array(vec![Expr::Int(1), Expr::Int(2)]), int(*self.r.pick(&[2, 3, -3, 99])))),
            2 => ("undeclared-name", ident("onbekend_q")),
            3 => ("wrong-type-operand", infix(Expr::Str("a".into()), Op::Add, Expr::Int(1))),
            4 => match self.var_expr(&Ty::Int) {
                Some(v) => ("not-callable", call(v, vec![])),
                None => ("zero-divisor", infix(Expr::Int(3), Op::Divide, Expr::Int(0))),
            },
            _ => ("condition-not-bool", Expr::If {
                cond: Box::new(Expr::Int(1)),
                cons: vec![Stmt::Expr(Expr::Int(1))],
                alt: None,
            }),
        };
        let _ = want;
        self.fault_used = Some(name);
        Some(e)
    }

    pub fn expr(&mut self, ty: &Ty, depth: usize) -> Expr {
        self.spend(1);
        if let Some(f) = self.fault(ty) {
            return f;
        }
        let leaf = depth >= self.max_depth || self.budget <= 0;
        match ty {
            Ty::Int => self.int_expr(depth, leaf),
            Ty::Float => self.float_expr(depth, leaf),
            Ty::Bool => self.bool_expr(depth, leaf),
            Ty::Str => self.str_expr(depth, leaf),
            Ty::Arr(inner) => self.arr_expr(inner, depth, leaf),
            Ty::Func(n, ret) => self.func_literal("", *n, ret),
            Ty::Null => {
                if !self.pure_only && self.r.chance(1, 2) {
                    if let Some(c) = self.call_of(&Ty::Null, depth) {
                        return c;
                    }
                }
                if self.pure_only {
                    Expr::If { cond: Box::new(Expr::Bool(false)), cons: vec![Stmt::Expr(Expr::Int(1))], alt: None }
                } else {
                    let a = self.print_call(depth);
                    a
                }
            }
            Ty::Junk => Expr::Int(0),
        }
    }

    fn var_expr(&mut self, ty: &Ty) -> Option<Expr> {
        let vs: Vec<Var> = self.vars_of(ty).into_iter().filter(|v| !v.mutable_str).collect();
        if vs.is_empty() {
            None
        } else {
            Some(ident(&vs[self.r.below(vs.len() as u64) as usize].name))
        }
    }

    fn if_expr(&mut self, ty: &Ty, depth: usize) -> Expr {
        let c = self.expr(&Ty::Bool, depth + 1);
        let cons = self.value_block(ty, depth + 1);
        let alt = self.value_block(ty, depth + 1);
        let alt = if self.r.chance(1, 4) && !self.pure_only {
            // else-if chain
            let c2 = self.expr(&Ty::Bool, depth + 1);
            let cons2 = self.value_block(ty, depth + 1);
            vec![Stmt::Expr(Expr::If { cond: Box::new(c2), cons: cons2, alt: Some(alt) })]
        } else {
            alt
        };
        Expr::If { cond: Box::new(c), cons, alt: Some(alt) }
    }

    /// a block whose value is an expression of type `ty`, possibly preceded by statements
    fn value_block(&mut self, ty: &Ty, depth: usize) -> Vec<Stmt> {
        self.cx().scopes.push(vec![]);
        let mut b = vec![];
        if !self.pure_only && self.budget > 6 && self.r.chance(1, 3) {
            let n = self.r.range(1, 2);
            for _ in 0..n {
                if let Some(s) = self.stmt(depth + 1) {
                    b.push(s);
                }
            }
        }
        let nested = !self.pure_only && self.r.chance(1, 10);
        if nested {
            // value through a nested block statement
            self.cx().scopes.push(vec![]);
            let e = self.expr(ty, depth + 1);
            self.cx().scopes.pop();
            b.push(Stmt::Block(vec![Stmt::Expr(e)]));
        } else {
            let e = self.expr(ty, depth + 1);
            b.push(Stmt::Expr(e));
        }
        self.cx().scopes.pop();
        b
    }

    fn call_of(&mut self, ret: &Ty, depth: usize) -> Option<Expr> {
        if self.pure_only {
            return None;
        }
        let cands: Vec<Var> = self
            .visible()
            .into_iter()
            .filter(|v| matches!(&v.ty, Ty::Func(_, r) if **r == *ret))
            .collect();
        if cands.is_empty() {
            return None;
        }
        let f = cands[self.r.below(cands.len() as u64) as usize].clone();
        let n = match &f.ty {
            Ty::Func(n, _) => *n,
            _ => 0,
        };
        let mut args = vec![];
        for _ in 0..n {
            // keep arguments small so that recursion helpers stay shallow
            let a = if self.r.chance(1, 2) { Expr::Int(self.r.range(0, 6)) } else { self.bounded_int_expr(depth + 1) };
            args.push(a);
        }
        Some(calln(&f.name, args))
    }

    /// an int expression whose value is small (used as recursion depth / loop bound): x % 7 style
    fn bounded_int_expr(&mut self, depth: usize) -> Expr {
        let e = self.int_expr(depth + 1, true);
        // ((e % 5) + 5) % 5 is in 0..4 whatever e is
        infix(infix(infix(e, Op::Modulo, Expr::Int(5)), Op::Add, Expr::Int(5)), Op::Modulo, Expr::Int(5))
    }

    fn int_expr(&mut self, depth: usize, leaf: bool) -> Expr {
        if leaf {
            if self.r.chance(1, 2) {
                if let Some(v) = self.var_expr(&Ty::Int) {
                    return v;
                }
            }
            return int(self.small_int());
        }
        let fus = self.profile == Profile::Fusable;
        let w: [u32; 12] = if fus { [10, 6, 30, 2, 2, 2, 2, 2, 1, 1, 3, 1] } else { [10, 8, 14, 4, 3, 5, 4, 4, 2, 2, 4, 2] };
        match self.r.weighted(&w) {
            0 => int(self.small_int()),
            1 => self.var_expr(&Ty::Int).unwrap_or_else(|| int(self.small_int())),
            2 => {
                // arithmetic; in the fusable profile prefer `ident op literal` and `literal op ident`
                let op = *self.r.pick(&[Op::Add, Op::Subtract, Op::Multiply, Op::Divide, Op::Modulo, Op::Add, Op::Subtract]);
                let (l, r) = if fus || self.r.chance(1, 3) {
                    let v = self.var_expr(&Ty::Int).unwrap_or_else(|| int(self.small_int()));
                    let lit_v = if matches!(op, Op::Divide | Op::Modulo) { self.r.range(1, 9) } else { self.r.range(0, 12) };
                    if self.r.chance(1, 2) {
                        (v, Expr::Int(lit_v))
                    } else if matches!(op, Op::Divide | Op::Modulo) {
                        (Expr::Int(lit_v), infix(infix(v, Op::Multiply, Expr::Int(0)), Op::Add, Expr::Int(self.r.range(1, 7))))
                    } else {
                        (Expr::Int(lit_v), v)
                    }
                } else {
                    let l = self.expr(&Ty::Int, depth + 1);
                    let r = if matches!(op, Op::Divide | Op::Modulo) && !self.r.chance(1, 12) {
                        int(*self.r.pick(&[1, 2, 3, 7, -2, 10]))
                    } else {
                        self.expr(&Ty::Int, depth + 1)
                    };
                    (l, r)
                };
                infix(l, op, r)
            }
            3 => prefix(Op::Subtract, self.expr(&Ty::Int, depth + 1)),
            4 => {
                // lengte of a string / array
                if self.r.chance(1, 2) {
                    calln("lengte", vec![self.expr(&Ty::Str, depth + 1)])
                } else {
                    let t = Ty::Arr(Box::new(Ty::Int));
                    calln("lengte", vec![self.expr(&t, depth + 1)])
                }
            }
            5 => {
                // element of an int array (literal index mostly in range)
                let t = Ty::Arr(Box::new(Ty::Int));
                self.index_read(&t, depth)
            }
            6 => self.call_of(&Ty::Int, depth).unwrap_or_else(|| int(self.small_int())),
            7 => self.if_expr(&Ty::Int, depth),
            8 => match self.r.below(3) {
                0 => calln("int", vec![self.expr(&Ty::Bool, depth + 1)]),
                1 => calln("int", vec![Expr::Str(format!("{}", self.small_int()))]),
                _ => calln("int", vec![self.expr(&Ty::Int, depth + 1)]),
            },
            9 => {
                if self.pure_only {
                    return int(self.small_int());
                }
                // assignment used as a value
                let vs: Vec<Var> = self.vars_of(&Ty::Int).into_iter().filter(|v| v.assignable).collect();
                if vs.is_empty() {
                    return int(self.small_int());
                }
                let v = vs[self.r.below(vs.len() as u64) as usize].name.clone();
                let e = self.expr(&Ty::Int, depth + 1);
                assign(ident(&v), e)
            }
            10 => {
                // comparison-free mixing: (a * 2 + b) patterns that distinguish precedence
                let a = self.expr(&Ty::Int, depth + 1);
                let b = self.expr(&Ty::Int, depth + 1);
                let c = int(self.r.range(2, 5));
                infix(infix(a, Op::Multiply, c), Op::Subtract, b)
            }
            _ => calln("int", vec![infix(self.expr(&Ty::Float, depth + 1), Op::Multiply, Expr::Float(1.0))]),
        }
    }

    fn index_read(&mut self, arr_ty: &Ty, depth: usize) -> Expr {
        // base must be an identifier or a literal (the parser refuses anything else)
        let vs = self.vars_of(arr_ty);
        let elem = match arr_ty {
            Ty::Arr(e) => (**e).clone(),
            _ => Ty::Int,
        };
        if !vs.is_empty() && self.r.chance(2, 3) {
            let v = vs[self.r.below(vs.len() as u64) as usize].name.clone();
            // length unknown statically: guard with a literal index that is usually valid (arrays are generated non-empty)
            let i = if self.r.chance(4, 5) { int(*self.r.pick(&[0, -1, 0, 0])) } else { self.bounded_int_expr(depth + 1) };
            index(ident(&v), i)
        } else {
            let n = self.r.range(1, 4) as usize;
            let items: Vec<Expr> = (0..n).map(|_| self.expr(&elem, depth + 2)).collect();
            let i = self.r.range(-(n as i64), n as i64 - 1);
            index(Expr::Array(items), int(i))
        }
    }

    fn float_expr(&mut self, depth: usize, leaf: bool) -> Expr {
        let lit = |g: &mut Gen| -> Expr {
            let f = *g.r.pick(&[0.0, 1.0, 0.5, 2.5, 3.1415, 100.25, 1e10, 0.1, 1e-3, 12345.678]);
            // now and then a negated literal (`-0.0` is a value of its own)
            if g.r.chance(1, 8) {
                return prefix(Op::Subtract, Expr::Float(f));
            }
            Expr::Float(f)
        };
        if leaf {
            if self.r.chance(1, 2) {
                if let Some(v) = self.var_expr(&Ty::Float) {
                    return v;
                }
            }
            return lit(self);
        }
        match self.r.below(8) {
            0 | 1 => lit(self),
            2 => self.var_expr(&Ty::Float).unwrap_or_else(|| lit(self)),
            3 | 4 => {
                let op = *self.r.pick(&[Op::Add, Op::Subtract, Op::Multiply, Op::Divide, Op::Modulo]);
                let l = self.expr(&Ty::Float, depth + 1);
                let r = self.expr(&Ty::Float, depth + 1);
                infix(l, op, r)
            }
            5 => calln("float", vec![self.expr(&Ty::Int, depth + 1)]),
            6 => prefix(Op::Subtract, self.expr(&Ty::Float, depth + 1)),
            _ => self.call_of(&Ty::Float, depth).unwrap_or_else(|| lit(self)),
        }
    }

    fn bool_expr(&mut self, depth: usize, leaf: bool) -> Expr {
        if leaf {
            if self.r.chance(1, 3) {
                if let Some(v) = self.var_expr(&Ty::Bool) {
                    return v;
                }
            }
            return Expr::Bool(self.r.chance(1, 2));
        }
        match self.r.below(10) {
            0 => Expr::Bool(self.r.chance(1, 2)),
            1 => self.var_expr(&Ty::Bool).unwrap_or(Expr::Bool(true)),
            2..=4 => {
                let op = *self.r.pick(&[Op::Lt, Op::Lte, Op::Gt, Op::Gte, Op::Eq, Op::Neq]);
                if self.profile == Profile::Fusable || self.r.chance(1, 3) || (self.in_function() && self.r.chance(1, 2)) {
                    let v = self.var_expr(&Ty::Int).unwrap_or_else(|| int(self.small_int()));
                    // inside functions the variable is often a parameter holding a small number: stay close to it
                    let l = Expr::Int(if self.in_function() { self.r.range(0, 6) } else { self.r.range(0, 20) });
                    if self.r.chance(1, 2) {
                        infix(v, op, l)
                    } else {
                        infix(l, op, v)
                    }
                } else {
                    let t = match self.r.below(4) {
                        0 => Ty::Float,
                        1 => Ty::Str,
                        _ => Ty::Int,
                    };
                    let l = self.expr(&t, depth + 1);
                    let r = self.expr(&t, depth + 1);
                    infix(l, op, r)
                }
            }
            5 | 6 => {
                let op = if self.r.chance(1, 2) { Op::And } else { Op::Or };
                let l = self.expr(&Ty::Bool, depth + 1);
                // right operand must be pure (§4.3(5))
                let saved = self.pure_only;
                self.pure_only = true;
                let r = self.expr(&Ty::Bool, depth + 1);
                self.pure_only = saved;
                infix(l, op, r)
            }
            7 => prefix(Op::Not, self.expr(&Ty::Bool, depth + 1)),
            8 => {
                let t = *self.r.pick(&[0, 1, 2]);
                let a = match t {
                    0 => self.expr(&Ty::Int, depth + 1),
                    1 => self.expr(&Ty::Str, depth + 1),
                    _ => self.expr(&Ty::Float, depth + 1),
                };
                calln("bool", vec![a])
            }
            _ => {
                let l = self.expr(&Ty::Bool, depth + 1);
                let r = self.expr(&Ty::Bool, depth + 1);
                infix(l, if self.r.chance(1, 2) { Op::Eq } else { Op::Neq }, r)
            }
        }
    }

    fn str_lit(&mut self) -> Expr {
        Expr::Str(STRS[self.r.below(STRS.len() as u64) as usize].to_string())
    }

    fn str_expr(&mut self, depth: usize, leaf: bool) -> Expr {
        if leaf {
            if self.r.chance(1, 2) {
                if let Some(v) = self.var_expr(&Ty::Str) {
                    return v;
                }
            }
            return self.str_lit();
        }
        match self.r.below(9) {
            0 | 1 => self.str_lit(),
            2 | 3 => self.var_expr(&Ty::Str).unwrap_or_else(|| self.str_lit()),
            4 => {
                let t = match self.r.below(3) {
                    0 => Ty::Int,
                    1 => Ty::Bool,
                    _ => Ty::Float,
                };
                let a = if t == Ty::Float {
                    // keep floats printable (finite)
                    Expr::Float(*self.r.pick(&[0.5, 2.0, 1e21, 0.1, 123.456]))
                } else {
                    self.expr(&t, depth + 1)
                };
                calln("string", vec![a])
            }
            5 => {
                // one character of a string
                let vs: Vec<Var> = self.vars_of(&Ty::Str);
                if !vs.is_empty() && self.r.chance(1, 2) {
                    let v = vs[self.r.below(vs.len() as u64) as usize].name.clone();
                    // may be out of range for short strings: an index error is a specified outcome
                    index(ident(&v), int(*self.r.pick(&[0, -1, 0, 1])))
                } else {
                    let s = STRS[1 + self.r.below(STRS.len() as u64 - 1) as usize];
                    let n = s.chars().count() as i64;
                    index(Expr::Str(s.to_string()), int(self.r.range(-n, n - 1)))
                }
            }
            6 => {
                let t = self.random_type(2);
                let a = self.expr(&t, depth + 1);
                calln("type", vec![a])
            }
            7 => self.if_expr(&Ty::Str, depth),
            _ => self.call_of(&Ty::Str, depth).unwrap_or_else(|| self.str_lit()),
        }
    }

    fn arr_expr(&mut self, inner: &Ty, depth: usize, leaf: bool) -> Expr {
        let ty = Ty::Arr(Box::new(inner.clone()));
        if !leaf || self.r.chance(1, 2) {
            if self.r.chance(1, 3) {
                if let Some(v) = self.var_expr(&ty) {
                    return v;
                }
            }
            if self.r.chance(1, 8) {
                if let Some(c) = self.call_of(&ty, depth) {
                    return c;
                }
            }
        }
        let n = if leaf { self.r.range(1, 2) } else { self.r.range(1, 4) };
        let items: Vec<Expr> = (0..n).map(|_| self.expr(inner, depth + 1)).collect();
        Expr::Array(items)
    }

    fn print_call(&mut self, depth: usize) -> Expr {
        let n = self.r.below(4) as usize;
        let mut args = vec![];
        if self.r.chance(3, 4) {
            let mut f = String::new();
            for _ in 0..n {
                let piece: &str = *self.r.pick(&["v{}={} ", "{} ", "[{}]", "{}", "x={}, "]);
                f.push_str(piece);
            }
            if n == 0 {
                let piece: &str = *self.r.pick(&["klaar", "", "stap"]);
                f.push_str(piece);
            }
            // the format is generated with exactly n placeholders
            let count = f.matches("{}").count();
            args.push(Expr::Str(f));
            for _ in 0..count {
                let t = self.random_type(1);
                let a = self.printable(&t, depth + 1);
                args.push(a);
            }
        } else {
            let t = self.random_type(1);
            let a = self.printable(&t, depth + 1);
            args.push(a);
        }
        calln("print", args)
    }

    /// expression whose rendering is specified (finite floats)
    fn printable(&mut self, t: &Ty, depth: usize) -> Expr {
        match t {
            Ty::Float => {
                if let Some(v) = self.var_expr(&Ty::Float) {
                    // guard against inf/NaN: print through a comparison instead
                    return infix(v, Op::Lt, Expr::Float(1.5));
                }
                Expr::Float(*self.r.pick(&[0.5, 2.0, 0.1, 3.25, 100.0]))
            }
            Ty::Arr(inner) if **inner == Ty::Float => {
                Expr::Array(vec![Expr::Float(0.5), Expr::Float(2.25)])
            }
            other => self.expr(other, depth),
        }
    }

    fn func_literal(&mut self, name: &str, nparams: usize, ret: &Ty) -> Expr {
        // parameters are ints
        let mut params = vec![];
        self.ctxs.push(Ctx {
            scopes: vec![vec![]],
            in_loop: false,
            ret: Some(ret.clone()),
        });
        for _ in 0..nparams {
            let p = loop {
                let p = self.fresh_name();
                if !params.contains(&p) {
                    break p;
                }
            };
            self.declare(&p, Ty::Int, true);
            params.push(p);
        }
        let saved_depth = self.max_depth;
        self.max_depth = 3;
        self.cx().scopes.push(vec![]);
        let mut body = vec![];
        let n = self.r.range(0, 3);
        for _ in 0..n {
            if let Some(s) = self.stmt(1) {
                body.push(s);
            }
        }
        // early return sometimes
        if self.r.chance(1, 4) {
            let c = self.expr(&Ty::Bool, 2);
            let e = self.expr(ret, 2);
            body.push(Stmt::Expr(Expr::If { cond: Box::new(c), cons: vec![Stmt::Return(e)], alt: None }));
        }
        if *ret == Ty::Null && self.r.chance(1, 4) {
            // a procedure whose last statement is an if without else that returns: the call yields 0 or null
            let c = self.expr(&Ty::Bool, 2);
            let inner = Stmt::Expr(Expr::If { cond: Box::new(c), cons: vec![Stmt::Return(Expr::Int(0))], alt: None });
            body.push(if self.r.chance(1, 3) { Stmt::Block(vec![inner]) } else { inner });
        } else if *ret == Ty::Null {
            // a procedure: the body ends in a declaration (or in nothing at all), so the call yields null
            if self.r.chance(2, 3) || body.is_empty() && self.r.chance(1, 2) {
                let init = self.expr(&Ty::Int, 2);
                body.push(Stmt::Let(format!("slot{}", self.name_counter), init));
            } else if !matches!(body.last(), Some(Stmt::Let(..)) | None) {
                body.clear();
            }
        } else {
            let e = self.expr(ret, 1);
            if self.r.chance(1, 3) {
                body.push(Stmt::Return(e));
                if self.r.chance(1, 5) {
                    // dead code after the final antwoord
                    body.push(Stmt::Expr(self.print_call(2)));
                    let dead = self.expr(ret, 2);
                    body.push(Stmt::Expr(dead));
                }
            } else {
                body.push(Stmt::Expr(e));
            }
        }
        self.cx().scopes.pop();
        self.max_depth = saved_depth;
        self.ctxs.pop();
        Expr::Function { name: name.to_string(), params, body }
    }

    // -------------------------------------------------------------------------------------------
    // statements

    fn stmt(&mut self, depth: usize) -> Option<Stmt> {
        if !self.spend(2) {
            return None;
        }
        let deep = depth >= 4;
        let w: [u32; 12] = match self.profile {
            //                 let asg opa idx prt if  whl blk fun brk ret expr
            Profile::Control => [6, 5, 4, 1, 4, 12, 10, 4, 2, 8, 3, 2],
            Profile::Calls => [6, 3, 3, 1, 3, 4, 3, 1, 12, 2, 3, 6],
            Profile::Scopes => [12, 6, 3, 1, 3, 6, 4, 10, 6, 2, 2, 2],
            Profile::Heap => [10, 5, 1, 10, 4, 4, 5, 2, 5, 1, 1, 4],
            Profile::Fusable => [6, 6, 6, 1, 3, 5, 5, 1, 8, 2, 2, 3],
            Profile::General => [8, 5, 4, 3, 4, 6, 5, 3, 5, 3, 2, 3],
        };
        let k = self.r.weighted(&w);
        match k {
            0 => Some(self.let_stmt(depth)),
            1 => self.assign_stmt(depth).or_else(|| Some(self.let_stmt(depth))),
            2 => self.opassign_stmt(depth).or_else(|| Some(self.let_stmt(depth))),
            3 => self.index_assign_stmt(depth).or_else(|| Some(self.let_stmt(depth))),
            4 => Some(Stmt::Expr(self.print_call(depth))),
            5 if !deep => Some(self.if_stmt(depth)),
            6 if !deep => Some(self.while_stmt(depth)),
            7 if !deep => {
                self.cx().scopes.push(vec![]);
                let n = self.r.range(0, 3);
                let mut b = vec![];
                for _ in 0..n {
                    if let Some(s) = self.stmt(depth + 1) {
                        b.push(s);
                    }
                }
                self.cx().scopes.pop();
                Some(Stmt::Block(b))
            }
            8 if !deep && self.ctxs.len() <= 2 => Some(self.func_stmt()),
            9 if self.ctxs.last().unwrap().in_loop => {
                // guarded early exit
                let c = self.expr(&Ty::Bool, depth + 1);
                let s = if self.r.chance(1, 2) { Stmt::Break } else { Stmt::Continue };
                let mut cons = vec![];
                if self.r.chance(1, 3) {
                    cons.push(Stmt::Expr(self.print_call(depth + 1)));
                }
                cons.push(s);
                // statements after the exit, in the same block: never executed, but compiled and checked like any other
                if self.r.chance(1, 4) {
                    cons.push(Stmt::Expr(self.print_call(depth + 1)));
                    if self.r.chance(1, 2) {
                        cons.push(Stmt::Expr(self.expr(&Ty::Int, depth + 1)));
                    }
                }
                Some(Stmt::Expr(Expr::If { cond: Box::new(c), cons, alt: None }))
            }
            10 if self.in_function() => {
                let ret = self.ctxs.last().unwrap().ret.clone().unwrap_or(Ty::Int);
                let c = self.expr(&Ty::Bool, depth + 1);
                let e = self.expr(&ret, depth + 1);
                let mut cons = vec![Stmt::Return(e)];
                if self.r.chance(1, 4) {
                    cons.push(Stmt::Expr(self.print_call(depth + 1)));
                    if self.r.chance(1, 2) {
                        cons.push(Stmt::Expr(self.expr(&Ty::Int, depth + 1)));
                    }
                }
                Some(Stmt::Expr(Expr::If { cond: Box::new(c), cons, alt: None }))
            }
            _ => {
                // expression statement: a call with effects or any expression (its value becomes the
                // "last statement's value"), now and then a call of a procedure right after it
                if self.r.chance(1, 5) {
                    if let Some(c) = self.call_of(&Ty::Null, depth) {
                        return Some(Stmt::Expr(c));
                    }
                }
                let t = self.random_type(1);
                Some(Stmt::Expr(self.expr(&t, depth + 1)))
            }
        }
    }

    fn let_stmt(&mut self, depth: usize) -> Stmt {
        let name = self.fresh_name();
        // value position for loops / ifs sometimes (the stored value is never used when it is ⊥)
        if self.r.chance(1, 14) && depth < 3 && !self.pure_only {
            // `stel r = zolang … { … }`: the value is ⊥ after an iteration, so r is never used
            if let Stmt::Block(mut parts) = self.while_stmt(depth) {
                if let Some(Stmt::Expr(w)) = parts.pop() {
                    parts.push(Stmt::Let(name, w));
                    return Stmt::Block(parts);
                }
            }
            unreachable!();
        }
        if self.r.chance(1, 14) && depth < 3 && !self.pure_only {
            // an if in value position whose branches end in a declaration / nothing
            let c = self.expr(&Ty::Bool, depth + 1);
            let mut cons = self.body_block(depth, 0, 2);
            if self.r.chance(1, 2) {
                cons.push(Stmt::Let(format!("q{}", self.name_counter), Expr::Int(1)));
            }
            let alt = if self.r.chance(1, 2) { Some(self.body_block(depth, 0, 2)) } else { None };
            self.declare(&name, Ty::Junk, false);
            return Stmt::Let(name, Expr::If { cond: Box::new(c), cons, alt });
        }
        let ty = self.random_type(0);
        let e = self.expr(&ty, depth + 1);
        self.declare(&name, ty.clone(), true);
        if ty == Ty::Str && self.r.chance(1, 3) && matches!(e, Expr::Str(_) | Expr::Call { .. }) {
            // reserve for in-place mutation (only when initialised from a fresh object)
            if let Some(v) = self.cx().scopes.last_mut().unwrap().last_mut() {
                v.mutable_str = matches!(e, Expr::Str(_));
            }
        }
        Stmt::Let(name, e)
    }

    fn assign_stmt(&mut self, depth: usize) -> Option<Stmt> {
        let vs: Vec<Var> = self.visible().into_iter().filter(|v| v.assignable && !v.mutable_str && !matches!(v.ty, Ty::Func(..) | Ty::Junk | Ty::Null)).collect();
        if vs.is_empty() {
            return None;
        }
        let v = vs[self.r.below(vs.len() as u64) as usize].clone();
        let e = self.expr(&v.ty, depth + 1);
        Some(Stmt::Expr(assign(ident(&v.name), e)))
    }

    fn opassign_stmt(&mut self, depth: usize) -> Option<Stmt> {
        let vs: Vec<Var> = self.visible().into_iter().filter(|v| v.assignable && matches!(v.ty, Ty::Int | Ty::Float)).collect();
        if vs.is_empty() {
            return None;
        }
        let v = vs[self.r.below(vs.len() as u64) as usize].clone();
        let op = *self.r.pick(&[Op::Add, Op::Subtract, Op::Multiply, Op::Divide, Op::Modulo, Op::Add]);
        let e = if matches!(op, Op::Divide | Op::Modulo) && v.ty == Ty::Int {
            int(*self.r.pick(&[1, 2, 3, 5, -3]))
        } else if self.profile == Profile::Fusable && v.ty == Ty::Int {
            Expr::Int(self.r.range(0, 9))
        } else {
            self.expr(&v.ty, depth + 1)
        };
        Some(Stmt::Expr(assign(ident(&v.name), infix(ident(&v.name), op, e))))
    }

    fn index_assign_stmt(&mut self, depth: usize) -> Option<Stmt> {
        let vs: Vec<Var> = self.visible().into_iter().filter(|v| matches!(v.ty, Ty::Arr(_)) || v.mutable_str).collect();
        if vs.is_empty() {
            return None;
        }
        let v = vs[self.r.below(vs.len() as u64) as usize].clone();
        match &v.ty {
            Ty::Arr(inner) => {
                let e = self.expr(inner, depth + 1);
                let i = int(*self.r.pick(&[0, -1, 0, 1, 5]));
                Some(Stmt::Expr(assign(index(ident(&v.name), i), e)))
            }
            _ => {
                let ch = *self.r.pick(&["x", "é", "💖", "€", "Z"]);
                let i = int(*self.r.pick(&[0, -1, 1, 0, 9]));
                Some(Stmt::Expr(assign(index(ident(&v.name), i), Expr::Str(ch.to_string()))))
            }
        }
    }

    fn body_block(&mut self, depth: usize, min: i64, max: i64) -> Vec<Stmt> {
        self.cx().scopes.push(vec![]);
        let n = self.r.range(min, max);
        let mut b = vec![];
        for _ in 0..n {
            if let Some(s) = self.stmt(depth + 1) {
                b.push(s);
            }
        }
        self.cx().scopes.pop();
        b
    }

    fn if_stmt(&mut self, depth: usize) -> Stmt {
        let c = self.expr(&Ty::Bool, depth + 1);
        let cons = self.body_block(depth, 0, 3);
        let alt = match self.r.below(4) {
            0 => None,
            1 => {
                let c2 = self.expr(&Ty::Bool, depth + 1);
                let cons2 = self.body_block(depth, 0, 2);
                let alt2 = if self.r.chance(1, 2) { Some(self.body_block(depth, 0, 2)) } else { None };
                Some(vec![Stmt::Expr(Expr::If { cond: Box::new(c2), cons: cons2, alt: alt2 })])
            }
            _ => Some(self.body_block(depth, 0, 3)),
        };
        Stmt::Expr(Expr::If { cond: Box::new(c), cons, alt })
    }

    /// counted loop: `stel i = 0` must be emitted before; returns the loop as an expression statement
    /// wrapped in a block together with its counter declaration
    fn while_stmt(&mut self, depth: usize) -> Stmt {
        // the counter is declared in the enclosing scope by a preceding statement; to keep this a
        // single statement we wrap counter + loop in a block, except when used in value position
        let i = {
            self.name_counter += 1;
            format!("i{}", self.name_counter)
        };
        let n = match self.profile {
            Profile::Control => *self.r.pick(&[0, 1, 2, 3, 5]),
            _ => self.r.range(0, 4),
        };
        self.cx().scopes.push(vec![]);
        self.declare(&i, Ty::Int, false);
        let was_loop = self.cx().in_loop;
        self.cx().in_loop = true;
        self.cx().scopes.push(vec![]);
        let mut body = vec![Stmt::Expr(assign(ident(&i), infix(ident(&i), Op::Add, Expr::Int(1))))];
        let k = self.r.range(0, 3);
        for _ in 0..k {
            if let Some(s) = self.stmt(depth + 2) {
                body.push(s);
            }
        }
        self.cx().scopes.pop();
        self.cx().in_loop = was_loop;
        self.cx().scopes.pop();
        let cond = if self.r.chance(1, 2) { infix(ident(&i), Op::Lt, Expr::Int(n)) } else { infix(Expr::Int(n), Op::Gt, ident(&i)) };
        let w = Expr::While { cond: Box::new(cond), body };
        Stmt::Block(vec![Stmt::Let(i, Expr::Int(0)), Stmt::Expr(w)])
    }

    fn func_stmt(&mut self) -> Stmt {
        let name = {
            self.name_counter += 1;
            format!("f{}", self.name_counter)
        };
        let nparams = self.r.range(0, if self.profile == Profile::Calls { 4 } else { 2 }) as usize;
        let ret = match self.r.below(7) {
            0 => Ty::Str,
            1 => Ty::Arr(Box::new(Ty::Int)),
            2 => Ty::Float,
            3 => Ty::Null,
            _ => Ty::Int,
        };
        let recursive = nparams >= 1 && self.ctxs.len() == 1 && self.ctxs[0].scopes.len() == 1 && ret == Ty::Int && self.r.chance(1, 3);
        if recursive {
            // f(n, ...) = als n <= 0 { base } anders-path: combine f(n - 1, ...)
            let mut params = vec![];
            for k in 0..nparams {
                params.push(format!("p{}_{}", self.name_counter, k));
            }
            let n = params[0].clone();
            let base = int(self.r.range(0, 5));
            let mut rec_args = vec![infix(ident(&n), Op::Subtract, Expr::Int(1))];
            for p in &params[1..] {
                rec_args.push(infix(ident(p), Op::Add, Expr::Int(1)));
            }
            let combine = match self.r.below(3) {
                0 => infix(ident(&n), Op::Add, calln(&name, rec_args)),
                1 => infix(calln(&name, rec_args.clone()), Op::Add, infix(ident(params.last().unwrap()), Op::Multiply, Expr::Int(2))),
                _ => Expr::Array(vec![Expr::Int(0), calln(&name, rec_args)]).clone().pipe_index(1),
            };
            let body = vec![
                Stmt::Expr(Expr::If {
                    cond: Box::new(infix(ident(&n), Op::Lte, Expr::Int(0))),
                    cons: vec![Stmt::Return(base)],
                    alt: None,
                }),
                Stmt::Expr(combine),
            ];
            self.declare(&name, Ty::Func(nparams, Box::new(Ty::Int)), false);
            return Stmt::Expr(Expr::Function { name, params, body });
        }
        // declare after generating the body (no accidental unbounded recursion), but the name is
        // visible to later code
        let f = self.func_literal(&name, nparams, &ret);
        self.declare(&name, Ty::Func(nparams, Box::new(ret)), false);
        if self.r.chance(1, 4) {
            // anonymous function stored in a variable instead of a named one
            if let Expr::Function { params, body, .. } = f {
                return Stmt::Let(name, Expr::Function { name: String::new(), params, body });
            }
            unreachable!()
        }
        Stmt::Expr(f)
    }

    /// final statement: fold every visible top-level variable into one array value
    fn fold(&mut self) -> Stmt {
        let mut items = vec![];
        for v in self.visible() {
            let e = match &v.ty {
                Ty::Func(..) => calln("type", vec![ident(&v.name)]),
                Ty::Junk => continue,
                Ty::Float => infix(ident(&v.name), Op::Multiply, Expr::Float(1.0)),
                _ => ident(&v.name),
            };
            items.push(e);
        }
        Stmt::Expr(Expr::Array(items))
    }

    pub fn program(&mut self) -> Vec<Stmt> {
        let mut prog = vec![];
        // a few declarations first so that expressions have something to talk about
        let n0 = self.r.range(1, 3);
        for _ in 0..n0 {
            prog.push(self.let_stmt(0));
        }
        while self.budget > 0 {
            match self.stmt(0) {
                Some(s) => prog.push(s),
                None => break,
            }
        }
        prog.push(self.fold());
        prog
    }
}

trait PipeIndex {
    fn pipe_index(self, i: i64) -> Expr;
}
impl PipeIndex for Expr {
    fn pipe_index(self, i: i64) -> Expr {
        index(self, Expr::Int(i))
    }
}

/// One random program for (seed, index)
pub fn random_program(r: &mut Rng, profile: Profile) -> (Vec<Stmt>, Option<&'static str>) {
    // one program in six comes from the structure-first generator (wild.rs): every consumer of generated programs
    // (differential, metamorphic, bytecode, heap, session and front-end checks) sees its shapes as well
    if r.below(6) == 0 {
        return (crate::wild::wild_program(r), None);
    }
    typed_program(r, profile)
}

/// a type-directed program of the given profile
pub fn typed_program(r: &mut Rng, profile: Profile) -> (Vec<Stmt>, Option<&'static str>) {
    let budget = size_class(r);
    let with_fault = r.below(100) < 15;
    let mut g = Gen::new(r, profile, budget, with_fault);
    let p = g.program();
    (p, g.fault_used)
}
