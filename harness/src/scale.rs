//! Programs that are ordinary in everything but SIZE: N distinct constants, N globals, N locals, N arguments, N array
//! elements alive across a collection, bodies of N statements (jump distances), strings of N characters, N functions,
//! N arms, N collections — for N around every power of two an implementation is likely to have chosen as the width of
//! something (64-bit words of a bitmap, u8 and u16 operands, 16-bit stack indices).
//!
//! The texts are built directly (no tree); the oracle is whatever the consumer uses (the reference interpreter on the
//! parsed tree for C01, the bytecode checker and the probes for C02, the heap monitors for C03 / C04).

const SMALL: [usize; 12] = [1, 2, 63, 64, 65, 127, 128, 129, 254, 255, 256, 257];
const MEDIUM: [usize; 6] = [300, 1000, 4095, 4096, 4097, 10_000];
const LARGE: [usize; 4] = [65_534, 65_535, 65_536, 70_000];

fn join<F: Fn(usize) -> String>(n: usize, sep: &str, f: F) -> String {
    let mut s = String::new();
    for k in 0..n {
        if k > 0 {
            s.push_str(sep);
        }
        s.push_str(&f(k));
    }
    s
}

/// (name, text) of every scale program; `big`: include the sizes around 65 536 (slow under sanitizers)
pub fn programs(big: bool) -> Vec<(String, String)> {
    let mut v: Vec<(String, String)> = vec![];
    let mut sizes: Vec<usize> = SMALL.to_vec();
    sizes.extend(MEDIUM);
    let mut large: Vec<usize> = sizes.clone();
    if big {
        large.extend(LARGE);
    }
    for &n in &large {
        // N distinct integer constants, one per statement
        v.push((format!("int-constants-{}", n), format!("stel t = 0; {}; t", join(n, "; ", |k| format!("t = t + {}", 1000 + k)))));
        // N floats alive in one array across a collection
        v.push((
            format!("floats-alive-{}", n),
            format!("functie f() {{ 0 }}; stel a = [{}]; f(); stel b = [f(), 2.5]; [lengte(a), a[0], a[{}], a[-{}], a[{}], b]", join(n, ", ", |k| format!("{}.5", k)), n - 1, n, n / 2),
        ));
        // N distinct string constants, alive across two collections
        v.push((
            format!("strings-alive-{}", n),
            format!("functie f(x) {{ x }}; stel a = [{}]; f(1); stel m = a[{}]; f(2); [lengte(a), a[0], m, a[{}]]", join(n, ", ", |k| format!("\"s{}\"", k)), n / 2, n - 1),
        ));
        // N globals
        v.push((format!("globals-{}", n), format!("{}; functie f() {{ g0 + g{} + g{} }}; [f(), g{}]", join(n, "; ", |k| format!("stel g{} = {}", k, k)), n - 1, n / 2, n - 1)));
        // a body of N statements on each side of a branch, and in a loop (jump distances)
        v.push((format!("branch-bodies-{}", n), format!("stel x = 0; als x == 0 {{ {} }} anders {{ {} }}; als x < 0 {{ {} }} anders {{ x = x + 7 }}; x", join(n, "; ", |_| "x = x + 1".into()), join(n, "; ", |_| "x = x - 1".into()), join(n, "; ", |_| "x = x - 1".into()))));
        v.push((format!("loop-body-{}", n), format!("stel i = 0; stel x = 0; zolang i < 2 {{ i += 1; {}; als i == 1 {{ volgende }}; x = x + 1000000 }}; x", join(n, "; ", |_| "x = x + 1".into()))));
        // a string of N characters, one- and multi-byte
        v.push((format!("string-ascii-{}", n), format!("stel s = \"{}\"; [lengte(s), s[0], s[{}], s[-{}]]", "a".repeat(n.saturating_sub(1)) + "z", n - 1, n)));
        v.push((format!("string-multibyte-{}", n), format!("stel s = \"{}\"; s[{}] = \"ß\"; [lengte(s), s[{}], s[-1], s[{}]]", "é".repeat(n.saturating_sub(1)) + "💖", n / 2, n / 2, n - 1)));
        // N collections, each with fresh garbage and one survivor
        v.push((format!("collections-{}", n), format!("functie f(x) {{ [x, x + 0.5] }}; stel keep = [0.25]; stel i = 0; zolang i < {} {{ i += 1; stel p = f(i); keep = [p[1], keep[0]] }}; [i, keep]", n)));
    }
    for &n in &sizes {
        // a value reachable only through N levels of nesting, alive across a collection, read back at the bottom
        v.push((
            format!("nesting-alive-{}", n),
            format!("functie f() {{ 0 }}; stel a = [2.5 + 1.0]; stel i = 0; zolang i < {n} {{ a = [a]; i += 1 }}; f(); stel t = 7.5 + 1.0; stel p = a; stel j = 0; zolang j < {n} {{ p = p[0]; j += 1 }}; [p[0], t, lengte(a)]", n = n),
        ));
        // the last of N locals against a literal, in every operator (the specialised instructions carry the slot number)
        v.push((
            format!("locals-ops-{}", n),
            format!(
                "functie f() {{ {}; [l{l} + 1, 1 + l{l}, l{l} - 1, 7 - l{l}, l{l} * 2, l{l} / 2, l{l} % 7, l{l} < 5, l{l} <= 5, l{l} > 5, l{l} >= 5, l{l} == {l}, l{l} != 3, l{m} + 1, l0 + 1, 3 > l{p}] }}; f()",
                join(n, "; ", |k| format!("stel l{} = {}", k, k)),
                l = n - 1,
                m = n / 2,
                p = n.saturating_sub(2)
            ),
        ));
        // N locals in one function, N parameters / arguments, N functions, N else-if arms, N print arguments
        v.push((format!("locals-{}", n), format!("functie f() {{ {}; l0 + l{} + l{} }}; f()", join(n, "; ", |k| format!("stel l{} = {}", k, k)), n - 1, n / 2)));
        v.push((format!("float-locals-across-calls-{}", n), format!("functie g() {{ 0 }}; functie f() {{ {}; g(); l0 + l{} + l{} }}; f()", join(n, "; ", |k| format!("stel l{} = {}.5", k, k)), n - 1, n / 2)));
        if n <= 300 {
            v.push((format!("arguments-{}", n), format!("functie f({}) {{ p0 + p{} + p{} }}; f({})", join(n, ", ", |k| format!("p{}", k)), n - 1, n / 2, join(n, ", ", |k| format!("{}", k)))));
            v.push((format!("print-arguments-{}", n), format!("print(\"{}\", {})", join(n, " ", |_| "{}".into()), join(n, ", ", |k| format!("{}", k)))));
            v.push((format!("builtin-in-array-{}", n), format!("[{}]", join(n, ", ", |k| format!("lengte(\"{}\")", "x".repeat(k % 5))))));
        }
        v.push((format!("functions-{}", n), format!("{}; f0() + f{}() + f{}()", join(n, "; ", |k| format!("functie f{}() {{ {} }}", k, k)), n - 1, n / 2)));
        if n <= 4097 {
            v.push((format!("else-if-arms-{}", n), format!("functie kies(c) {{ als c == 0 {{ 0 }}{} anders {{ -1 }} }}; [kies(0), kies({}), kies({}), kies({})]", join(n, "", |k| format!(" anders als c == {} {{ {} }}", k + 1, (k + 1) * 2)), n, n / 2, n + 1)));
        }
        // an array of N arrays, each alive only through it, read after a collection
        v.push((format!("nested-arrays-alive-{}", n), format!("functie f() {{ 0 }}; stel a = [{}]; f(); stel q = a[{}]; [a[0], a[{}], q[1]]", join(n, ", ", |k| format!("[{}, \"t{}\"]", k, k)), n / 2, n - 1)));
    }
    // the body of a function ends in a bare block whose last statement is a declaration, and that declaration lands in local
    // slot N (N - 1 locals in front of it): for every N = 256 * k + 1 the high byte of the slot number is k — any opcode
    for k in 1usize..=48 {
        let n = 256 * k + 1;
        v.push((
            format!("tail-block-declaration-{}", n),
            format!("functie f() {{ {}; {{ stel x = 7 }} }}; functie g() {{ {}; {{ 5; stel y = l0 }} }}; [f(), g(), 1]", join(n - 1, "; ", |j| format!("stel l{} = {}", j, j)), join(n - 1, "; ", |j| format!("stel l{} = {}", j, j))),
        ));
    }
    // array literals nested in tail position: the elements in front of the inner literal are all pending on the operand
    // stack while it is built — LEVELS x N values in one frame, far more than any call allows (no documented limit
    // applies: each literal stays below 65 536 elements)
    for &(levels, n) in &[(2usize, 40_000usize), (2, 65_535), (3, 50_000), (4, 50_000), (4, 65_535), (8, 65_000)] {
        if !big && levels * n > 210_000 {
            continue;
        }
        let mut lit = "[7]".to_string();
        for _ in 0..levels {
            lit = format!("[{}{}]", "1, ".repeat(n - 1), lit);
        }
        v.push((
            format!("pending-operands-{}-levels-{}", levels, levels * n),
            format!("stel t = {}; stel d = t; {}[lengte(t), lengte(d), d[0], t[0]]", lit, format!("d = d[{}]; ", n - 1).repeat(levels)),
        ));
    }
    // a small construct behind K statements of 4 bytes each, K sweeping over the window in which the construct's jumps
    // and the return address of its call straddle code offset 65 536 (jump operands are 16 bits wide): the value, or
    // the syntax error of the documented limit — nothing else
    for k in 16_360usize..=16_390 {
        let pad = "0; ".repeat(k);
        for (cname, construct) in [
            ("if-else", "als ja { 1 } anders { 2 }"),
            ("if-else-false", "als nee { 1 } anders { 2 }"),
            ("else-if", "als nee { 1 } anders als nee { 2 } anders { 3 }"),
            ("loop", "stel i = 0; zolang i < 3 { i += 1; als i == 2 { volgende }; i }; i"),
            ("function-and-call", "functie f(x) { als x > 1 { antwoord x * 2 }; x }; f(1) + f(2)"),
            ("and-or", "(ja && nee) || (nee || ja)"),
        ] {
            v.push((format!("code-offset-{}-{}", cname, k), format!("{}{}", pad, construct)));
        }
    }
    v
}

/// the size a scale program was built for (the number at the end of its name)
pub fn size_of(name: &str) -> usize {
    name.rsplit('-').next().and_then(|s| s.parse().ok()).unwrap_or(0)
}

/// May the program run into one of the documented limits of the implementation (255 arguments; 65 535 constants,
/// variables or array elements; 64 KiB of code inside one jump range)? Then a syntax error is an admissible outcome
/// besides the exact value; below the limits only the exact value is.
pub fn may_hit_limit(name: &str) -> bool {
    let n = size_of(name);
    if name.starts_with("code-offset-") {
        return true;
    }
    if name.starts_with("pending-operands-") {
        return false;
    }
    if name.starts_with("tail-block-declaration-") {
        // two bodies of N declarations, about 7 bytes each, jumped over by the function definitions
        return n >= 4000;
    }
    if name.starts_with("arguments-") {
        return n > 255;
    }
    if name.starts_with("print-arguments-") {
        // the format is an argument too
        return n > 254;
    }
    if name.starts_with("else-if-arms-") {
        // every `anders als` is a level of nesting: the limit of 256 levels applies (minus the levels around the chain)
        return n >= 240;
    }
    if name.starts_with("branch-bodies-") || name.starts_with("loop-body-") || name.starts_with("functions-") || name.starts_with("locals-") || name.starts_with("locals-ops-") || name.starts_with("float-locals-") {
        // ~7-12 bytes of code per statement / arm inside one jump range
        return n >= 4095;
    }
    n >= 65_534
}

/// the programs a flavour can afford
pub fn programs_for(flavour: crate::sup::Flavour, tier: crate::sup::Tier) -> Vec<(String, String)> {
    match flavour {
        // the sizes around 65 536 cost seconds each (the constant pool is searched linearly for every new constant)
        crate::sup::Flavour::Rel => programs(tier == crate::sup::Tier::Thorough),
        crate::sup::Flavour::Miri => programs(false).into_iter().filter(|(n, _)| size_of(n) <= 129).collect(),
        _ => programs(false),
    }
}

/// the scale programs in which size is a matter of the heap (objects alive across collections, number of collections,
/// nesting depth), up to 4 097 of something (`big`: up to 10 000): for the heap monitors of C03 / C04. Built once per process.
pub fn heap_programs(big: bool) -> &'static Vec<(String, String)> {
    static SMALL_CACHE: std::sync::OnceLock<Vec<(String, String)>> = std::sync::OnceLock::new();
    static BIG_CACHE: std::sync::OnceLock<Vec<(String, String)>> = std::sync::OnceLock::new();
    // (the sizes around 65 536 only reach the documented limits — a syntax error after 20 s of compiling — and add nothing
    //  for the heap monitors)
    let (cache, limit) = if big { (&BIG_CACHE, 10_000) } else { (&SMALL_CACHE, 4097) };
    cache.get_or_init(|| {
        programs(false)
            .into_iter()
            .filter(|(n, _)| {
                size_of(n) <= limit
                    && ["floats-alive-", "strings-alive-", "nested-arrays-alive-", "collections-", "nesting-alive-", "float-locals-across-calls-", "string-multibyte-"].iter().any(|p| n.starts_with(p))
            })
            .collect()
    })
}
