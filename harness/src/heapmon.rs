//! Monitor around garbage collections (hook H6): reachability post-condition of every GC::run.
//! Shared by C03 (nothing reachable is reclaimed or changed) and C04 (nothing unreachable is kept).

use nederlang::object::{Object, Type};
use nederlang::verif::{self, GcPhase};
use std::cell::RefCell;
use std::collections::{HashMap, HashSet};

#[derive(Default)]
pub struct GcMon {
    before_managed: HashSet<usize>,
    before_reach: HashMap<usize, u64>,
    have_before: bool,
    /// C03 findings: a reachable object was freed / changed / was already dead
    pub reach_findings: Vec<String>,
    /// C04 findings: managed set != managed-before ∩ reachable
    pub managed_findings: Vec<String>,
    pub cycles: u64,
    pub cycles_with_live_heap: u64,
    pub reachable_total: u64,
    pub reachable_max: u64,
    pub freed_total: u64,
    pub freed_max: u64,
    pub untraces: u64,
    pub destroys: u64,
    spec_roots: Vec<Object>,
}

thread_local! {
    static MON: RefCell<GcMon> = RefCell::new(GcMon::default());
}

fn fnv(h: &mut u64, x: u64) {
    for b in x.to_le_bytes() {
        *h ^= b as u64;
        *h = h.wrapping_mul(0x0000_0100_0000_01B3);
    }
}

/// identity word of a value: immediates by payload, heap values by address
fn word(o: Object) -> u64 {
    match o.tag() {
        Type::Null => 0,
        Type::Bool => 2 + o.as_bool() as u64,
        Type::Int => (o.as_int() as u64).wrapping_mul(8) | 1,
        Type::Function => {
            let [a, b] = o.as_function();
            ((a as u64) << 20) ^ (b as u64) ^ 0x7000_0000_0000_0000
        }
        _ => verif::addr(o) as u64 ^ ((o.tag() as u64) << 60),
    }
}

/// content digest of one live heap object (not following references)
pub fn digest(o: Object) -> u64 {
    let mut h: u64 = 0xcbf2_9ce4_8422_2325;
    match o.tag() {
        Type::Float => fnv(&mut h, o.as_f64().to_bits()),
        Type::String => {
            for b in o.as_str().bytes() {
                fnv(&mut h, b as u64);
            }
            fnv(&mut h, o.as_str().len() as u64);
        }
        Type::Array => {
            for x in o.as_vec().iter() {
                fnv(&mut h, word(*x));
            }
            fnv(&mut h, o.as_vec().len() as u64);
        }
        _ => {}
    }
    h
}

/// live heap objects reachable from the roots; dead ones that are still referenced are reported
pub fn reachable(roots: &[&[Object]], dead_refs: &mut Vec<usize>) -> Vec<Object> {
    let mut seen: HashSet<usize> = HashSet::new();
    let mut out = vec![];
    let mut todo: Vec<Object> = vec![];
    for r in roots {
        for o in r.iter() {
            todo.push(*o);
        }
    }
    while let Some(o) = todo.pop() {
        if !o.is_heap_allocated() {
            continue;
        }
        let a = verif::addr(o);
        if !seen.insert(a) {
            continue;
        }
        if verif::is_live(a) == Some(false) {
            dead_refs.push(a);
            continue;
        }
        out.push(o);
        if o.tag() == Type::Array {
            for x in o.as_vec().iter() {
                todo.push(*x);
            }
        }
    }
    out
}

fn callback(phase: GcPhase, roots: &[&[Object]], managed: &[Object]) {
    // the walk dereferences heap objects through the public accessors: make sure it cannot stop the run
    verif::set_stop_on_event(false);
    MON.with(|m| {
        let mut m = m.borrow_mut();
        match phase {
            GcPhase::RunBegin => {
                let mut dead = vec![];
                // the roots the property names (recorded by the VM hook right before the collection) together with
                // the roots the VM actually handed to the collector: a root the VM forgot is still a root
                let spec = verif::take_spec_roots();
                m.spec_roots = spec;
                let mut all: Vec<&[Object]> = roots.to_vec();
                let spec_slice = m.spec_roots.clone();
                all.push(&spec_slice);
                let reach = reachable(&all, &mut dead);
                for a in dead {
                    if m.reach_findings.len() < 20 {
                        m.reach_findings.push(format!("a root or reachable slot refers to an object that was already released ({:#x}) when the collection started", a));
                    }
                }
                m.before_managed = managed.iter().map(|o| verif::addr(*o)).collect();
                m.before_reach = reach.iter().map(|o| (verif::addr(*o), digest(*o))).collect();
                m.have_before = true;
                m.cycles += 1;
                if !reach.is_empty() {
                    m.cycles_with_live_heap += 1;
                }
                m.reachable_total += reach.len() as u64;
                m.reachable_max = m.reachable_max.max(reach.len() as u64);
            }
            GcPhase::RunEnd => {
                if !m.have_before {
                    return;
                }
                m.have_before = false;
                let after_managed: HashSet<usize> = managed.iter().map(|o| verif::addr(*o)).collect();
                let freed = m.before_managed.len().saturating_sub(after_managed.len()) as u64;
                m.freed_total += freed;
                m.freed_max = m.freed_max.max(freed);
                // C03: everything that was reachable is still allocated and unchanged
                let mut dead = vec![];
                let spec_slice = std::mem::take(&mut m.spec_roots);
                let mut all: Vec<&[Object]> = roots.to_vec();
                all.push(&spec_slice);
                let reach_now = reachable(&all, &mut dead);
                let now: HashMap<usize, u64> = reach_now.iter().map(|o| (verif::addr(*o), digest(*o))).collect();
                let before_reach = std::mem::take(&mut m.before_reach);
                for (a, d) in before_reach.iter() {
                    match verif::is_live(*a) {
                        Some(false) => {
                            if m.reach_findings.len() < 20 {
                                m.reach_findings.push(format!("an object reachable from the roots was released by the collection ({:#x})", a));
                            }
                        }
                        _ => {
                            if let Some(d2) = now.get(a) {
                                if d2 != d && m.reach_findings.len() < 20 {
                                    m.reach_findings.push(format!("an object reachable from the roots changed during the collection ({:#x})", a));
                                }
                            }
                        }
                    }
                }
                // C04: managed-after = managed-before ∩ reachable
                let before_managed = std::mem::take(&mut m.before_managed);
                for a in after_managed.iter() {
                    if !before_reach.contains_key(a) && m.managed_findings.len() < 20 {
                        m.managed_findings.push(format!("the collector still manages an object that is not reachable from its roots ({:#x})", a));
                    }
                }
                for a in before_managed.iter() {
                    if before_reach.contains_key(a) && !after_managed.contains(a) && m.managed_findings.len() < 20 {
                        m.managed_findings.push(format!("a reachable object is no longer managed after the collection ({:#x})", a));
                    }
                }
                // every object dropped from management must have been released
                for a in before_managed.iter() {
                    if !after_managed.contains(a) && verif::is_live(*a) == Some(true) && m.managed_findings.len() < 20 {
                        m.managed_findings.push(format!("an object was dropped from management without being released ({:#x})", a));
                    }
                }
            }
            GcPhase::Untrace => m.untraces += 1,
            GcPhase::DestroyBegin => m.destroys += 1,
            GcPhase::DestroyEnd => {
                if !managed.is_empty() && m.managed_findings.len() < 20 {
                    m.managed_findings.push(format!("{} objects still managed after the collector was destroyed", managed.len()));
                }
            }
        }
    });
    verif::set_stop_on_event(true);
}

pub fn install() {
    verif::set_gc_callback(Some(Box::new(callback)));
}

pub fn uninstall() {
    verif::set_gc_callback(None);
}

/// findings since the last call (C03 list, C04 list)
pub fn take_findings() -> (Vec<String>, Vec<String>) {
    MON.with(|m| {
        let mut m = m.borrow_mut();
        m.have_before = false;
        (std::mem::take(&mut m.reach_findings), std::mem::take(&mut m.managed_findings))
    })
}

/// counters since the last call: (cycles, cycles with live heap, reachable total, reachable max, freed total, freed max)
pub fn take_counters() -> (u64, u64, u64, u64, u64, u64) {
    MON.with(|m| {
        let mut m = m.borrow_mut();
        let r = (m.cycles, m.cycles_with_live_heap, m.reachable_total, m.reachable_max, m.freed_total, m.freed_max);
        m.cycles = 0;
        m.cycles_with_live_heap = 0;
        m.reachable_total = 0;
        m.reachable_max = 0;
        m.freed_total = 0;
        m.freed_max = 0;
        r
    })
}
