//! Offline checker over the bytecode the real compiler emitted (DESIGN §6.2(b)): decode, jump
//! targets, function regions, minimum stack height on all paths, operand ranges.
//! Not a proof about the compiler: a monitor over an artefact recorded from its execution.

use nederlang::object::{Object, Type};
use std::collections::HashMap;

#[derive(Clone, Debug)]
pub struct OpInfo {
    pub name: String,
    pub widths: Vec<usize>,
}

pub struct Table {
    pub ops: HashMap<u8, OpInfo>,
}

impl Table {
    pub fn load() -> Table {
        let mut ops = HashMap::new();
        for (b, name, widths) in nederlang::verif::opcode_table() {
            ops.insert(b, OpInfo { name, widths });
        }
        Table { ops }
    }
}

#[derive(Clone, Debug)]
pub struct Instr {
    pub ip: usize,
    pub name: String,
    pub operands: Vec<usize>,
    pub len: usize,
}

#[derive(Clone, Debug, PartialEq)]
pub struct Finding {
    pub class: String,
    pub detail: String,
}

#[derive(Default, Debug)]
pub struct Report {
    /// C02 breaches
    pub breaches: Vec<Finding>,
    /// stack heights that disagree at a join or grow without bound (residue: C11)
    pub residue: Vec<Finding>,
    /// opcode not in the effect table etc.: no verdict for this program
    pub inconclusive: Vec<String>,
    pub instructions: usize,
    pub regions: usize,
    pub joins: usize,
    pub jumps: usize,
    /// static minimum height (relative to the frame base) before each instruction
    pub min_height: HashMap<usize, i64>,
    pub max_height: HashMap<usize, i64>,
    pub region_of: HashMap<usize, usize>,
    pub branches: Vec<usize>,
}

/// (pops, pushes); None = unknown opcode
fn effect(i: &Instr) -> Option<(i64, i64)> {
    Some(match i.name.as_str() {
        "Const" | "Null" | "True" | "False" | "GetLocal" | "GetGlobal" => (0, 1),
        n if n.ends_with("LocalConst") => (0, 1),
        "Pop" | "SetLocal" | "SetGlobal" | "JumpIfFalse" => (1, 0),
        "Add" | "Subtract" | "Divide" | "Multiply" | "Modulo" | "Gt" | "Gte" | "Lt" | "Lte" | "Eq" | "Neq" | "And" | "Or" | "IndexGet" => (2, 1),
        "Not" | "Negate" => (1, 1),
        "IndexSet" => (3, 1),
        "Array" => (i.operands[0] as i64, 1),
        "CallBuiltin" => (i.operands[1] as i64, 1),
        "Call" => (i.operands[0] as i64 + 1, 1),
        "Jump" => (0, 0),
        "ReturnValue" => (1, 0),
        "Return" | "Halt" => (0, 0),
        _ => return None,
    })
}

pub fn decode(code: &[u8], table: &Table) -> Result<Vec<Instr>, Finding> {
    let mut out = vec![];
    let mut ip = 0;
    while ip < code.len() {
        let info = match table.ops.get(&code[ip]) {
            Some(i) => i,
            None => {
                return Err(Finding { class: "decode:invalid-opcode".into(), detail: format!("byte {} at offset {} is not an opcode", code[ip], ip) });
            }
        };
        let mut operands = vec![];
        let mut p = ip + 1;
        for w in &info.widths {
            if p + w > code.len() {
                return Err(Finding { class: "decode:truncated-operand".into(), detail: format!("operand of {} at offset {} runs past the end of the code", info.name, ip) });
            }
            let v = match w {
                1 => code[p] as usize,
                2 => code[p] as usize | (code[p + 1] as usize) << 8,
                _ => 0,
            };
            operands.push(v);
            p += w;
        }
        out.push(Instr { ip, name: info.name.clone(), operands, len: p - ip });
        ip = p;
    }
    Ok(out)
}

pub fn render(instrs: &[Instr]) -> String {
    instrs
        .iter()
        .map(|i| if i.operands.is_empty() { format!("{}:{}", i.ip, i.name) } else { format!("{}:{}({})", i.ip, i.name, i.operands.iter().map(|o| o.to_string()).collect::<Vec<_>>().join(",")) })
        .collect::<Vec<_>>()
        .join(" ")
}

pub fn check(code: &[u8], constants: &[Object], entry: usize, table: &Table) -> Report {
    let mut rep = Report::default();
    let instrs = match decode(code, table) {
        Ok(i) => i,
        Err(f) => {
            rep.breaches.push(f);
            return rep;
        }
    };
    rep.instructions = instrs.len();
    let index_of: HashMap<usize, usize> = instrs.iter().enumerate().map(|(k, i)| (i.ip, k)).collect();
    let n_builtins = 7;

    // function regions from the constant pool
    let mut regions: Vec<(usize, usize, usize)> = vec![]; // entry, end, num_locals
    for c in constants {
        if c.tag() == Type::Function {
            let [e, nl] = c.as_function();
            let (e, nl) = (e as usize, nl as usize);
            if !index_of.contains_key(&e) {
                rep.breaches.push(Finding { class: "function:entry-not-a-boundary".into(), detail: format!("function constant with entry {} does not point at an instruction", e) });
                continue;
            }
            // the body is preceded by `Jump end`
            let pre = instrs.iter().find(|i| i.ip + i.len == e);
            match pre {
                Some(j) if j.name == "Jump" => {
                    let end = j.operands[0];
                    if end <= e || !(index_of.contains_key(&end)) {
                        rep.breaches.push(Finding { class: "function:bad-region-end".into(), detail: format!("function at {}: skip jump targets {}", e, end) });
                        continue;
                    }
                    if !regions.iter().any(|r| r.0 == e) {
                        regions.push((e, end, nl));
                    }
                }
                _ => {
                    rep.breaches.push(Finding { class: "function:no-skip-jump".into(), detail: format!("function entry {} is not preceded by a Jump over its body", e) });
                }
            }
        }
    }
    rep.regions = regions.len();
    // innermost region of each instruction: 0 = top level, k+1 = regions[k]
    let mut sorted: Vec<usize> = (0..regions.len()).collect();
    sorted.sort_by_key(|k| std::cmp::Reverse(regions[*k].1 - regions[*k].0));
    let mut region_of: Vec<usize> = vec![0; instrs.len()];
    for k in sorted {
        let (e, end, _) = regions[k];
        for (x, i) in instrs.iter().enumerate() {
            if i.ip >= e && i.ip < end {
                region_of[x] = k + 1;
            }
        }
    }
    for (x, i) in instrs.iter().enumerate() {
        rep.region_of.insert(i.ip, region_of[x]);
    }

    // per-instruction checks and successor lists
    let mut succs: Vec<Vec<usize>> = vec![vec![]; instrs.len()];
    for (x, i) in instrs.iter().enumerate() {
        let reg = region_of[x];
        let locals = if reg == 0 { 0 } else { regions[reg - 1].2 };
        let region_end = if reg == 0 { code.len() } else { regions[reg - 1].1 };
        let next = i.ip + i.len;
        let mut falls = true;
        match i.name.as_str() {
            "Const" => {
                if i.operands[0] >= constants.len() {
                    rep.breaches.push(Finding { class: "operand:constant-index".into(), detail: format!("{} at {}: constant {} of {}", i.name, i.ip, i.operands[0], constants.len()) });
                }
            }
            n if n.ends_with("LocalConst") => {
                if i.operands[0] >= locals {
                    rep.breaches.push(Finding { class: "operand:local-index".into(), detail: format!("{} at {}: local {} of {}", i.name, i.ip, i.operands[0], locals) });
                }
                if i.operands[1] >= constants.len() {
                    rep.breaches.push(Finding { class: "operand:constant-index".into(), detail: format!("{} at {}: constant {} of {}", i.name, i.ip, i.operands[1], constants.len()) });
                }
            }
            "GetLocal" | "SetLocal" => {
                if i.operands[0] >= locals {
                    rep.breaches.push(Finding { class: "operand:local-index".into(), detail: format!("{} at {}: local {} but the function has {} slots{}", i.name, i.ip, i.operands[0], locals, if reg == 0 { " (top level)" } else { "" }) });
                }
            }
            "CallBuiltin" => {
                if i.operands[0] >= n_builtins {
                    rep.breaches.push(Finding { class: "operand:builtin-number".into(), detail: format!("CallBuiltin at {}: builtin {}", i.ip, i.operands[0]) });
                }
            }
            "Jump" | "JumpIfFalse" => {
                rep.jumps += 1;
                let t = i.operands[0];
                match index_of.get(&t) {
                    None => rep.breaches.push(Finding { class: "jump:target-not-a-boundary".into(), detail: format!("{} at {} targets {}", i.name, i.ip, t) }),
                    Some(tx) => {
                        // (the jump that skips a function body is part of the enclosing region, and so is its target)
                        if region_of[*tx] != reg {
                            rep.breaches.push(Finding { class: "jump:leaves-region".into(), detail: format!("{} at {} (region {}) targets {} (region {})", i.name, i.ip, reg, t, region_of[*tx]) });
                        } else {
                            succs[x].push(*tx);
                        }
                    }
                }
                if i.name == "Jump" {
                    falls = false;
                } else {
                    rep.branches.push(i.ip);
                }
            }
            "Return" | "ReturnValue" => {
                falls = false;
                if reg == 0 {
                    rep.breaches.push(Finding { class: "return:at-top-level".into(), detail: format!("{} at {} outside any function body", i.name, i.ip) });
                }
            }
            "Halt" => {
                falls = false;
                if reg != 0 {
                    rep.breaches.push(Finding { class: "halt:inside-function".into(), detail: format!("Halt at {} inside a function body", i.ip) });
                }
            }
            _ => {}
        }
        if effect(i).is_none() {
            rep.inconclusive.push(format!("opcode {} is not in the stack effect table", i.name));
        }
        if falls {
            if next >= region_end {
                rep.breaches.push(Finding {
                    class: if reg == 0 { "flow:runs-off-the-end-of-the-code".into() } else { "flow:falls-out-of-function-body".into() },
                    detail: format!("{} at {} is followed by offset {} which ends its region", i.name, i.ip, next),
                });
            } else if let Some(nx) = index_of.get(&next) {
                // falling into a nested function body cannot happen: bodies are preceded by their skip jump
                if region_of[*nx] != reg {
                    rep.breaches.push(Finding { class: "flow:falls-into-function-body".into(), detail: format!("{} at {} falls through into another region at {}", i.name, i.ip, next) });
                } else {
                    succs[x].push(*nx);
                }
            }
        }
    }
    if !rep.inconclusive.is_empty() || !rep.breaches.is_empty() {
        return rep;
    }

    // minimum / maximum height data-flow per region
    let mut starts: Vec<(usize, i64, i64)> = vec![]; // instruction index, start height, floor
    if let Some(e) = index_of.get(&entry) {
        starts.push((*e, 0, 0));
    } else {
        rep.breaches.push(Finding { class: "entry:not-a-boundary".into(), detail: format!("program entry {} is not an instruction", entry) });
        return rep;
    }
    for (e, _, nl) in &regions {
        starts.push((index_of[e], *nl as i64, *nl as i64));
    }
    let mut minh: Vec<Option<i64>> = vec![None; instrs.len()];
    let mut maxh: Vec<Option<i64>> = vec![None; instrs.len()];
    let mut floor_of: Vec<i64> = vec![0; instrs.len()];
    for (x, _) in instrs.iter().enumerate() {
        let reg = region_of[x];
        floor_of[x] = if reg == 0 { 0 } else { regions[reg - 1].2 as i64 };
    }
    const MAX_CAP: i64 = 1_000_000;
    let mut work: Vec<usize> = vec![];
    for (s, h, _) in &starts {
        minh[*s] = Some(*h);
        maxh[*s] = Some(*h);
        work.push(*s);
    }
    let mut steps = 0u64;
    let mut unbounded: Vec<usize> = vec![];
    while let Some(x) = work.pop() {
        steps += 1;
        if steps > 2_000_000 {
            rep.inconclusive.push("height data-flow did not converge".into());
            break;
        }
        let i = &instrs[x];
        let (pops, pushes) = effect(i).unwrap();
        let (lo, hi) = (minh[x].unwrap(), maxh[x].unwrap());
        if lo - pops < floor_of[x] {
            rep.breaches.push(Finding {
                class: "stack:underflow-on-some-path".into(),
                detail: format!("{} at {} pops {} with a minimum height of {} above a floor of {}", i.name, i.ip, pops, lo, floor_of[x]),
            });
            break;
        }
        let (nlo, nhi) = (lo - pops + pushes, (hi - pops + pushes).min(MAX_CAP));
        for s in &succs[x] {
            let mut changed = false;
            match minh[*s] {
                None => {
                    minh[*s] = Some(nlo);
                    changed = true;
                }
                Some(old) if nlo < old => {
                    minh[*s] = Some(nlo);
                    changed = true;
                }
                _ => {}
            }
            match maxh[*s] {
                None => {
                    maxh[*s] = Some(nhi);
                    changed = true;
                }
                Some(old) if nhi > old => {
                    // widen quickly so that a leaking loop is recognised instead of iterated a million times
                    let widened = if nhi - old > 0 && old > floor_of[*s] + 64 { MAX_CAP } else { nhi };
                    maxh[*s] = Some(widened);
                    if widened == MAX_CAP && !unbounded.contains(s) {
                        unbounded.push(*s);
                    }
                    changed = true;
                }
                _ => {}
            }
            if changed {
                work.push(*s);
            }
        }
    }
    for (x, i) in instrs.iter().enumerate() {
        if let (Some(lo), Some(hi)) = (minh[x], maxh[x]) {
            rep.min_height.insert(i.ip, lo);
            rep.max_height.insert(i.ip, hi);
            if lo != hi {
                rep.joins += 1;
            }
        }
    }
    for s in unbounded {
        rep.residue.push(Finding { class: "residue:unbounded-growth".into(), detail: format!("the stack height at {} grows on every pass of a cycle", instrs[s].ip) });
    }
    if rep.residue.is_empty() {
        if let Some((x, _)) = instrs.iter().enumerate().find(|(x, _)| matches!((minh[*x], maxh[*x]), (Some(a), Some(b)) if a != b)) {
            rep.residue.push(Finding { class: "residue:heights-differ-at-join".into(), detail: format!("paths reach {} with heights {:?}..{:?}", instrs[x].ip, minh[x], maxh[x]) });
        }
    }
    rep
}
