//! Tree -> source text. Minimal parentheses from the documented precedence table; a layout
//! randomiser chooses separators, optional `;` / `,`, redundant parentheses and sugar.

use crate::ast::{Expr, Op, Stmt};
use crate::rng::Rng;

#[derive(Clone, Debug, PartialEq)]
pub enum Piece {
    T(String),
    /// optional statement separator; `true` = mandatory here (next statement starts with `(`, `[` or `-`)
    Semi(bool),
    Comma(bool),
}

pub struct Printer<'a> {
    /// random choices (sugar, redundant parentheses); None = canonical
    pub rng: Option<&'a mut Rng>,
    /// probability (percent) of wrapping an operand in redundant parentheses
    pub extra_parens_pct: u64,
    /// use `a += e` for `a = a + e` (canonical: yes for the five arithmetic operators)
    pub sugar: bool,
}

fn t(s: &str) -> Piece {
    Piece::T(s.to_string())
}

pub fn float_text(f: f64) -> String {
    let mut s = format!("{}", f);
    if !s.contains('.') {
        s.push_str(".0");
    }
    s
}

pub fn string_text(s: &str, rng: &mut Option<&mut Rng>) -> String {
    let mut o = String::from("\"");
    for c in s.chars() {
        match c {
            '"' => o.push_str("\\\""),
            '\\' => o.push_str("\\\\"),
            '\n' => {
                // a raw newline inside a literal is the same character
                if let Some(r) = rng.as_mut() {
                    if r.chance(1, 2) {
                        o.push('\n');
                        continue;
                    }
                }
                o.push_str("\\n")
            }
            '\t' => {
                if let Some(r) = rng.as_mut() {
                    if r.chance(1, 2) {
                        o.push('\t');
                        continue;
                    }
                }
                o.push_str("\\t")
            }
            c => o.push(c),
        }
    }
    o.push('"');
    o
}

#[derive(Clone, Copy, PartialEq)]
enum Cx {
    /// parsed at the lowest binding power: nothing needs parentheses
    Top,
    /// left operand of a binary operator of this level
    Left(u8),
    /// right operand of a binary operator of this level
    Right(u8),
    /// operand of a prefix operator
    PrefixOperand,
    /// right-hand side of `=`
    AssignRhs,
}

fn is_primary(e: &Expr) -> bool {
    matches!(
        e,
        Expr::Int(_) | Expr::Float(_) | Expr::Bool(_) | Expr::Str(_) | Expr::Ident(_) | Expr::Array(_) | Expr::Call { .. } | Expr::Index { .. }
    )
}

fn needs_parens(e: &Expr, cx: Cx) -> bool {
    match cx {
        Cx::Top => false,
        Cx::AssignRhs => matches!(e, Expr::Assign { .. }),
        Cx::PrefixOperand => !is_primary(e),
        // an if- or loop-expression is complete once its last block closes, like a call or an index expression:
        // as an operand of a binary operator it needs no parentheses (`als c { 1 } anders { 2 } + 1` is
        // `(als … ) + 1`, whether or not the alternative is an `anders als` chain)
        Cx::Left(l) => match e {
            Expr::Infix { op, .. } => op.level() < l,
            Expr::If { .. } | Expr::While { .. } => false,
            _ => !is_primary(e),
        },
        Cx::Right(l) => match e {
            Expr::Infix { op, .. } => op.level() <= l,
            Expr::If { .. } | Expr::While { .. } => false,
            _ => !is_primary(e),
        },
    }
}

impl<'a> Printer<'a> {
    pub fn canonical() -> Printer<'static> {
        Printer {
            rng: None,
            extra_parens_pct: 0,
            sugar: true,
        }
    }
    pub fn random(rng: &'a mut Rng) -> Printer<'a> {
        Printer {
            rng: Some(rng),
            extra_parens_pct: 8,
            sugar: true,
        }
    }

    fn flip(&mut self, pct: u64) -> bool {
        match self.rng.as_mut() {
            Some(r) => r.below(100) < pct,
            None => false,
        }
    }

    pub fn block_items(&mut self, stmts: &[Stmt], out: &mut Vec<Piece>) {
        let parts: Vec<Vec<Piece>> = stmts
            .iter()
            .map(|s| {
                let mut v = vec![];
                self.stmt(s, &mut v);
                v
            })
            .collect();
        for (i, p) in parts.iter().enumerate() {
            out.extend(p.iter().cloned());
            let mandatory = match parts.get(i + 1).and_then(|n| n.first()) {
                Some(Piece::T(x)) => x == "(" || x == "[" || x == "-",
                _ => false,
            };
            out.push(Piece::Semi(mandatory));
        }
    }

    fn braces(&mut self, stmts: &[Stmt], out: &mut Vec<Piece>) {
        out.push(t("{"));
        self.block_items(stmts, out);
        out.push(t("}"));
    }

    pub fn stmt(&mut self, s: &Stmt, out: &mut Vec<Piece>) {
        match s {
            Stmt::Let(n, e) => {
                out.push(t("stel"));
                out.push(t(n));
                out.push(t("="));
                self.expr(e, Cx::Top, out);
            }
            Stmt::Return(e) => {
                out.push(t("antwoord"));
                self.expr(e, Cx::Top, out);
            }
            Stmt::Expr(e) => self.expr(e, Cx::Top, out),
            Stmt::Block(b) => self.braces(b, out),
            Stmt::Break => out.push(t("stop")),
            Stmt::Continue => out.push(t("volgende")),
        }
    }

    fn list(&mut self, xs: &[Expr], out: &mut Vec<Piece>) {
        let parts: Vec<Vec<Piece>> = xs
            .iter()
            .map(|e| {
                let mut v = vec![];
                self.expr(e, Cx::Top, &mut v);
                v
            })
            .collect();
        for (i, p) in parts.iter().enumerate() {
            out.extend(p.iter().cloned());
            let mandatory = match parts.get(i + 1).and_then(|n| n.first()) {
                Some(Piece::T(x)) => x == "(" || x == "[" || x == "-",
                _ => false,
            };
            if i + 1 < parts.len() {
                out.push(Piece::Comma(mandatory));
            } else {
                // trailing comma is optional too
                out.push(Piece::Comma(false));
            }
        }
    }

    fn expr(&mut self, e: &Expr, cx: Cx, out: &mut Vec<Piece>) {
        // an operand position that is not Top may always carry redundant parentheses; Top positions too
        let pct = self.extra_parens_pct;
        let paren = needs_parens(e, cx) || (pct > 0 && !matches!(e, Expr::Function { .. }) && self.flip(pct));
        if paren {
            out.push(t("("));
            self.expr_inner(e, out);
            out.push(t(")"));
        } else {
            self.expr_inner(e, out);
        }
    }

    fn expr_inner(&mut self, e: &Expr, out: &mut Vec<Piece>) {
        match e {
            Expr::Int(v) => out.push(Piece::T(format!("{}", v))),
            Expr::Float(f) => out.push(Piece::T(float_text(*f))),
            Expr::Bool(b) => out.push(t(if *b { "ja" } else { "nee" })),
            Expr::Str(s) => {
                let txt = string_text(s, &mut self.rng);
                out.push(Piece::T(txt));
            }
            Expr::Ident(n) => out.push(t(n)),
            Expr::Unknown(u) => out.push(Piece::T(format!("<unknown {}>", u))),
            Expr::Infix { left, op, right } => {
                let l = op.level();
                self.expr(left, Cx::Left(l), out);
                out.push(t(op.text()));
                self.expr(right, Cx::Right(l), out);
            }
            Expr::Prefix { op, right } => {
                out.push(t(op.text()));
                self.expr(right, Cx::PrefixOperand, out);
            }
            Expr::Assign { left, right } => {
                // sugar: a = a op e  ->  a op= e
                if let (Expr::Ident(a), Expr::Infix { left: il, op, right: ir }) = (&**left, &**right) {
                    if let Expr::Ident(b) = &**il {
                        if a == b && op.is_arith() && self.sugar && (self.rng.is_none() || self.flip(60)) {
                            out.push(t(a));
                            out.push(t(op.text()));
                            out.push(t("="));
                            self.expr(ir, Cx::Top, out);
                            return;
                        }
                    }
                }
                self.expr(left, Cx::Top, out);
                out.push(t("="));
                self.expr(right, Cx::AssignRhs, out);
            }
            Expr::If { cond, cons, alt } => {
                out.push(t("als"));
                self.expr(cond, Cx::Top, out);
                self.braces(cons, out);
                if let Some(a) = alt {
                    out.push(t("anders"));
                    let chain = a.len() == 1 && matches!(a[0], Stmt::Expr(Expr::If { .. }));
                    if chain && (self.rng.is_none() || self.flip(70)) {
                        if let Stmt::Expr(inner) = &a[0] {
                            self.expr_inner(inner, out);
                        }
                    } else {
                        self.braces(a, out);
                    }
                }
            }
            Expr::While { cond, body } => {
                out.push(t("zolang"));
                self.expr(cond, Cx::Top, out);
                self.braces(body, out);
            }
            Expr::Function { name, params, body } => {
                out.push(t("functie"));
                if !name.is_empty() {
                    out.push(t(name));
                }
                out.push(t("("));
                for (i, p) in params.iter().enumerate() {
                    out.push(t(p));
                    out.push(Piece::Comma(false));
                    let _ = i;
                }
                out.push(t(")"));
                self.braces(body, out);
            }
            Expr::Call { left, args } => {
                self.expr_inner(left, out);
                out.push(t("("));
                self.list(args, out);
                out.push(t(")"));
            }
            Expr::Array(xs) => {
                out.push(t("["));
                self.list(xs, out);
                out.push(t("]"));
            }
            Expr::Index { left, index } => {
                self.expr_inner(left, out);
                out.push(t("["));
                self.expr(index, Cx::Top, out);
                out.push(t("]"));
            }
        }
    }
}

pub fn pieces_of(prog: &[Stmt]) -> Vec<Piece> {
    let mut out = vec![];
    Printer::canonical().block_items(prog, &mut out);
    out
}

fn word_start(c: char) -> bool {
    c.is_alphanumeric() || c == '_'
}

/// must the two tokens be separated so that the lexer does not fuse them?
pub fn need_sep(prev: &str, next: &str) -> bool {
    let (p, n) = match (prev.chars().last(), next.chars().next()) {
        (Some(p), Some(n)) => (p, n),
        _ => return false,
    };
    if word_start(p) && word_start(n) {
        return true;
    }
    // a number followed by '.' would continue the number
    if p.is_ascii_digit() && n == '.' {
        return true;
    }
    if matches!(p, '=' | '!' | '<' | '>') && n == '=' {
        return true;
    }
    if p == '/' && n == '/' {
        return true;
    }
    if (p == '&' && n == '&') || (p == '|' && n == '|') {
        // && followed by && is fine for the lexer, but keep them apart anyway
        return true;
    }
    false
}

pub const WHITESPACE: [char; 11] = [
    '\u{0009}', '\u{000A}', '\u{000B}', '\u{000C}', '\u{000D}', '\u{0020}', '\u{0085}', '\u{200E}', '\u{200F}', '\u{2028}', '\u{2029}',
];

/// Canonical text: one statement per `; `, single spaces
pub fn render_canonical(pieces: &[Piece]) -> String {
    let mut toks: Vec<&str> = vec![];
    for (i, p) in pieces.iter().enumerate() {
        match p {
            Piece::T(s) => toks.push(s),
            Piece::Semi(m) => {
                // keep `;` between statements, drop it before `}` and at the very end unless mandatory
                let next_is_close = matches!(pieces.get(i + 1), Some(Piece::T(x)) if x == "}") || i + 1 == pieces.len();
                if *m || !next_is_close {
                    toks.push(";");
                }
            }
            Piece::Comma(m) => {
                let next_is_close = matches!(pieces.get(i + 1), Some(Piece::T(x)) if x == ")" || x == "]");
                if *m || !next_is_close {
                    toks.push(",");
                }
            }
        }
    }
    let mut out = String::new();
    for (i, tk) in toks.iter().enumerate() {
        if i > 0 {
            let prev = toks[i - 1];
            let tight_before = matches!(*tk, "," | ";" | ")" | "]");
            let tight_after = matches!(prev, "(" | "[" | "!");
            let call = (*tk == "(" || *tk == "[") && prev.chars().last().map(|c| word_start(c) || c == '"').unwrap_or(false) && !is_keyword(prev);
            if need_sep(prev, tk) || !(tight_before || tight_after || call) {
                out.push(' ');
            }
        }
        out.push_str(tk);
    }
    out
}

pub fn is_keyword(s: &str) -> bool {
    matches!(s, "als" | "anders" | "antwoord" | "functie" | "zolang" | "stel" | "ja" | "nee" | "volgende" | "stop")
}

pub fn to_text(prog: &[Stmt]) -> String {
    render_canonical(&pieces_of(prog))
}

pub fn expr_text(e: &Expr) -> String {
    to_text(&[Stmt::Expr(e.clone())])
}

#[derive(Default)]
pub struct LayoutStats {
    pub gaps_without_sep: u64,
    pub seps_used: std::collections::BTreeSet<String>,
    pub semis_dropped: u64,
    pub commas_dropped: u64,
    pub comments: u64,
}

fn random_sep(r: &mut Rng, allow_empty: bool, ls: &mut LayoutStats) -> String {
    let k = r.below(if allow_empty { 10 } else { 8 });
    match k {
        0..=2 => " ".to_string(),
        3 => "\n".to_string(),
        4 => {
            let c = *r.pick(&WHITESPACE);
            ls.seps_used.insert(format!("U+{:04X}", c as u32));
            c.to_string()
        }
        5 => {
            let n = r.range(2, 4);
            let mut s = String::new();
            for _ in 0..n {
                let c = *r.pick(&WHITESPACE);
                ls.seps_used.insert(format!("U+{:04X}", c as u32));
                s.push(c);
            }
            s
        }
        6 => {
            ls.comments += 1;
            let body = *r.pick(&["", " commentaar", " x = 1; \"niet\" { [ (", "//", " é💖", " stel als anders", " tel er één dozijn bij op", "💖💖💖", " pad C:\\", "\\"]);
            format!(" //{}\n", body)
        }
        7 => "\t".to_string(),
        _ => {
            ls.gaps_without_sep += 1;
            String::new()
        }
    }
}

/// Random layout of the same piece sequence
pub fn render_random(pieces: &[Piece], r: &mut Rng, ls: &mut LayoutStats) -> String {
    let mut toks: Vec<String> = vec![];
    for p in pieces {
        match p {
            Piece::T(s) => toks.push(s.clone()),
            Piece::Semi(m) => {
                if *m || r.chance(1, 2) {
                    toks.push(";".to_string());
                } else {
                    ls.semis_dropped += 1;
                }
            }
            Piece::Comma(m) => {
                if *m || r.chance(1, 2) {
                    toks.push(",".to_string());
                } else {
                    ls.commas_dropped += 1;
                }
            }
        }
    }
    let mut out = String::new();
    if r.chance(1, 4) {
        out.push_str(&random_sep(r, false, ls));
    }
    for (i, tk) in toks.iter().enumerate() {
        if i > 0 {
            let must = need_sep(&toks[i - 1], tk);
            out.push_str(&random_sep(r, !must, ls));
        }
        out.push_str(tk);
    }
    if r.chance(1, 4) {
        out.push_str(&random_sep(r, false, ls));
    }
    out
}
