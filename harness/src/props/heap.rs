//! C03 — a reachable value is never reclaimed;  C04 — garbage is reclaimed, a finished run leaves
//! nothing behind. Monitors: quarantine shadow heap (liveness at every dereference, double free),
//! reachability post-condition at every GC::run (heapmon), allocation ledger after every run and
//! after every abort point k (instruction budget), and a direct driver of the collector.

use super::Families;
use crate::gen::{random_program, Profile};
use crate::heapmon;
use crate::obs::{eval_observed, event_class, ObsCfg, Outcome};
use crate::print::to_text;
use crate::val::Val;
use crate::rng::{hash_str, Rng};
use crate::sup::{Check, Ctx, Flavour, Stats, Summary, Tier};
use nederlang::object::{FromString, FromVec, Object, Type};
use nederlang::verif::{self, ShadowMode, GC};
use serde_json::json;
use std::panic::{catch_unwind, AssertUnwindSafe};

#[derive(Clone, Copy, PartialEq, Eq)]
pub enum Which {
    C03,
    C04,
}

pub struct Heap {
    which: Which,
}

pub fn directed() -> Vec<(&'static str, &'static str)> {
    vec![
        ("gc-string-in-function", "functie f() { \"abc\" } f()"),
        ("gc-float-in-function", "functie f(x) { x * 1.5 } f(2.0) + f(3.0)"),
        ("array-built-by-calls", "functie g(n) { [n * 1.5, string(n)] } [g(1), g(2), [g(3)]]"),
        ("pending-elements-during-call", "functie h(x) { stel t = [x, \"tmp\"]; x } [\"a\", 1.5, h(2.5), h(\"s\"), [h(1)]]"),
        ("pending-arguments-during-call", "functie h(x) { stel t = [x]; x } functie drie(a, b, c) { [a, b, c] } drie(\"een\", h(2.5), h(\"drie\"))"),
        ("global-array-survives-calls", "stel a = [1.5, \"x\", [2.5]]; functie f(n) { stel s = \"tmp\"; [n * 1.5, s] } stel i = 0; zolang i < 20 { f(1.0); i += 1 }; a"),
        ("alias-in-two-globals", "stel a = [\"s\", 1.5]; stel b = a; functie f() { 0 } f(); b[0] = \"t\"; f(); [a, b]"),
        ("cyclic-array", "stel a = [1.5, 2]; a[1] = a; functie f() { [3.5] } f(); f(); lengte(a)"),
        ("cyclic-pair", "stel a = [0]; stel b = [a]; a[0] = b; functie f() { \"x\" } f(); lengte(b)"),
        ("self-assign-string", "stel s = \"abcdefghijklmnopqrstuvwxyz\"; s[0] = s; lengte(s)"),
        ("self-assign-string-short", "stel s = \"ab\"; s[1] = s; s"),
        ("string-index-allocates", "stel s = \"hallo\"; functie f(t) { t[0] } stel i = 0; stel r = \"\"; zolang i < 5 { r = f(s); i += 1 }; r"),
        ("returned-through-calls", "functie a() { [1.5, \"diep\"] } functie b() { a() } functie c() { b() } stel x = c(); c(); x"),
        ("result-is-constant", "\"alleen een constante\""),
        ("result-array-of-constants", "[\"a\", 1.5, \"a\", 1.5]"),
        ("result-shares-with-global", "stel g = [1.5]; functie f() { 0 } f(); [g, g]"),
        ("float-loop", "functie f(n) { stel x = 0.5; stel i = 0; zolang i < n { x = x * 1.5 + 0.25; i += 1 }; x } f(50)"),
        ("last-statement-value-root", "functie f() { [9.5] } [1.5, \"laatste\"]; f(); f(); 1"),
        ("procedure-return-last-value-root", "functie p() { stel x = 1 } [1.5, \"laatste\"]; p(); stel q = p(); 1"),
        ("procedure-return-last-value-is-result", "functie p() { stel x = 1 } [1.5, \"laatste\"]; stel q = p()"),
        ("empty-function-return-roots", "functie leeg() { } stel g = [2.5, \"globaal\"]; \"laatste waarde\"; leeg(); stel r = leeg(); g"),
        ("procedure-pending-operands", "functie p(v) { stel kopie = [v] } [\"a\", 1.5, p(2.5), [3.5], p(\"s\")]"),
        ("procedure-pending-arguments", "functie p(v) { stel kopie = v } functie drie(a, b, c) { [a, b, c] } drie(\"een\", p(1), [2.5])"),
        ("procedure-in-loop", "functie p(v) { stel t = [v, v] } stel acc = [\"begin\"]; stel i = 0; zolang i < 5 { i += 1; string(i); p(i); acc[0] = string(i) }; acc"),
        ("error-after-allocations", "stel a = [1.5, \"x\"]; functie f() { [2.5] } f(); a[7]"),
        ("error-inside-call", "functie f(x) { stel t = [x, 1.5]; t[5] } f(\"arg\")"),
        ("compile-error-after-constants", "\"abc\"; 1.5; [2.5, \"def\"]; onbekend"),
        ("parse-error-after-constants", "\"abc\"; 1.5; stel = 5"),
        ("builtin-results", "functie f() { 0 } stel a = [string(1), type(2), float(3), string(4.5)]; f(); a"),
        ("nested-deep", "stel a = [[[[[[1.5]]]]]]; functie f() { 0 } f(); a"),
        ("overwrite-makes-garbage", "stel a = [1.5]; functie f() { 0 } a = [2.5]; a = \"nu een string\"; f(); a"),
        ("array-element-overwrite", "stel a = [\"een\", \"twee\"]; functie f() { 0 } a[0] = \"drie\"; f(); a[1] = [4.5]; f(); a"),
        ("negate-float", "functie f(x) { -x } f(1.5)"),
        // buffers owned by a box (the text of a string, the elements of an array) in their corner cases: emptied in place,
        // grown in place, never filled; released with the box on every exit path (the valgrind family and the Miri pass
        // see the buffers, the ledger sees the boxes)
        ("string-emptied-in-place", "stel s = \"a\"; s[0] = \"\"; functie f() { 0 } f(); lengte(s)"),
        ("string-emptied-step-by-step", "stel s = \"abc\"; s[0] = \"\"; s[0] = \"\"; s[0] = \"\"; stel t = \"é\"; t[0] = \"\"; [lengte(s), lengte(t)]"),
        ("string-grown-in-place", "stel s = \"a\"; s[0] = \"een veel langere tekst dan er eerst stond\"; functie f() { 0 } f(); lengte(s)"),
        ("empty-strings-and-arrays", "functie f() { [\"\", [], [[]], \"\" + \"\"] } f(); stel leeg = f(); lengte(leeg)"),
        ("string-emptied-then-error", "stel s = \"xy\"; s[0] = \"\"; s[0] = \"\"; s[5]"),
        ("many-temporaries", "functie f(i) { [string(i), float(i), [i]] } stel i = 0; stel last = 0; zolang i < 30 { last = f(i); i += 1 }; last"),
    ]
}

// ------------------------------------------------------------------------------------------------
// the collector driven directly (independent of the VM)

#[derive(Clone, Debug)]
enum GOp {
    AllocFloat,
    AllocStr,
    AllocArr(Vec<usize>),
    Link(usize, usize),
    Root(usize),
    Unroot(usize),
    Collect,
    HandOver(usize),
    DropGc,
}

#[derive(Clone)]
struct MObj {
    obj: Object,
    is_array: bool,
    elems: Vec<usize>,
    managed: bool,
    alive: bool,
    /// may no longer be used by later operations (holds a reference to a released object)
    tainted: bool,
    digest: u64,
    /// allocation sequence number of the box in the ledger: with real releases (sanitizer flavours) the allocator
    /// hands the address of a released box out again, so identity is (address, sequence number)
    seq: u64,
}

fn describe_ops(ops: &[GOp]) -> String {
    ops.iter().map(|o| format!("{:?}", o)).collect::<Vec<_>>().join("; ")
}

/// run one op sequence against the real collector and the model; Err(description) on disagreement
fn run_driver(ops: &[GOp], st: &mut Stats, which: Which, real_frees: bool) -> Result<(), (String, String)> {
    verif::reset_all();
    // under a sanitizer the boxes are really released (ledger only), so that it sees what the collector touches
    verif::set_shadow(if real_frees { ShadowMode::Ledger } else { ShadowMode::Quarantine });
    verif::set_stop_on_event(false);
    verif::set_probes(true);
    heapmon::install();
    let _ = heapmon::take_findings();
    let mut objs: Vec<MObj> = vec![];
    let mut roots: Vec<usize> = vec![];
    let mut gc = Some(GC::new());
    let mut failure: Option<(String, String)> = None;
    let r = catch_unwind(AssertUnwindSafe(|| {
        for (step, op) in ops.iter().enumerate() {
            let usable = |objs: &Vec<MObj>, i: usize| i < objs.len() && objs[i].alive && !objs[i].tainted;
            match op {
                GOp::AllocFloat | GOp::AllocStr | GOp::AllocArr(_) => {
                    let g = match gc.as_mut() {
                        Some(g) => g,
                        None => continue,
                    };
                    let (obj, is_array, elems) = match op {
                        GOp::AllocFloat => (Object::float(objs.len() as f64 + 0.5, g), false, vec![]),
                        GOp::AllocStr => (Object::string(format!("s{}", objs.len()), g), false, vec![]),
                        GOp::AllocArr(e) => {
                            let e: Vec<usize> = e.iter().copied().filter(|i| usable(&objs, *i)).collect();
                            let v: Vec<Object> = e.iter().map(|i| objs[*i].obj).collect();
                            (Object::array(v, g), true, e)
                        }
                        _ => unreachable!(),
                    };
                    let a = verif::addr(obj);
                    let seq = verif::ledger().iter().find(|e| e.0 == a && e.2).map(|e| e.3).unwrap_or(0);
                    objs.push(MObj { obj, is_array, elems, managed: true, alive: true, tainted: false, digest: 0, seq });
                    st.count("driver:alloc");
                }
                GOp::Link(a, b) => {
                    if usable(&objs, *a) && usable(&objs, *b) && objs[*a].is_array {
                        let mut ao = objs[*a].obj;
                        ao.as_vec_mut().push(objs[*b].obj);
                        objs[*a].elems.push(*b);
                        st.count("driver:link");
                        if a == b {
                            st.count("driver:self-link");
                        }
                    }
                }
                GOp::Root(a) => {
                    if usable(&objs, *a) && !roots.contains(a) {
                        roots.push(*a);
                    }
                }
                GOp::Unroot(a) => roots.retain(|x| x != a),
                GOp::HandOver(a) => {
                    if let (true, Some(g)) = (usable(&objs, *a), gc.as_mut()) {
                        g.untrace(objs[*a].obj);
                        // model: untrace removes the object and, if it was managed and is an array, recursively its elements
                        fn untrace(objs: &mut Vec<MObj>, i: usize) {
                            if !objs[i].managed {
                                return;
                            }
                            objs[i].managed = false;
                            if objs[i].is_array {
                                let e = objs[i].elems.clone();
                                for x in e {
                                    untrace(objs, x);
                                }
                            }
                        }
                        untrace(&mut objs, *a);
                        st.count("driver:handover");
                    }
                }
                GOp::Collect | GOp::DropGc => {
                    // digests of everything alive before
                    for o in objs.iter_mut() {
                        if o.alive && !o.tainted {
                            o.digest = heapmon::digest(o.obj);
                        }
                    }
                    // model reachability from the roots (through managed and unmanaged arrays alike)
                    let mut reach = vec![false; objs.len()];
                    if matches!(op, GOp::Collect) {
                        let mut todo: Vec<usize> = roots.iter().copied().filter(|i| objs[*i].alive).collect();
                        while let Some(i) = todo.pop() {
                            if reach[i] || !objs[i].alive {
                                continue;
                            }
                            reach[i] = true;
                            for e in &objs[i].elems {
                                todo.push(*e);
                            }
                        }
                    }
                    let any_managed = objs.iter().any(|o| o.alive && o.managed);
                    match op {
                        GOp::Collect => {
                            if let Some(g) = gc.as_mut() {
                                let root_objs: Vec<Object> = roots.iter().filter(|i| objs[**i].alive).map(|i| objs[*i].obj).collect();
                                let (a, b) = root_objs.split_at(root_objs.len() / 2);
                                g.run(&[a, b]);
                                st.count("driver:collect");
                            } else {
                                continue;
                            }
                        }
                        _ => {
                            if gc.take().is_none() {
                                continue;
                            }
                            st.count("driver:dropgc");
                        }
                    }
                    // expected: managed and unreachable -> released (a collection with nothing managed does nothing at all)
                    for (i, o) in objs.iter_mut().enumerate() {
                        if o.alive && o.managed && !reach[i] && any_managed {
                            o.alive = false;
                            o.managed = false;
                        }
                    }
                    // compare with the ledger
                    let led: std::collections::HashMap<usize, (bool, u64)> = verif::ledger().into_iter().map(|e| (e.0, (e.2, e.3))).collect();
                    for (i, o) in objs.iter().enumerate() {
                        // (in ledger mode a released box has no entry any more, or the entry of a newer box at the same address)
                        let live = Some(matches!(led.get(&verif::addr(o.obj)), Some((true, s)) if *s == o.seq));
                        if o.alive && live != Some(true) {
                            failure = Some(("driver:reachable-or-unmanaged-object-released".to_string(), format!("after step {} ({:?}) object #{} should be allocated but is released", step, op, i)));
                            return;
                        }
                        if !o.alive && live == Some(true) {
                            failure = Some(("driver:garbage-retained".to_string(), format!("after step {} ({:?}) object #{} should have been released but is still allocated", step, op, i)));
                            return;
                        }
                        if o.alive && !o.tainted && heapmon::digest(o.obj) != o.digest {
                            failure = Some(("driver:object-changed".to_string(), format!("after step {} ({:?}) object #{} changed", step, op, i)));
                            return;
                        }
                    }
                    // objects that now hold a reference to a released object are not used any more
                    let dead: Vec<bool> = objs.iter().map(|o| !o.alive).collect();
                    for o in objs.iter_mut() {
                        if o.alive && o.elems.iter().any(|e| dead[*e]) {
                            o.tainted = true;
                        }
                    }
                    loop {
                        let t: Vec<bool> = objs.iter().map(|o| o.tainted).collect();
                        let mut changed = false;
                        for o in objs.iter_mut() {
                            if o.alive && !o.tainted && o.elems.iter().any(|e| t[*e]) {
                                o.tainted = true;
                                changed = true;
                            }
                        }
                        if !changed {
                            break;
                        }
                    }
                    roots.retain(|r| objs[*r].alive && !objs[*r].tainted);
                }
            }
        }
        // end: drop the collector, then release what is unmanaged and alive exactly once
        if let Some(g) = gc.take() {
            drop(g);
            for o in objs.iter_mut() {
                if o.alive && o.managed {
                    o.alive = false;
                }
            }
        }
        for o in objs.iter() {
            if o.alive {
                o.obj.free();
            }
        }
    }));
    let events = verif::take_events();
    let (reach_f, managed_f) = heapmon::take_findings();
    let live = verif::live_count();
    verif::clear_ledger();
    verif::set_stop_on_event(true);
    if let Some(f) = failure {
        return Err(f);
    }
    if r.is_err() {
        let (l, m) = crate::obs::take_panic();
        return Err(("driver:panic".to_string(), format!("panic at {}: {}", l, m)));
    }
    if let Some(e) = events.first() {
        return Err((format!("driver:{}", event_class(e)), format!("{:?}", events)));
    }
    match which {
        Which::C03 => {
            if let Some(f) = reach_f.first() {
                return Err(("driver:gc-postcondition".to_string(), f.clone()));
            }
        }
        Which::C04 => {
            if let Some(f) = managed_f.first() {
                return Err(("driver:gc-managed-set".to_string(), f.clone()));
            }
            if live != 0 {
                return Err(("driver:ledger-not-empty".to_string(), format!("{} boxes still allocated after the collector was dropped and every unmanaged object released", live)));
            }
        }
    }
    Ok(())
}

fn random_ops(r: &mut Rng, n_ops: usize, universe: usize) -> Vec<GOp> {
    let mut ops = vec![];
    for _ in 0..n_ops {
        let x = r.below(universe as u64) as usize;
        let y = r.below(universe as u64) as usize;
        ops.push(match r.below(14) {
            0 => GOp::AllocFloat,
            1 => GOp::AllocStr,
            2 | 3 => GOp::AllocArr((0..r.below(3)).map(|_| r.below(universe as u64) as usize).collect()),
            4 | 5 => GOp::Link(x, y),
            6 | 7 => GOp::Root(x),
            8 => GOp::Unroot(x),
            9 | 10 | 11 => GOp::Collect,
            12 => GOp::HandOver(x),
            _ => {
                if r.chance(1, 6) {
                    GOp::DropGc
                } else {
                    GOp::Collect
                }
            }
        });
    }
    ops
}

/// i-th sequence of the bounded-exhaustive part: `len` ops over 3 objects from a small op alphabet
fn exhaustive_ops(mut i: u64, len: usize) -> Vec<GOp> {
    let alphabet: Vec<GOp> = vec![
        GOp::AllocFloat,
        GOp::AllocArr(vec![]),
        GOp::AllocArr(vec![0]),
        GOp::Link(1, 0),
        GOp::Link(1, 1),
        GOp::Link(1, 2),
        GOp::Root(0),
        GOp::Root(1),
        GOp::Unroot(1),
        GOp::Collect,
        GOp::HandOver(1),
        GOp::DropGc,
    ];
    let n = alphabet.len() as u64;
    let mut ops = vec![];
    for _ in 0..len {
        ops.push(alphabet[(i % n) as usize].clone());
        i /= n;
    }
    ops
}
const EXH_ALPHABET: u64 = 12;

impl Heap {
    pub fn new(which: Which) -> Self {
        Heap { which }
    }

    fn fams(&self, ctx: &Ctx) -> Families {
        let (progs, drv, exh_len, cut_programs) = match (ctx.flavour, ctx.tier) {
            (Flavour::Rel, Tier::Quick) => (20_000, 20_000, 4, 150),
            (Flavour::Rel, Tier::Thorough) => (1_000_000, 1_000_000, 5, 5_000),
            (Flavour::Miri, _) => (60, 150, 2, 6),
            (_, Tier::Quick) => (1_000, 1_000, 3, 10),
            _ => (20_000, 20_000, 4, 100),
        };
        let exh: u64 = (1..=exh_len).map(|l| EXH_ALPHABET.pow(l)).sum();
        let vg = if ctx.flavour != Flavour::Rel {
            0
        } else {
            (directed().len() + super::c13::directed().len()) as u64 + ctx.tier.pick(0, 300)
        };
        let mut f = vec![("directed", directed().len() as u64), ("heap-programs", progs), ("driver-exhaustive", exh), ("driver-random", drv), ("valgrind", vg)];
        if self.which == Which::C04 {
            f.push(("abort-points", cut_programs));
        }
        // one machine, a fresh compiler for every program (the library allows it; eval, the binary and the prompt never do)
        f.push(("one-machine-many-compilers", match (ctx.flavour, ctx.tier) { (Flavour::Miri, _) => 20, (Flavour::Rel, Tier::Quick) => 3_000, (Flavour::Rel, Tier::Thorough) => 200_000, (_, Tier::Quick) => 300, _ => 3_000 }));
        // millions of allocations in one loop, without a function return in between: what a collector does only "after a
        // while" (a threshold, a generation, a grown table) happens inside these runs
        f.push(("long-runs", match (ctx.flavour, ctx.tier) { (Flavour::Miri, _) => 0, (Flavour::Rel, Tier::Thorough) => (LONG_RUNS * 3) as u64, _ => LONG_RUNS as u64 }));
        // an array of n values of which exactly one (slot k) lives on the heap: every n up to a bound, every k
        f.push(("lone-heap-element", match (ctx.flavour, ctx.tier) { (Flavour::Miri, _) => 48, (Flavour::Rel, Tier::Thorough) => lone_total(LONE_N_THOROUGH), _ => lone_total(LONE_N_QUICK) }));
        f.push(("scale", if ctx.flavour == Flavour::Miri { 0 } else { crate::scale::heap_programs(ctx.flavour == Flavour::Rel && ctx.tier == Tier::Thorough).len() as u64 }));
        Families::new(f)
    }

    fn program_text(&self, ctx: &Ctx, idx: u64) -> (&'static str, String) {
        let (f, name, i) = self.fams(ctx).locate(idx);
        let mut r = Rng::for_case(ctx.seed, 300 + f as u64, i);
        match name {
            "directed" => (name, directed()[i as usize].1.to_string()),
            "one-machine-many-compilers" => (name, machine_programs(&mut r, ctx.flavour != Flavour::Miri).join("\n//---- next program, fresh compiler\n")),
            "lone-heap-element" => (name, lone_heap_element(if ctx.flavour == Flavour::Miri { (i * 211) % lone_total(LONE_N_QUICK) } else { i })),
            "long-runs" => (name, long_run((i as usize) % LONG_RUNS, long_run_size(ctx, i)).0),
            "scale" => (name, crate::scale::heap_programs(ctx.flavour == Flavour::Rel && ctx.tier == Tier::Thorough)[i as usize].1.clone()),
            "valgrind" => {
                let d = directed();
                let d13 = super::c13::directed();
                if (i as usize) < d.len() {
                    (name, d[i as usize].1.to_string())
                } else if (i as usize) < d.len() + d13.len() {
                    (name, d13[i as usize - d.len()].1.to_string())
                } else {
                    let (p, _) = random_program(&mut r, Profile::Heap);
                    (name, to_text(&p))
                }
            }
            "heap-programs" | "abort-points" => {
                let profile = if i % 4 == 3 { Profile::Calls } else { Profile::Heap };
                let (p, _) = random_program(&mut r, profile);
                (name, to_text(&p))
            }
            "driver-exhaustive" => {
                let mut k = i;
                let mut len = 1;
                loop {
                    let block = EXH_ALPHABET.pow(len);
                    if k < block {
                        break;
                    }
                    k -= block;
                    len += 1;
                }
                (name, describe_ops(&exhaustive_ops(k, len as usize)))
            }
            _ => {
                let n = r.range(10, 40) as usize;
                (name, describe_ops(&random_ops(&mut r, n, 8)))
            }
        }
    }

    fn cfg(ctx: &Ctx) -> ObsCfg {
        match ctx.flavour {
            Flavour::Asan | Flavour::Miri => ObsCfg::plain(500_000),
            _ => {
                let mut c = ObsCfg::default();
                c.budget = Some(500_000);
                c
            }
        }
    }

    /// one evaluation under the heap monitors; records violations; returns the instruction count
    fn eval_and_audit(&self, text: &str, cfg: &ObsCfg, fam: &str, label: &str, st: &mut Stats) -> u64 {
        self.eval_and_audit_o(text, cfg, fam, label, st).0
    }

    fn eval_and_audit_o(&self, text: &str, cfg: &ObsCfg, fam: &str, label: &str, st: &mut Stats) -> (u64, Outcome) {
        let o = eval_observed(text, cfg);
        st.evaluations += 1;
        let (reach_f, managed_f) = heapmon::take_findings();
        let (cycles, cycles_live, reach_total, reach_max, freed_total, freed_max) = heapmon::take_counters();
        st.add("gc-cycles", cycles);
        st.add("gc-cycles-with-live-heap", cycles_live);
        st.add("gc-reachable-objects-total", reach_total);
        st.max("gc-reachable-objects-max", reach_max);
        st.add("gc-objects-freed-total", freed_total);
        st.max("gc-objects-freed-max", freed_max);
        let (allocs, frees) = verif::alloc_free_totals();
        st.max("allocations-total-so-far-in-worker", allocs);
        st.max("releases-total-so-far-in-worker", frees);
        st.count(&format!("outcome:{}", o.outcome.class().split('@').next().unwrap_or("")));
        match self.which {
            Which::C03 => {
                for e in &o.events {
                    let c = event_class(e);
                    if c == "use-after-free" || c == "double-free" || c.starts_with("probe:gc") {
                        st.violation(&format!("{}:{}{}", fam, label, c), format!("shadow heap: {:?}; outcome {}", o.events, o.outcome.render()), text);
                        return (o.count, o.outcome);
                    }
                }
                if let Some(f) = reach_f.first() {
                    st.violation(&format!("{}:{}gc-postcondition", fam, label), f.clone(), text);
                }
                if let Outcome::Panic(l, m) = &o.outcome {
                    st.violation(&format!("{}:{}panic@{}", fam, label, crate::obs::short_loc(l)), m.clone(), text);
                }
            }
            Which::C04 => {
                if o.events.iter().any(|e| event_class(e) == "double-free") {
                    st.violation(&format!("{}:{}double-free", fam, label), format!("{:?}", o.events), text);
                    return (o.count, o.outcome);
                }
                // the returned result must stay valid after the interpreter is gone: the harness walks it and releases
                // each distinct object once, after eval returned
                if o.stop_in_walk {
                    let c = o.events.first().map(event_class).unwrap_or_default();
                    st.violation(&format!("{}:{}result-not-valid-after-eval:{}", fam, label, c), format!("eval returned a value, but walking / releasing its object graph afterwards hit: {:?}", o.events), text);
                    return (o.count, o.outcome);
                }
                if let Some(f) = managed_f.first() {
                    st.violation(&format!("{}:{}gc-managed-set", fam, label), f.clone(), text);
                }
                // the ledger: nothing may remain after the run (and after releasing the result graph)
                if !matches!(o.outcome, Outcome::Stop | Outcome::Panic(..)) && o.live_after != 0 && cfg.shadow != ShadowMode::Off {
                    let what = match &o.outcome {
                        Outcome::Value(_) => "leak-after-run",
                        Outcome::Budget => "leak-after-abort",
                        _ => "leak-after-error",
                    };
                    st.violation(
                        &format!("{}:{}{}", fam, label, what),
                        format!("{} boxes still allocated after the run ended with {} and its result graph ({} objects) was released", o.live_after, o.outcome.render(), o.result_objects),
                        text,
                    );
                }
                st.add("result-objects-released", o.result_objects as u64);
            }
        }
        verif::clear_ledger();
        (o.count, o.outcome)
    }
}

const LONE_N_QUICK: u64 = 40;
const LONE_N_THOROUGH: u64 = 150;
const LONE_VARIANTS: u64 = 12;

fn lone_total(n_max: u64) -> u64 {
    LONE_VARIANTS * n_max * (n_max + 1) / 2
}

/// An array of n values, small integers except for slot k, which holds a value made at run time (a float, a string, an
/// array); the array is held by a global / filled in afterwards / held by a local / held inside another array; a
/// function returns (a collection), fresh values are made (a reclaimed box would be handed out again), slot k is read.
/// A collector that decides from a sample of the elements whether an array needs tracing is wrong for one (n, k).
fn lone_heap_element(i: u64) -> String {
    let kind = i % 3;
    let shape = (i / 3) % 4;
    let mut j = i / LONE_VARIANTS;
    let mut n = 1u64;
    while j >= n {
        j -= n;
        n += 1;
    }
    let k = j;
    let heap = match kind {
        0 => "0.5 + 0.25".to_string(),
        1 => "string(12345)".to_string(),
        _ => "[7.5 - 0.25]".to_string(),
    };
    let items = |with_heap: bool| -> String {
        (0..n).map(|x| if x == k && with_heap { heap.clone() } else { x.to_string() }).collect::<Vec<_>>().join(", ")
    };
    let churn = "stel b = 1.5 + 2.0; stel c = string(777); stel d = [2.5 + 4.0]";
    match shape {
        0 => format!("functie f() {{ 0 }}\nstel a = [{}]\nf()\n{}\nf();\n[a[{}], b, c, d]", items(true), churn, k),
        1 => format!("functie f() {{ 0 }}\nstel a = [{}]\na[{}] = {}\nf()\n{}\nf();\n[a[{}], b, c, d]", items(false), k, heap, churn, k),
        2 => format!("functie f() {{ 0 }}\nfunctie g() {{ stel a = [{}]; f(); {}; f(); [a[{}], b, c, d] }}\ng()", items(true), churn, k),
        _ => format!("functie f() {{ 0 }}\nstel a = [1, [{}], 2]\nf()\n{}\nf()\nstel r = a[1];\n[r[{}], b, c, d]", items(true), churn, k),
    }
}

/// two to five allocating programs, each ending in an immediate value (nobody owns a result), for one machine
fn machine_programs(r: &mut Rng, use_reference: bool) -> Vec<String> {
    let k = 2 + r.below(4);
    (0..k)
        .map(|j| {
            // (the reference interpreter, which filters the generated programs, leaks reference cycles of its own: not under
            //  Miri's leak check)
            if r.chance(1, 4) || !use_reference {
                // short and full of heap constants
                let n = 1 + r.below(6);
                let mut t = String::new();
                for q in 0..n {
                    t.push_str(&format!("stel v{} = [\"tekst {} {}\", {}.25, [\"diep\", {}.5]]; ", q, j, q, q + j, q));
                }
                format!("{}{}", t, ["0", "nee", "onbekend", "[1][5]", "1 / 0", "lengte(v0)"][r.below(6) as usize])
            } else {
                // (programs whose meaning the documentation fixes: a variable read inside its own initialiser would see
                //  what an earlier program left in the machine's table of globals)
                let mut out = "stel v = [1.5, \"x\"]; 0".to_string();
                for _ in 0..6 {
                    let profile = if r.chance(1, 4) { Profile::Calls } else { Profile::Heap };
                    let tree = random_program(r, profile).0;
                    if crate::refsem::static_check(&tree).unspecified.is_some() {
                        continue;
                    }
                    if matches!(crate::refsem::run_program(&tree, 100_000).outcome, crate::refsem::RefOutcome::Unspecified(_) | crate::refsem::RefOutcome::OutOfSteps) {
                        continue;
                    }
                    out = format!("{};\n0", to_text(&tree));
                    break;
                }
                out
            }
        })
        .collect()
}

const LONG_RUNS: usize = 9;
const LONG_RUN_NAMES: [&str; LONG_RUNS] = ["floats-into-old-array", "strings-into-old-array", "arrays-into-old-array", "old-globals", "inside-a-function", "through-an-old-outer-array", "old-array-from-an-earlier-loop", "a-collection-per-iteration", "a-collection-per-iteration-deep-recursion"];

/// loop iterations of long-run case `i`: the templates with a collection in every iteration are audited at every one of
/// them (the reachable set is recomputed each time) and run under AddressSanitizer as well, so they are smaller — still
/// beyond 2^16 collections
fn long_run_size(ctx: &Ctx, i: u64) -> usize {
    let template = (i as usize) % LONG_RUNS;
    let step = (i as usize) / LONG_RUNS;
    match (template >= 7, ctx.flavour == Flavour::Rel) {
        (false, true) => [400_000, 1_200_000, 3_000_000][step],
        (false, false) => 400_000,
        (true, true) => [150_000, 300_000, 600_000][step],
        (true, false) => 70_000,
    }
}

/// (program, value): an array that has survived a collection receives fresh heap values in a loop of `n` iterations that
/// also makes garbage; after the loop (and one more collection) everything is read back
fn long_run(which: usize, n: usize) -> (String, Val) {
    let f = |x: usize| Val::Float(x as f64 * 1.5);
    let last = |k: usize| -> usize {
        // the last i < n with i % 8 == k
        let r = (n - 1) % 8;
        if r >= k { n - 1 - (r - k) } else { n - 1 - r - (8 - k) }
    };
    let floats: Vec<Val> = (0..8).map(|k| f(last(k))).collect();
    // a second old array is written only five times in the whole run (at i = 0, p, 2p, 3p, 4p): whatever the collector
    // does in between, these values are still there at the end
    let p = n / 5 + 1;
    match which {
        0 => (
            format!("functie maak() {{ [0.5, 0.5, 0.5, 0.5, 0.5, 0.5, 0.5, 0.5] }}; functie lees() {{ 0 }}; stel oud = maak(); stel zelden = maak(); stel i = 0; zolang i < {n} {{ oud[i % 8] = float(i) * 1.5; als i % {p} == 0 {{ zelden[i / {p}] = float(i) * 1.5; 0 }}; stel rommel = [i, \"weg\"]; i += 1 }}; lees(); [oud[0], oud[1], oud[2], oud[3], oud[4], oud[5], oud[6], oud[7], zelden]", n = n, p = p),
            Val::Array(floats.iter().cloned().chain(std::iter::once(Val::Array((0..8).map(|k| if k < 5 { f(k * p) } else { Val::Float(0.5) }).collect()))).collect()),
        ),
        1 => (
            format!("functie maak() {{ [\"\", \"\", \"\", \"\", \"\", \"\", \"\", \"\"] }}; functie lees() {{ 0 }}; stel oud = maak(); stel zelden = maak(); stel i = 0; zolang i < {n} {{ oud[i % 8] = string(i); als i % {p} == 0 {{ zelden[i / {p}] = string(i); 0 }}; stel rommel = [float(i) * 0.5]; i += 1 }}; lees(); [oud[0], oud[1], oud[2], oud[3], oud[4], oud[5], oud[6], oud[7], zelden]", n = n, p = p),
            Val::Array((0..8).map(|k| Val::Str(format!("{}", last(k)))).chain(std::iter::once(Val::Array((0..8).map(|k| if k < 5 { Val::Str(format!("{}", k * p)) } else { Val::Str(String::new()) }).collect()))).collect()),
        ),
        2 => (
            format!("functie maak() {{ [0, 0, 0, 0, 0, 0, 0, 0] }}; functie lees() {{ 0 }}; stel oud = maak(); stel zelden = maak(); stel i = 0; zolang i < {n} {{ oud[i % 8] = [i, [float(i) * 1.5]]; als i % {p} == 0 {{ zelden[i / {p}] = [i, [float(i) * 1.5]]; 0 }}; stel rommel = string(i); i += 1 }}; lees(); [oud[0], oud[3], oud[7], zelden]", n = n, p = p),
            Val::Array([0usize, 3, 7].iter().map(|&k| Val::Array(vec![Val::Int(last(k) as i64), Val::Array(vec![f(last(k))])])).chain(std::iter::once(Val::Array((0..8).map(|k| if k < 5 { Val::Array(vec![Val::Int((k * p) as i64), Val::Array(vec![f(k * p)])]) } else { Val::Int(0) }).collect()))).collect()),
        ),
        3 => (
            format!("functie lees() {{ 0 }}; stel g0 = 0.5; stel g1 = \"een\"; stel g2 = [0.5]; lees(); stel i = 0; zolang i < {n} {{ g0 = float(i) * 1.5; g1 = string(i); g2 = [g0, g1]; stel rommel = [i]; i += 1 }}; lees(); [g0, g1, g2]", n = n),
            Val::Array(vec![f(n - 1), Val::Str(format!("{}", n - 1)), Val::Array(vec![f(n - 1), Val::Str(format!("{}", n - 1))])]),
        ),
        4 => (
            format!("functie maak() {{ [0.5, 0.5, 0.5, 0.5, 0.5, 0.5, 0.5, 0.5] }}; functie werk() {{ stel oud = maak(); stel laatste = 0.5; stel i = 0; zolang i < {n} {{ oud[i % 8] = float(i) * 1.5; laatste = [float(i) * 1.5]; stel rommel = [i, \"weg\"]; i += 1 }}; [oud, laatste] }}; werk()", n = n),
            Val::Array(vec![Val::Array(floats), Val::Array(vec![f(n - 1)])]),
        ),
        5 => (
            format!("functie maak() {{ [[0.5, 0.5, 0.5, 0.5, 0.5, 0.5, 0.5, 0.5], \"buiten\"] }}; functie lees() {{ 0 }}; stel buiten = maak(); stel i = 0; zolang i < {n} {{ stel binnen = buiten[0]; binnen[i % 8] = float(i) * 1.5; stel rommel = [i, \"weg\"]; i += 1 }}; lees(); buiten", n = n),
            Val::Array(vec![Val::Array(floats), Val::Str("buiten".to_string())]),
        ),
        7 => (
            // a function returns in every iteration: more than 2^16 (2^20, 2^21) collections in one run, each with survivors
            format!("functie doos(x) {{ [x, float(x) * 1.5] }}; stel oud = [0, 0, 0, 0, 0, 0, 0, 0]; stel zelden = [0, 0, 0, 0, 0, 0, 0, 0]; stel i = 0; zolang i < {n} {{ stel d = doos(i); oud[i % 8] = d; als i % {p} == 0 {{ zelden[i / {p}] = d; 0 }}; i += 1 }}; [oud[0], oud[7], zelden[0], zelden[4], zelden[5]]", n = n, p = p),
            Val::Array(vec![Val::Array(vec![Val::Int(last(0) as i64), f(last(0))]), Val::Array(vec![Val::Int(last(7) as i64), f(last(7))]), Val::Array(vec![Val::Int(0), f(0)]), Val::Array(vec![Val::Int((4 * p) as i64), f(4 * p)]), Val::Int(0)]),
        ),
        8 => (
            // the same from inside a recursion 200 deep (the collections run with 200 frames of roots)
            format!("functie doos(x) {{ [x, float(x) * 1.5] }}; stel oud = [0, 0, 0, 0, 0, 0, 0, 0]; functie diep(k, n) {{ stel hier = [float(k) + 0.5]; als k > 0 {{ antwoord diep(k - 1, n) + hier[0] * 0.0 }}; stel i = 0; zolang i < n {{ oud[i % 8] = doos(i); i += 1 }}; 1.0 }}; [diep(200, {n}), oud[0], oud[7]]", n = n),
            Val::Array(vec![Val::Float(1.0), Val::Array(vec![Val::Int(last(0) as i64), f(last(0))]), Val::Array(vec![Val::Int(last(7) as i64), f(last(7))])]),
        ),
        _ => (
            // the old array is made by an earlier loop of the same size (no function at all until the end)
            format!("stel oud = [0.5, 0.5, 0.5, 0.5, 0.5, 0.5, 0.5, 0.5]; stel j = 0; zolang j < {n} {{ stel rommel = [float(j) * 0.5]; j += 1 }}; stel i = 0; zolang i < {n} {{ oud[i % 8] = float(i) * 1.5; stel rommel = [i, \"weg\"]; i += 1 }}; functie lees() {{ 0 }}; lees(); oud", n = n),
            Val::Array(floats),
        ),
    }
}

impl Check for Heap {
    fn id(&self) -> &'static str {
        match self.which {
            Which::C03 => "C03",
            Which::C04 => "C04",
        }
    }
    fn level(&self) -> &'static str {
        match self.which {
            Which::C03 => "exploration",
            Which::C04 => "fault_enumeration",
        }
    }
    fn total_cases(&self, ctx: &Ctx) -> u64 {
        self.fams(ctx).total()
    }
    fn chunk_size(&self, _ctx: &Ctx) -> u64 {
        // small chunks: the valgrind cases at the end take about a second each and should spread over the workers
        16
    }
    fn describe_case(&mut self, ctx: &Ctx, idx: u64) -> String {
        self.program_text(ctx, idx).1
    }
    // (the long runs take a minute or two of CPU time each under the shadow heap: that is work, not a hang)
    fn chunk_timeout_s(&self, _ctx: &Ctx) -> u64 {
        1_800
    }
    fn case_timeout_s(&self, _ctx: &Ctx) -> u64 {
        600
    }

    fn run_case(&mut self, ctx: &Ctx, idx: u64, st: &mut Stats) {
        let (f, name, i) = self.fams(ctx).locate(idx);
        let mut r = Rng::for_case(ctx.seed, 300 + f as u64, i);
        st.count(&format!("cases:{}", name));
        match name {
            "driver-exhaustive" | "driver-random" => {
                let ops = if name == "driver-exhaustive" {
                    let mut k = i;
                    let mut len = 1;
                    loop {
                        let block = EXH_ALPHABET.pow(len);
                        if k < block {
                            break;
                        }
                        k -= block;
                        len += 1;
                    }
                    exhaustive_ops(k, len as usize)
                } else {
                    let n = r.range(10, 40) as usize;
                    random_ops(&mut r, n, 8)
                };
                st.evaluations += 1;
                let text = describe_ops(&ops);
                st.distinct_hash(hash_str(&text));
                if i % 4999 == 0 {
                    st.sample(&format!("[collector driver] {}", text));
                }
                let real_frees = matches!(ctx.flavour, Flavour::Asan | Flavour::Miri);
                if let Err((sig, detail)) = run_driver(&ops, st, self.which, real_frees) {
                    st.violation(&sig, detail, &text);
                }
                let (c, cl, _, _, ft, _) = heapmon::take_counters();
                st.add("driver:gc-cycles", c);
                st.add("driver:gc-cycles-with-live-heap", cl);
                st.add("driver:objects-freed", ft);
            }
            "valgrind" => {
                // the hook-free release binary under valgrind memcheck: sees what the shadow heap cannot
                // (the buffers inside String / Vec) and confirms that the hooks mask nothing
                let (_, text) = self.program_text(ctx, idx);
                let bin_s = format!("{}/harness/target-repo/release/nederlang", crate::sup::root());
                let bin = bin_s.as_str();
                if !std::path::Path::new(bin).exists() {
                    st.inconclusive(format!("{} not built", bin));
                    return;
                }
                let path = format!("{}/vg-{}-{}.nl", crate::sup::scratch_dir(), std::process::id(), idx);
                // end in an immediate value: the binary never releases the result it prints
                let _ = std::fs::write(&path, format!("{}\n;0", text));
                let mut cmd = std::process::Command::new("timeout");
                cmd.arg("120").arg("valgrind").arg("-q").arg("--error-exitcode=99");
                match self.which {
                    Which::C03 => {
                        cmd.arg("--leak-check=no");
                    }
                    Which::C04 => {
                        cmd.arg("--leak-check=full").arg("--errors-for-leak-kinds=definite,indirect");
                    }
                }
                let out = cmd.arg(bin).arg(&path).stdin(std::process::Stdio::null()).output();
                let _ = std::fs::remove_file(&path);
                st.evaluations += 1;
                match out {
                    Ok(o) => {
                        st.count("valgrind:runs");
                        st.distinct_hash(hash_str(&text));
                        let err = String::from_utf8_lossy(&o.stderr).to_string();
                        match o.status.code() {
                            Some(99) => {
                                let class = if err.contains("Invalid read") {
                                    "invalid-read"
                                } else if err.contains("Invalid write") {
                                    "invalid-write"
                                } else if err.contains("Invalid free") || err.contains("Mismatched free") {
                                    "invalid-free"
                                } else if err.contains("uninitialised") {
                                    "uninitialised"
                                } else if err.contains("lost in loss record") {
                                    "leak"
                                } else {
                                    "error"
                                };
                                let mine = match self.which {
                                    Which::C03 => class != "leak",
                                    Which::C04 => class == "leak" || class == "invalid-free",
                                };
                                if mine {
                                    st.violation(&format!("valgrind:{}", class), crate::obs::clip(&err, 1500), &text);
                                }
                            }
                            Some(124) => st.count("case-inconclusive:valgrind-timeout"),
                            None => st.violation("valgrind:killed-by-signal", crate::obs::clip(&err, 800), &text),
                            _ => {}
                        }
                    }
                    Err(e) => st.inconclusive(format!("valgrind could not be started: {}", e)),
                }
            }
            "one-machine-many-compilers" => {
                let programs = machine_programs(&mut r, ctx.flavour != Flavour::Miri);
                let text = programs.join("\n//---- next program, fresh compiler\n");
                st.distinct_hash(hash_str(&text));
                st.add("one-machine:programs", programs.len() as u64);
                let shadow = match ctx.flavour {
                    Flavour::Asan | Flavour::Miri => ShadowMode::Off,
                    _ => ShadowMode::Quarantine,
                };
                verif::reset_all();
                verif::set_capture(true);
                verif::set_probes(shadow != ShadowMode::Off);
                verif::set_stop_on_event(true);
                verif::set_shadow(shadow);
                let run = catch_unwind(AssertUnwindSafe(|| {
                    let mut vm = nederlang::vm::VM::new();
                    let mut outcomes = vec![];
                    for p in &programs {
                        verif::reset_run();
                        verif::set_budget(Some(300_000));
                        let mut compiler = nederlang::compiler::Compiler::new();
                        let r = nederlang::parser::parse(p).and_then(|ast| compiler.compile_ast(&ast)).and_then(|code| vm.run(code));
                        outcomes.push(match r {
                            Ok(o) => format!("value:{}", o.tag() as u8),
                            Err(_) => "error".to_string(),
                        });
                        drop(compiler);
                    }
                    drop(vm);
                    outcomes
                }));
                st.evaluations += 1;
                let events: Vec<String> = verif::take_events().iter().map(event_class).collect();
                match run {
                    Err(p) => {
                        let what = if p.is::<nederlang::verif::VerifStop>() { format!("monitor-stop:{}", events.first().cloned().unwrap_or_default()) } else { let (l, _) = crate::obs::take_panic(); format!("panic@{}", crate::obs::short_loc(&l)) };
                        st.violation(&format!("{}:{}", name, what), format!("events {:?}", events), &text);
                    }
                    Ok(outcomes) => {
                        for o in &outcomes {
                            st.count(&format!("one-machine:program-outcome:{}", o.split(':').next().unwrap_or("")));
                        }
                        if let Some(e) = events.iter().find(|e| *e == "use-after-free" || *e == "double-free") {
                            st.violation(&format!("{}:{}", name, e), format!("events {:?}", events), &text);
                        } else if self.which == Which::C04 && shadow != ShadowMode::Off && verif::live_count() != 0 {
                            st.violation(&format!("{}:leak-after-the-machine-is-gone", name), format!("{} boxes still allocated after every program ended in an immediate value or an error, and machine and compilers were dropped (outcomes {:?})", verif::live_count(), outcomes), &text);
                        }
                    }
                }
                verif::clear_ledger();
            }
            "long-runs" => {
                heapmon::install();
                let iterations = long_run_size(ctx, i);
                let (text, want) = long_run((i as usize) % LONG_RUNS, iterations);
                let mut cfg = Self::cfg(ctx);
                cfg.budget = Some(iterations as u64 * 80);
                st.add("long-runs:loop-iterations", iterations as u64);
                let (n, outcome) = self.eval_and_audit_o(&text, &cfg, name, &format!("{}:", LONG_RUN_NAMES[(i as usize) % LONG_RUNS]), st);
                st.add("long-runs:instructions", n);
                st.distinct_hash(hash_str(&text));
                match &outcome {
                    Outcome::Value(v) if crate::val::same_val(v, &want) => {}
                    Outcome::Stop => {}
                    other => st.violation(
                        &format!("{}:{}:{}", name, LONG_RUN_NAMES[(i as usize) % LONG_RUNS], if matches!(other, Outcome::Value(_)) { "value".to_string() } else { other.class() }),
                        format!("after {} iterations: expected {}, got {}", iterations, crate::obs::clip(&crate::val::render_val(&want), 300), crate::obs::clip(&other.render(), 300)),
                        &text,
                    ),
                }
            }
            _ => {
                heapmon::install();
                let (_, text) = self.program_text(ctx, idx);
                let mut cfg = Self::cfg(ctx);
                if name == "scale" {
                    cfg.budget = Some(30_000_000);
                }
                let label = if name == "directed" { format!("{}:", directed()[i as usize].0) } else { String::new() };
                let before = st.violations.len();
                let (n, outcome) = self.eval_and_audit_o(&text, &cfg, name, &label, st);
                // the generated programs of this family are complete: one that ends without a value read nothing back
                if name == "lone-heap-element" && st.violations.len() == before && !matches!(outcome, Outcome::Value(_)) {
                    st.violation("lone-heap-element:no-value", format!("expected a list of four values, got {}", outcome.render()), &text);
                }
                if n >= 20 {
                    st.distinct_hash(hash_str(&text));
                }
                if idx % 3001 == 0 {
                    st.sample(&format!("[{}] {}", name, text));
                }
                if name == "abort-points" || (name == "directed" && self.which == Which::C04) {
                    // fault enumeration: cut the run after k instructions, for every k (selected k for long runs)
                    let ks: Vec<u64> = if ctx.flavour == Flavour::Miri {
                        // interpreted: a dozen cut points per program, spread over the run (the native tiers take every k)
                        (0..12).map(|j| j * n.max(1) / 12).collect()
                    } else if n <= 600 {
                        (0..n).collect()
                    } else {
                        (0..200).map(|j| j * n / 200).chain(0..100).collect()
                    };
                    for k in ks {
                        let mut c = cfg.clone();
                        c.budget = Some(k);
                        st.count("abort-points-tried");
                        let before = st.violations.len();
                        self.eval_and_audit(&text, &c, name, &label, st);
                        if st.violations.len() > before {
                            if let Some(v) = st.violations.last_mut() {
                                v.detail = format!("run cut after {} of {} instructions: {}", k, n, v.detail);
                            }
                            break;
                        }
                    }
                }
            }
        }
    }

    fn summarize(&self, ctx: &Ctx, merged: &Stats) -> Summary {
        let fams = self.fams(ctx);
        let mut inconclusive = vec![];
        let cyc = merged.counters.get("gc-cycles-with-live-heap").copied().unwrap_or(0);
        if cyc == 0 && ctx.flavour == Flavour::Rel {
            inconclusive.push("no collection with a live heap object was observed in the VM".to_string());
        }
        if merged.counters.get("driver:collect").copied().unwrap_or(0) == 0 {
            inconclusive.push("the collector driver never collected".to_string());
        }
        if self.which == Which::C04 && merged.counters.get("abort-points-tried").copied().unwrap_or(0) == 0 && ctx.flavour == Flavour::Rel {
            inconclusive.push("no abort point was tried".to_string());
        }
        let rule = match self.which {
            Which::C03 => "case = one allocating program (directed heap shapes; heap / calls profile random programs) run under the quarantine shadow heap, where every dereference of a Float/String/Array box is checked for liveness and a second release is reported, with a callback at the begin and end of every GC::run that computes the set reachable from the roots (stack, constants, globals, last value, value being returned) and demands that every member stays allocated with an unchanged content digest; or one operation sequence driving the collector directly (allocate, link incl. self-links, root, unroot, collect, hand over, drop) against a reachability model. distinct_nontrivial = distinct programs that dispatched >= 20 instructions and distinct driver sequences",
            Which::C04 => "as C03, with the ledger audited: after every GC::run the managed set equals managed-before ∩ reachable; after eval returns (value, error, or the run cut after k instructions for every k up to the length of the run) and the harness has released every distinct object of the result graph once, no box may remain allocated and nothing may be released twice. distinct_nontrivial = distinct programs / driver sequences",
        };
        Summary {
            rule: rule.to_string(),
            exhaustive: Some(true),
            extra: json!({
                "exhaustive_parts": ["collector driver: all operation sequences up to the tier's length over a 12-operation alphabet on 3 objects", "abort points: every k < N for runs of N <= 600 instructions (abort-points family and the directed corpus)"],
                "families": fams.fams.iter().map(|f| json!({"name": f.0, "cases": f.1})).collect::<Vec<_>>(),
            }),
            assumptions: vec!["memory owned by Rust containers inside the boxes (Vec / String buffers) is only seen by the sanitizer passes, not by the ledger".to_string()],
            inconclusive,
        }
    }

    fn post(&mut self, ctx: &Ctx, merged: &mut Stats) {
        if ctx.flavour == Flavour::Rel && ctx.tier == Tier::Thorough {
            crate::sup::run_sub_flavour(self.id(), ctx, Flavour::Asan, merged);
            // Miri: aliasing / provenance / leaks in the collector and in the object constructors, shadow heap off
            let mctx = Ctx { seed: ctx.seed, tier: ctx.tier, flavour: Flavour::Miri };
            let n = self.fams(&mctx).total();
            crate::sup::run_miri(self.id(), ctx, 0, n, 16, merged);
        }
    }
}
