//! C14 — builtins are total and behave as documented.
//! Oracle: the builtin table of the reference semantics plus algebraic laws checked directly.

use super::{int_lattice, random_int61, Families};
use crate::ast::*;
use crate::diff::{differential, Verdict};
use crate::obs::{eval_observed, ObsCfg, Outcome};
use crate::print::to_text;
use crate::props::c06::{float_lit, int_lit, str_lit};
use crate::rng::{hash_str, Rng};
use crate::sup::{Check, Ctx, Flavour, Stats, Summary, Tier};
use crate::val::{ErrKind, Val};
use serde_json::json;

pub struct C14 {
    lattice: Vec<i64>,
    shapes: Vec<(&'static str, String)>,
}

const BUILTINS: [&str; 7] = ["print", "type", "bool", "int", "float", "string", "lengte"];
const PRELUDE: &str = "functie g() { 1 }; stel n = als nee { 1 }; stel anon = functie(x) { x }; stel cyc = [1]; cyc[0] = cyc; ";

/// (shape name, expression text)
fn shapes() -> Vec<(&'static str, String)> {
    let mut v: Vec<(&'static str, String)> = vec![
        ("null", "n".into()),
        ("ja", "ja".into()),
        ("nee", "nee".into()),
        ("int-zero", "0".into()),
        ("int-one", "1".into()),
        ("int-neg", "(-1)".into()),
        ("int-max", "1152921504606846975".into()),
        ("int-min", "(-1152921504606846975 - 1)".into()),
        ("float-zero", "0.0".into()),
        ("float-negzero", "(0.0 * -1.0)".into()),
        ("float-half", "0.5".into()),
        ("float-neg", "(-2.75)".into()),
        ("float-big", "1000000000000000000000.0".into()),
        ("float-2^60", "1152921504606846976.0".into()),
        ("float-just-below-2^60", "1152921504606846848.0".into()),
        ("float-tiny", "0.000001".into()),
        ("float-inf", "(1.0 / 0.0)".into()),
        ("float-nan", "(0.0 / 0.0)".into()),
        ("str-empty", "\"\"".into()),
        ("str-int", "\"15\"".into()),
        ("str-neg-int", "\"-15\"".into()),
        ("str-plus-int", "\"+5\"".into()),
        ("str-float", "\"3.1415\"".into()),
        ("str-exp", "\"1e3\"".into()),
        ("str-inf", "\"inf\"".into()),
        ("str-arabic-digits", "\"٣\"".into()),
        ("str-word", "\"abc\"".into()),
        ("str-multibyte", "\"hé💖\"".into()),
        ("str-long-digits", "\"99999999999999999999999999\"".into()),
        ("str-range-edge", "\"1152921504606846976\"".into()),
        ("str-leading-zeros", "\"007\"".into()),
        ("str-dot-only", "\".\"".into()),
        ("str-trailing-dot", "\"5.\"".into()),
        ("arr-empty", "[]".into()),
        ("arr-flat", "[1, \"a\", 2.5]".into()),
        ("arr-nested", "[[1], [[2]], []]".into()),
        ("arr-cyclic", "cyc".into()),
        ("fn-named", "g".into()),
        ("fn-anon", "anon".into()),
    ];
    for (name, ws) in [("str-pad-space", " "), ("str-pad-tab", "\\t"), ("str-pad-newline", "\\n"), ("str-pad-nbsp", "\u{a0}"), ("str-pad-u2028", "\u{2028}")] {
        v.push((name, format!("\"{}42{}\"", ws, ws)));
    }
    v
}

const PRINT_FORMATS: [&str; 16] = [
    "", "geen", "{}", "{} {}", "{}{}{}", "{} {} {} {}", "{", "}", "{ }", "{{}}", "}{", "a{}b{}c", "{}é💖{}", "100%", "{} {", "\\n{}\\t",
];
const PRINT_ARGS: [&str; 8] = ["1", "\"x\"", "\"{}\"", "2.5", "ja", "[1, \"{}\"]", "n", "g"];

impl C14 {
    pub fn new() -> Self {
        C14 { lattice: int_lattice(), shapes: shapes() }
    }

    fn fams(&self, ctx: &Ctx) -> Families {
        let rnd = match (ctx.flavour, ctx.tier) {
            (Flavour::Rel, Tier::Quick) => 20_000,
            (Flavour::Rel, Tier::Thorough) => 1_000_000,
            (_, Tier::Quick) => 1_000,
            _ => 20_000,
        };
        Families::new(vec![
            ("builtin-x-shape", (BUILTINS.len() * self.shapes.len()) as u64),
            ("arity", 7 * 4),
            ("print-formats", (PRINT_FORMATS.len() * 5) as u64),
            ("law-int-string-roundtrip-lattice", self.lattice.len() as u64),
            ("law-random-int", rnd),
            ("law-random-float", rnd),
            ("law-random-text", rnd / 2),
            // what print writes to the real standard output of the shipped binary (the in-process families see the text
            // through the capture hook): formats x arguments, and amounts of text around the sizes of output buffers
            ("print-through-the-binary", if ctx.flavour == Flavour::Rel { (PRINT_FORMATS.len() * 5 + BIN_PRINTS) as u64 } else { 0 }),
            // lengte / indexing of long strings across in-place changes and dying temporaries (props/strlife.rs)
            ("string-lifecycle", match (ctx.flavour, ctx.tier) { (Flavour::Miri, _) => 40, (Flavour::Rel, Tier::Quick) => 4_000, (Flavour::Rel, Tier::Thorough) => 300_000, (_, Tier::Quick) => 300, _ => 5_000 }),
        ])
    }

    fn text(&self, ctx: &Ctx, idx: u64) -> (&'static str, String) {
        let (f, name, i) = self.fams(ctx).locate(idx);
        let mut r = Rng::for_case(ctx.seed, 1400 + f as u64, i);
        let t = match name {
            "string-lifecycle" => super::strlife::generate(&mut Rng::for_case(ctx.seed, 14_900, i), super::strlife::Focus::Builtins).text,
            "builtin-x-shape" => {
                let b = BUILTINS[(i as usize) / self.shapes.len()];
                let (_, e) = &self.shapes[(i as usize) % self.shapes.len()];
                // result observed by value and by type; for print the line is captured
                if b == "print" {
                    format!("{}print({}); print(\"{{}}\", {}); print(\"a\", {})", PRELUDE, e, e, e)
                } else {
                    format!("{}stel r = {}({}); [r, type(r)]", PRELUDE, b, e)
                }
            }
            "arity" => {
                let b = BUILTINS[(i / 4) as usize];
                let args = ["", "1, 2", "1, 2, 3", "\"a\", \"b\""][(i % 4) as usize];
                format!("print(\"voor\"); {}({})", b, args)
            }
            "print-formats" => {
                let fmt = PRINT_FORMATS[(i / 5) as usize];
                let n = (i % 5) as usize;
                let mut args = vec![format!("\"{}\"", fmt)];
                for k in 0..n {
                    args.push(PRINT_ARGS[(i as usize + k * 3) % PRINT_ARGS.len()].to_string());
                }
                format!("{}print({}); print({})", PRELUDE, args.join(", "), args[1..].join(", "))
            }
            "law-int-string-roundtrip-lattice" => {
                let v = self.lattice[i as usize];
                format!("stel v = {}; [int(string(v)), string(v), int(int(v)), float(string(v)), int(v) == v, type(string(v))]", int_lit(v))
            }
            "law-random-int" => {
                let v = random_int61(&mut r);
                format!("stel v = {}; [int(string(v)) == v, string(v), bool(v), float(v), int(float(v)), string(int(string(v)))]", int_lit(v))
            }
            "law-random-float" => {
                let f = loop {
                    let f = match r.below(4) {
                        0 => f64::from_bits(r.next()),
                        1 => (r.range(-100000, 100000) as f64) / 64.0,
                        2 => (random_int61(&mut r) as f64) * 0.37,
                        _ => f64::from_bits((r.next() & 0x800f_ffff_ffff_ffff) | ((r.range(900, 1100) as u64) << 52)),
                    };
                    if f.is_finite() {
                        break f;
                    }
                };
                format!("stel v = {}; [float(string(v)) == v, float(float(v)) == v, bool(v), string(v), type(v)]", float_lit(f))
            }
            _ => {
                // random text handed to every builtin
                let n = r.below(7);
                let mut s = String::new();
                for _ in 0..n {
                    s.push(*r.pick(&['0', '1', '9', '-', '+', '.', ' ', 'e', 'a', 'é', '💖', '\t', '_', 'x', '٣']));
                }
                format!("stel v = {}; [lengte(v), bool(v), type(v), string(v) == v, string(string(v)), print(v)]; [int(v), float(v)]", str_lit(&s))
            }
        };
        (name, t)
    }
}

const BIN_PRINTS: usize = 24;

/// programs whose printed text is long, has its newlines in odd places, or both
fn binary_print_program(k: usize) -> String {
    let n = [1usize, 100, 1023, 1024, 1025, 4095, 4096, 4097, 8192, 70_000][k % 10];
    let body = "x".repeat(n);
    match k / 10 {
        0 => format!("print(\"{}\"); {}", body, n),
        1 => format!("print(\"kop\\n{{}}|einde\", \"{}\"); {}", body, n),
        _ => match k % 4 {
            0 => "stel i = 0; zolang i < 5000 { i += 1; print(\"{} {}\", i, \"regel\") }; i".to_string(),
            1 => format!("print(\"{{}}\\n{{}}\\n\", \"{}\", \"{}\"); 0", "é".repeat(700), "💖".repeat(300)),
            2 => "print(\"a\\n\"); print(\"\"); print(\"\\n\\nb\"); print(\"{}\", \"\\n\"); 1".to_string(),
            _ => format!("stel l = [{}]; print(\"{{}}\\n{{}} |einde\", lengte(l), l); 2", (0..600).map(|k| format!("{}.5", k)).collect::<Vec<_>>().join(", ")),
        },
    }
}

impl Check for C14 {
    fn id(&self) -> &'static str {
        "C14"
    }
    fn total_cases(&self, ctx: &Ctx) -> u64 {
        self.fams(ctx).total()
    }
    fn chunk_size(&self, _ctx: &Ctx) -> u64 {
        500
    }
    fn describe_case(&mut self, ctx: &Ctx, idx: u64) -> String {
        self.text(ctx, idx).1
    }
    fn run_case(&mut self, ctx: &Ctx, idx: u64, st: &mut Stats) {
        {
            let (_, name, i) = self.fams(ctx).locate(idx);
            if name == "string-lifecycle" {
                let mut r = Rng::for_case(ctx.seed, 14_900, i);
                st.count("cases:string-lifecycle");
                super::strlife::run_case(&mut r, super::strlife::Focus::Builtins, name, ctx.flavour == Flavour::Miri, st);
                return;
            }
            if name == "print-through-the-binary" {
                let n_fmt = (PRINT_FORMATS.len() * 5) as u64;
                let text = if i < n_fmt {
                    // the print-formats programs again
                    let fi = self.fams(ctx).fams.iter().take_while(|f| f.0 != "print-formats").map(|f| f.1).sum::<u64>() + i;
                    self.text(ctx, fi).1
                } else {
                    binary_print_program((i - n_fmt) as usize)
                };
                st.count("programs:print-through-the-binary");
                super::binfile::compare_with_binary(&text, "print-through-the-binary", st);
                return;
            }
        }
        let (fam, text) = self.text(ctx, idx);
        let (_, _, i) = self.fams(ctx).locate(idx);
        // under a memory checker the boxes are really released
        let cfg = if ctx.flavour == Flavour::Miri { ObsCfg::plain(2_000_000) } else { ObsCfg::default() };
        st.count(&format!("cases:{}", fam));
        if fam == "builtin-x-shape" {
            let b = BUILTINS[(i as usize) / self.shapes.len()];
            let shape = self.shapes[(i as usize) % self.shapes.len()].0;
            st.set_insert("builtin-x-shape", &format!("{}({})", b, shape));
        }
        let d = differential(&text, &cfg, 100_000, st);
        match d.verdict {
            Verdict::Agree { .. } => {
                st.distinct_hash(hash_str(&text));
                st.count(&format!("specified:{}", fam));
                if idx % 1009 == 0 {
                    st.sample(&format!("[{}] {}", fam, text));
                }
            }
            Verdict::Skip(_) | Verdict::Inconclusive(_) => {
                // unspecified by the documentation: only totality is demanded — a value of the
                // result type or an argument / type error, never a crash
                st.evaluations += 1;
                let o = eval_observed(&text, &cfg);
                st.count(&format!("loose:{}", fam));
                match &o.outcome {
                    Outcome::Value(v) => {
                        st.distinct_hash(hash_str(&text));
                        if fam == "builtin-x-shape" {
                            let b = BUILTINS[(i as usize) / self.shapes.len()];
                            // [r, type(r)]: the result must have the builtin's result type
                            if let Val::Array(items) = v {
                                let want = match b {
                                    "bool" => Some("bool"),
                                    "int" => Some("int"),
                                    "float" => Some("float"),
                                    "string" | "type" => Some("string"),
                                    "lengte" => Some("int"),
                                    _ => None,
                                };
                                if let (Some(w), Some(Val::Str(t))) = (want, items.get(1)) {
                                    if t != w {
                                        st.violation(&format!("loose:{}:result-type", b), format!("{}() returned a value of type {}", b, t), &text);
                                    }
                                }
                            }
                        }
                    }
                    Outcome::Error(k, _) => {
                        if !matches!(k, ErrKind::Argument | ErrKind::Type) {
                            st.violation(&format!("loose:{}:error-kind", fam), format!("expected a value or an argument/type error, got {}", o.outcome.render()), &text);
                        }
                    }
                    other => st.violation(&format!("loose:{}:{}", fam, other.class()), format!("not total: {}", other.render()), &text),
                }
            }
            Verdict::Mismatch { sig, detail } => st.violation(&format!("{}:{}", fam, sig), detail, &text),
        }
    }
    fn post(&mut self, ctx: &Ctx, merged: &mut Stats) {
        if ctx.flavour == Flavour::Rel {
            // the builtins read and build text by hand (placeholders, conversions): a few thousand of the cases natively
            // under valgrind memcheck, in both tiers
            let mctx = Ctx { seed: ctx.seed, tier: Tier::Quick, flavour: Flavour::Miri };
            let n = self.fams(&mctx).total();
            crate::sup::run_valgrind_inproc("C14", &Ctx { seed: ctx.seed, tier: Tier::Quick, flavour: ctx.flavour }, n, 8, merged);
        }
    }

    fn summarize(&self, ctx: &Ctx, merged: &Stats) -> Summary {
        let fams = self.fams(ctx);
        let mut inconclusive = vec![];
        let cells = merged.sets.get("builtin-x-shape").map(|s| s.len()).unwrap_or(0);
        if cells != BUILTINS.len() * self.shapes.len() {
            inconclusive.push(format!("builtin x shape matrix incomplete: {} cells", cells));
        }
        Summary {
            rule: "every builtin applied to every value shape (null, booleans, boundary ints, special floats, numeric / signed / padded / non-numeric / non-ASCII / over-long text, empty, flat, nested and cyclic arrays, named and anonymous functions), every builtin with 0/2/3 arguments, print with 16 formats x 0-4 arguments; laws int(string(n)) = n over the complete int lattice and random ints, float(string(f)) = f over random finite floats, T(x) = x for values of type T. Entries the documentation fixes are compared exactly with the reference table; entries under DESIGN §4.3(12,13) only for 'value of the result type or argument/type error'. distinct = distinct program texts".to_string(),
            exhaustive: Some(true),
            extra: json!({
                "exhaustive_parts": [format!("builtin x shape matrix ({} x {})", BUILTINS.len(), self.shapes.len()), "arity matrix", "print format x argument-count grid", "int -> text -> int over the boundary lattice"],
                "families": fams.fams.iter().map(|f| json!({"name": f.0, "cases": f.1})).collect::<Vec<_>>(),
            }),
            assumptions: vec!["timing of arity errors: the reference raises them when the call executes, after earlier output".to_string()],
            inconclusive,
        }
    }
}
