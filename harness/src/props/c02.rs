//! C02 — execution never leaves the interpreter's own memory.
//! (a) guarded probes in front of every unchecked access of the VM (hook H3), on the path taken and
//!     on forced-branch paths (H10); (b) offline checker over the bytecode the real compiler emitted,
//!     validated against the heights the real VM exhibits (H9 trace).

use super::Families;
use crate::bcv::{self, Table};
use crate::enumerate::Enumerator;
use crate::gen::{random_program, PROFILES};
use crate::mutate;
use crate::obs::{self, event_class, ObsCfg, Outcome};
use crate::print::to_text;
use crate::rng::{hash_str, Rng};
use crate::sup::{Check, Ctx, Flavour, Stats, Summary, Tier};
use nederlang::compiler::Compiler;
use nederlang::verif::{self, ShadowMode};
use nederlang::vm::VM;
use serde_json::json;
use std::panic::{catch_unwind, AssertUnwindSafe};

pub struct C02 {
    table: Table,
    enumerated: Option<Vec<String>>,
    directed: Vec<(&'static str, String)>,
    /// programs that are ordinary in everything but size (scale.rs), built once
    scale: Option<Vec<(String, String)>>,
}

pub fn directed() -> Vec<(&'static str, String)> {
    vec![
        ("if-branch-ends-in-declaration", "als ja { stel a = 1 }".into()),
        ("if-branch-ends-in-declaration-else", "als nee { 1 } anders { stel a = 1 }".into()),
        ("if-value-from-declaration", "stel r = als ja { stel a = 1 }; r".into()),
        ("while-body-ends-in-declaration", "stel i = 0; zolang i < 3 { i += 1; stel q = i }; i".into()),
        ("function-body-ends-in-declaration", "functie f() { 5; stel a = 1 } f()".into()),
        ("function-body-nested-block", "functie f() { { { 7 } } } f()".into()),
        ("function-body-empty-block", "functie f() { {} } f()".into()),
        ("empty-block-statements", "{}; {}; { {} }; 1".into()),
        ("empty-loop-body", "stel i = 0; zolang i < 5 { i += 1; {} }; i".into()),
        ("stop-in-function-in-loop", "zolang ja { functie() { stop }() }".into()),
        ("volgende-in-function-in-loop", "stel i = 0; zolang i < 2 { i += 1; functie() { volgende }() }".into()),
        ("toplevel-antwoord", "antwoord 1".into()),
        ("self-initialiser", "stel x = x".into()),
        ("nested-functions-slots", "functie a(p) { stel l = p; functie b(q) { stel m = q; m + 1 } b(l) + l } a(3)".into()),
        ("too-many-args", "functie f() { 1 } f(1, 2)".into()),
        ("too-few-args", "functie f(a, b, c) { a } f(1)".into()),
        ("args-into-locals", "functie f(a) { stel b = 2; stel c = 3; [a, b, c] } f(1, 9)".into()),
        ("300-locals", format!("functie f() {{ {} v299 }} f()", (0..300).map(|i| format!("stel v{} = {};", i, i)).collect::<String>())),
        ("leaking-loop-in-function", "functie f() { stel i = 0; zolang i < 70000 { i += 1; {} }; i } f()".into()),
        ("pending-operand-stop", "stel i = 0; zolang i < 10 { i += 1; 1 + als i > 5 { stop } anders { 2 } }; i".into()),
        ("pending-operand-volgende-in-call", "functie f() { stel i = 0; stel x = 0; zolang i < 100 { i += 1; x = [1, 2, als i > 0 { volgende } anders { 3 }] }; i } f()".into()),
        ("return-in-loop-in-if", "functie f(n) { zolang ja { als n > 0 { antwoord n } anders { n += 1 } } } f(-3)".into()),
        ("function-ends-in-elseless-if-return", "functie f(x) { als x { antwoord 1 } }; [f(ja), f(nee)]".into()),
        ("function-ends-in-nested-elseless-if-return", "functie f(x) { { als x { antwoord 1 } } }; [f(nee), f(ja)]".into()),
        ("function-ends-in-if-else-return-both", "functie f(x) { als x { antwoord 1 } anders { antwoord 2 } }; [f(ja), f(nee)]".into()),
        ("function-ends-in-loop-with-return", "functie f(x) { zolang x { antwoord 1 } }; [f(ja), f(nee)]".into()),
        ("function-ends-in-elif-return", "functie f(x) { als x == 1 { antwoord 1 } anders als x == 2 { antwoord 2 } }; [f(1), f(2), f(3)]".into()),
        ("function-ends-in-block-return", "functie f(x) { stel a = x; { stel b = a; { antwoord b } } }; f(5)".into()),
        ("return-from-nested-blocks", "functie f() { { { antwoord [1, 2] } } } f()".into()),
        ("if-chain-as-argument", "functie g(a, b) { a + b } g(als ja { 1 } anders { 2 }, als nee { 3 } anders als ja { 4 } anders { 5 })".into()),
        ("while-as-argument", "functie g(a) { 1 } stel i = 0; g(zolang i < 2 { i += 1 })".into()),
        ("deep-recursion-to-limit", "functie f(n) { stel a = n; f(n + 1) } f(0)".into()),
        ("fused-ops-all", "functie f(x) { [x + 1, x - 1, x * 2, x / 2, x % 2, x < 1, x <= 1, x > 1, x >= 1, x == 1, x != 1, 1 + x, 1 < x, 3 - x] } f(5)".into()),
        ("call-in-array-in-call", "functie f(x) { x } functie g(a, b, c) { [a, b, c] } g(1, [f(2), f(3)], f(f(4)))".into()),
        // more than 64 KiB of straight-line code (jump operands are 16 bits wide, return addresses are not): calls made
        // from addresses above 65 535 must come back to where they were made
        ("call-above-64k", format!("stel x = 0; functie tel() {{ x = x + 1; x }}; {} [tel(), tel(), x]", "x = x + 1; ".repeat(9000))),
        ("calls-throughout-100k-of-code", format!("functie dubbel(v) {{ stel w = v * 2; w }}; stel som = 0; {} [som, dubbel(som)]", (0..6000).map(|k| format!("som = som + dubbel({}); ", k % 7)).collect::<String>())),
        ("stack-boundary-call-with-pending-elements", "functie g() { 1 }; functie f(n) { als n == 0 { lengte([0, 1, 2, 3, 4, 5, 6, 7, 8, 9, g()]) } anders { 1 + f(n - 1) } }; [f(32764), f(32765), f(32766)]".into()),
        ("many-constants", (0..300).map(|i| format!("{};", i * 3)).collect::<String>() + "1"),
    ]
}

/// Control-flow integrity over a recorded trace (one record per dispatched instruction, in order): execution starts
/// at the entry; every fetch is at an instruction boundary; the instruction after X is the one the encoding of X
/// allows (fall through, the jump target, either for JumpIfFalse); a Call goes to the entry of some function of the
/// constant pool and a Return / ReturnValue comes back to the instruction right after the matching Call (shadow call
/// stack kept by this monitor); nothing is dispatched after Halt.
fn cfi(trace: &[verif::TraceRec], instrs: &std::collections::HashMap<usize, bcv::Instr>, entries: &std::collections::HashSet<usize>, entry: usize) -> Option<(String, String)> {
    if instrs.is_empty() {
        return None;
    }
    if let Some(t) = trace.first() {
        if t.ip as usize != entry {
            return Some(("entry".into(), format!("the first instruction dispatched is at {} but the entry of the program is {}", t.ip, entry)));
        }
    }
    let mut shadow: Vec<usize> = vec![];
    for w in trace.windows(2) {
        let (a, b) = (w[0].ip as usize, w[1].ip as usize);
        let ia = match instrs.get(&a) {
            Some(i) => i,
            None => return Some(("fetch-off-boundary".into(), format!("an instruction was dispatched at {}, which is not an instruction boundary", a))),
        };
        if !instrs.contains_key(&b) {
            return Some(("fetch-off-boundary".into(), format!("after {} at {} an instruction was dispatched at {}, which is not an instruction boundary", ia.name, a, b)));
        }
        let next = a + ia.len;
        let depth = shadow.len();
        let bad = |what: &str| Some((what.to_string(), format!("after {}({:?}) at {} the VM dispatched the instruction at {} (call depth {})", ia.name, ia.operands, a, b, depth)));
        match ia.name.as_str() {
            "Jump" => {
                if b != ia.operands[0] {
                    return bad("jump-target");
                }
            }
            "JumpIfFalse" => {
                if b != next && b != ia.operands[0] {
                    return bad("branch-target");
                }
            }
            "Call" => {
                if !entries.contains(&b) {
                    return bad("call-target-is-no-function-entry");
                }
                shadow.push(next);
            }
            "Return" | "ReturnValue" => match shadow.pop() {
                Some(r) => {
                    if b != r {
                        return Some(("return-address".into(), format!("{} at {} came back to {} but the matching Call expects {}", ia.name, a, b, r)));
                    }
                }
                None => return bad("return-without-call"),
            },
            "Halt" => return bad("dispatch-after-halt"),
            _ => {
                if b != next {
                    return bad("fall-through");
                }
            }
        }
    }
    None
}

impl C02 {
    pub fn new() -> Self {
        C02 { table: Table::load(), enumerated: None, directed: directed(), scale: None }
    }

    fn enumerated(&mut self, ctx: &Ctx) -> &Vec<String> {
        if self.enumerated.is_none() {
            let b = match (ctx.flavour, ctx.tier) {
                (Flavour::Rel, Tier::Quick) => 4,
                (Flavour::Rel, Tier::Thorough) => 5,
                _ => 3,
            };
            self.enumerated = Some(Enumerator::new().programs(b).iter().map(|p| to_text(p)).collect());
        }
        self.enumerated.as_ref().unwrap()
    }

    fn fams(&mut self, ctx: &Ctx) -> Families {
        let n_enum = self.enumerated(ctx).len() as u64;
        let (rnd, mutants) = match (ctx.flavour, ctx.tier) {
            (Flavour::Rel, Tier::Quick) => (30_000, 60_000),
            (Flavour::Rel, Tier::Thorough) => (2_000_000, 2_000_000),
            (_, Tier::Quick) => (1_500, 1_500),
            _ => (50_000, 50_000),
        };
        let n_scale = self.scale(ctx).len() as u64;
        Families::new(vec![("directed", self.directed.len() as u64), ("enumerated", n_enum), ("random", rnd), ("mutants-and-soups", mutants), ("control-templates", rnd / 2), ("scale", n_scale)])
    }

    fn scale(&mut self, ctx: &Ctx) -> &Vec<(String, String)> {
        if self.scale.is_none() {
            // (not the sizes around 65 536: they only reach the documented limits, after 20 s of compiling each — C01 has them)
            self.scale = Some(crate::scale::programs_for(ctx.flavour, Tier::Quick));
        }
        self.scale.as_ref().unwrap()
    }

    fn text(&mut self, ctx: &Ctx, idx: u64) -> (&'static str, String) {
        let (f, name, i) = self.fams(ctx).locate(idx);
        let mut r = Rng::for_case(ctx.seed, 200 + f as u64, i);
        match name {
            "directed" => (name, self.directed[i as usize].1.clone()),
            "scale" => (name, self.scale(ctx)[i as usize].1.clone()),
            "enumerated" => (name, self.enumerated(ctx)[i as usize].clone()),
            "random" => {
                let (p, _) = random_program(&mut r, PROFILES[(i % 6) as usize]);
                (name, to_text(&p))
            }
            "control-templates" => {
                // the nests of C11 (every early-exit placement in every wrapper), sampled
                let k = r.below(super::flow::TEMPLATE_SPACE);
                (name, to_text(&super::flow::template(k)))
            }
            _ => {
                let t = match i % 4 {
                    0 => mutate::structured_soup(&mut r),
                    1 => mutate::soup(&mut r),
                    _ => {
                        let (p, _) = random_program(&mut r, PROFILES[(i % 6) as usize]);
                        let mut t = mutate::tokens_of(&p);
                        for _ in 0..1 + r.below(2) {
                            t = mutate::edit_tokens(&t, &mut r).0;
                        }
                        mutate::join(&t)
                    }
                };
                (name, t)
            }
        }
    }

    /// run one compiled program under the probes; returns (outcome class, events)
    fn run_probed(&self, text: &str, cfg: &ObsCfg) -> obs::Obs {
        obs::eval_observed(text, cfg)
    }
}

impl Check for C02 {
    fn id(&self) -> &'static str {
        "C02"
    }
    fn total_cases(&self, ctx: &Ctx) -> u64 {
        let mut me = C02::new();
        me.fams(ctx).total()
    }
    fn chunk_size(&self, _ctx: &Ctx) -> u64 {
        300
    }
    fn death_signature(&self, _ctx: &Ctx, _idx: u64, how: &str) -> Option<String> {
        // The forced branch schedules make loops run that the program bounds (the schedule overrides the condition):
        // a body that doubles a string or nests an array in itself then grows exponentially, and one print or one
        // concatenation takes minutes or all the memory the worker may have. Termination and memory use are not
        // what this property is about (termination under natural execution is C05's): such a case is counted as
        // not judged. Every other way a worker can die (signal, abort, panic in a destructor) is a finding.
        if how.starts_with("hang") || how.starts_with("abort:alloc") {
            None
        } else {
            Some(format!("worker-death:{}", how))
        }
    }
    fn describe_case(&mut self, ctx: &Ctx, idx: u64) -> String {
        self.text(ctx, idx).1
    }

    fn run_case(&mut self, ctx: &Ctx, idx: u64, st: &mut Stats) {
        let (fam, text) = self.text(ctx, idx);
        let label = if fam == "directed" {
            let (_, _, i) = self.fams(ctx).locate(idx);
            format!("{}:", self.directed[i as usize].0)
        } else {
            String::new()
        };
        st.count(&format!("texts:{}", fam));
        // does the front end accept it?
        let compiled = catch_unwind(AssertUnwindSafe(|| {
            let ast = nederlang::parser::parse(&text).ok()?;
            let mut c = Compiler::new();
            c.compile_ast(&ast).ok()
        }));
        let code = match compiled {
            Ok(Some(c)) => c,
            Ok(None) => {
                st.count("rejected-by-front-end");
                return;
            }
            Err(_) => {
                let (l, m) = obs::take_panic();
                st.violation(&format!("{}:{}front-end-panic@{}", fam, label, obs::short_loc(&l)), m, &text);
                return;
            }
        };
        st.count(&format!("compiled:{}", fam));
        st.evaluations += 1;
        st.add("bytecode-bytes-checked", code.instructions.len() as u64);

        // (b) offline checker over the emitted bytecode
        let rep = bcv::check(&code.instructions, &code.constants, code.entry, &self.table);
        st.add("bcv:instructions", rep.instructions as u64);
        st.add("bcv:function-regions", rep.regions as u64);
        st.add("bcv:jumps", rep.jumps as u64);
        st.add("bcv:joins-with-different-heights", rep.joins as u64);
        for f in &rep.breaches {
            let listing = bcv::decode(&code.instructions, &self.table).map(|i| bcv::render(&i)).unwrap_or_default();
            st.violation(&format!("{}:{}bytecode:{}", fam, label, f.class), format!("{}\nbytecode: {}", f.detail, obs::clip(&listing, 1200)), &text);
        }
        for f in &rep.residue {
            st.count(&format!("bcv:{}", f.class));
            if text.len() < 400 {
                st.set_insert("residue-samples", &format!("{} :: {} :: {}", f.class, f.detail, text));
            }
        }
        for s in &rep.inconclusive {
            st.inconclusive(format!("bytecode checker: {}", s));
        }
        // for the control-flow monitor over the traces: the instruction at every boundary, and the entries of all functions
        let instrs: std::collections::HashMap<usize, bcv::Instr> = bcv::decode(&code.instructions, &self.table).unwrap_or_default().into_iter().map(|i| (i.ip, i)).collect();
        let entries: std::collections::HashSet<usize> = code.constants.iter().filter(|c| c.tag() == nederlang::object::Type::Function).map(|c| c.as_function()[0] as usize).collect();
        let entry = code.entry;
        // the constants of the compiled-but-not-run program are ours to release
        for c in &code.constants {
            if c.is_heap_allocated() {
                c.free();
            }
        }
        if !rep.breaches.is_empty() {
            return;
        }

        // (a) the path taken, with probes and a trace to validate the static heights
        let (probes, shadow) = match ctx.flavour {
            Flavour::Asan | Flavour::Miri => (false, ShadowMode::Off),
            _ => (true, ShadowMode::Quarantine),
        };
        // (the directed cases that walk up to the 16-bit stack limit need a few million instructions)
        let mut cfg = ObsCfg { budget: Some(if label.starts_with("stack-boundary") || fam == "scale" { 5_000_000 } else { 100_000 }), probes, shadow, trace: true, branch_schedule: None };
        let o = self.run_probed(&text, &cfg);
        let (trace, truncated) = verif::take_trace();
        crate::diff::record_opcodes(st);
        st.add("instructions-traced", trace.len() as u64);
        let mut reported = false;
        for e in &o.events {
            if let verif::Event::Probe { site, .. } = e {
                st.violation(&format!("{}:{}probe:{}", fam, label, site), format!("{}; outcome {}", obs::render_event(e), o.outcome.render()), &text);
                reported = true;
            } else {
                st.count(&format!("other-monitor-event:{}", event_class(e)));
            }
        }
        if let Outcome::Panic(l, m) = &o.outcome {
            // a panic is a checked failure (C05's business), but an index-out-of-bounds panic in the VM is a bounds
            // check that caught what would otherwise be an out-of-contract access
            if l.contains("src/vm.rs") && (m.contains("index out of bounds") || m.contains("out of range")) {
                st.violation(&format!("{}:{}vm-bounds-panic@{}", fam, label, obs::short_loc(l)), m.clone(), &text);
                reported = true;
            } else {
                st.count("panics-left-to-C05");
            }
        }
        if reported {
            return;
        }
        // control-flow integrity of what the VM actually did (shadow call stack, successor relation)
        if let Some((class, detail)) = cfi(&trace, &instrs, &entries, entry) {
            st.violation(&format!("{}:{}cfi:{}", fam, label, class), detail, &text);
            return;
        }
        st.add("cfi:transitions-checked", trace.len().saturating_sub(1) as u64);
        // validation of the checker against what the VM did
        if !truncated && rep.inconclusive.is_empty() {
            for t in &trace {
                let rel = t.stack_len as i64 - t.bp as i64;
                match (rep.min_height.get(&(t.ip as usize)), rep.max_height.get(&(t.ip as usize))) {
                    (Some(lo), Some(hi)) => {
                        if rel < *lo || rel > *hi {
                            st.inconclusive(format!("bytecode checker disagrees with the VM: at ip {} the VM had height {} but the checker computed {}..{} ({})", t.ip, rel, lo, hi, obs::clip(&text, 200)));
                            return;
                        }
                        st.count("trace-records-validated");
                    }
                    _ => {
                        st.inconclusive(format!("the VM executed ip {} which the bytecode checker considers unreachable ({})", t.ip, obs::clip(&text, 200)));
                        return;
                    }
                }
            }
        }
        // branch coverage of the natural run
        let mut seen: std::collections::HashSet<(u32, bool)> = std::collections::HashSet::new();
        let jif = self.table.ops.iter().find(|(_, v)| v.name == "JumpIfFalse").map(|(k, _)| *k).unwrap_or(255);
        let mut note = |trace: &Vec<verif::TraceRec>, seen: &mut std::collections::HashSet<(u32, bool)>| {
            for w in trace.windows(2) {
                if w[0].op == jif {
                    let fell = w[1].ip == w[0].ip + 3;
                    seen.insert((w[0].ip, fell));
                }
            }
        };
        note(&trace, &mut seen);
        // forced-branch runs: drive both sides of every JumpIfFalse in the real VM under the probes
        if !rep.branches.is_empty() && probes {
            let mut r = Rng::for_case(ctx.seed, 299, idx);
            let mut schedules: Vec<Vec<bool>> = vec![vec![true], vec![false], vec![true, false], vec![false, true, true]];
            let extra = if ctx.tier == Tier::Thorough { 8 } else { 2 };
            for _ in 0..extra {
                schedules.push((0..r.range(3, 17)).map(|_| r.chance(1, 2)).collect());
            }
            cfg.budget = Some(5_000);
            for s in schedules {
                cfg.branch_schedule = Some(s.clone());
                let o = self.run_probed(&text, &cfg);
                let (tr, _) = verif::take_trace();
                st.count("forced-branch-runs");
                note(&tr, &mut seen);
                if let Some((class, detail)) = cfi(&tr, &instrs, &entries, entry) {
                    st.violation(&format!("{}:{}forced-path:cfi:{}", fam, label, class), format!("branch schedule {:?}: {}", s, detail), &text);
                    return;
                }
                st.add("cfi:transitions-checked", tr.len().saturating_sub(1) as u64);
                for e in &o.events {
                    if let verif::Event::Probe { site, .. } = e {
                        st.violation(&format!("{}:{}forced-path:probe:{}", fam, label, site), format!("branch schedule {:?}: {}", s, obs::render_event(e)), &text);
                        return;
                    }
                }
                if let Outcome::Panic(l, m) = &o.outcome {
                    if l.contains("src/vm.rs") && (m.contains("index out of bounds") || m.contains("out of range")) {
                        st.violation(&format!("{}:{}forced-path:vm-bounds-panic@{}", fam, label, obs::short_loc(l)), format!("branch schedule {:?}: {}", s, m), &text);
                        return;
                    }
                }
            }
        }
        st.add("branch-directions-total", 2 * rep.branches.len() as u64);
        st.add("branch-directions-driven", seen.len() as u64);
        st.add(&format!("branch-directions-total:{}", fam), 2 * rep.branches.len() as u64);
        st.add(&format!("branch-directions-driven:{}", fam), seen.len() as u64);
        if o.count >= 10 {
            st.distinct_hash(hash_str(&text));
        }
        if idx % 4001 == 0 {
            st.sample(&format!("[{}] {}", fam, text));
        }
    }

    fn summarize(&self, ctx: &Ctx, merged: &Stats) -> Summary {
        let mut me = C02::new();
        let fams = me.fams(ctx);
        let mut inconclusive = vec![];
        if ctx.flavour == Flavour::Rel {
            let missing = crate::diff::missing_opcodes(merged);
            if !missing.is_empty() {
                inconclusive.push(format!("opcodes never dispatched under the probes: {:?}", missing));
            }
            if merged.counters.get("trace-records-validated").copied().unwrap_or(0) == 0 {
                inconclusive.push("the bytecode checker was never validated against a trace".to_string());
            }
            if merged.counters.get("forced-branch-runs").copied().unwrap_or(0) == 0 {
                inconclusive.push("no forced-branch run".to_string());
            }
        }
        let total = merged.counters.get("branch-directions-total").copied().unwrap_or(0);
        let driven = merged.counters.get("branch-directions-driven").copied().unwrap_or(0);
        Summary {
            rule: "case = one source text (directed corpus, enumerated programs, random typed programs, token mutants and token soups); texts the front end rejects are counted and dropped. For every accepted text: (b) the bytecode the real compiler emitted is checked offline on all control-flow paths (decode, jump targets and function regions, minimum stack height never below the frame floor, operand ranges) and every traced instruction of the real run must lie within the statically computed height range; a control-flow monitor replays every trace (natural and forced) against the encoding: start at the entry, every fetch on a boundary, successor = fall-through / jump target / function entry, returns checked against a shadow call stack; (a) the program runs with a guarded probe in front of every unchecked access (pop, fetch, operand read, jump, constant / local index, call frame arithmetic, builtin number, popframe, halt), once naturally and under forced branch schedules that drive both sides of every JumpIfFalse. distinct_nontrivial = distinct accepted texts that dispatched >= 10 instructions".to_string(),
            exhaustive: Some(true),
            extra: json!({
                "exhaustive_parts": [format!("enumerated programs ({} texts)", fams.fams[1].1)],
                "families": fams.fams.iter().map(|f| json!({"name": f.0, "cases": f.1})).collect::<Vec<_>>(),
                "branch_direction_coverage": if total > 0 { driven as f64 / total as f64 } else { 0.0 },
            }),
            assumptions: vec![
                "the bytecode checker is path-insensitive; joins with different heights and unbounded growth are counted as residue (C11), not as breaches".to_string(),
                "accesses inside Vec / String / bitvec are seen by the sanitizer passes only".to_string(),
            ],
            inconclusive,
        }
    }

    fn post(&mut self, ctx: &Ctx, merged: &mut Stats) {
        if ctx.flavour == Flavour::Rel && ctx.tier == Tier::Thorough {
            crate::sup::run_sub_flavour("C02", ctx, Flavour::Asan, merged);
        }
    }
}
