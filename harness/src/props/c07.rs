//! C07 — source text denotes one tree: print -> real parse -> compare.

use super::Families;
use crate::ast::*;
use crate::gen::{random_program, PROFILES};
use crate::print::{pieces_of, render_canonical, render_random, LayoutStats, Piece, Printer};
use crate::rng::Rng;
use crate::sup::{Check, Ctx, Stats, Summary, Tier};
use serde_json::json;

pub struct C07 {
    small: Vec<Expr>,
}

/// all binary-operator trees with exactly `n` operator nodes; leaves are filled in afterwards
fn shapes(n: usize) -> Vec<Expr> {
    if n == 0 {
        return vec![Expr::Unknown("leaf".into())];
    }
    let mut out = vec![];
    for l in 0..n {
        let r = n - 1 - l;
        for a in shapes(l) {
            for b in shapes(r) {
                out.push(infix(a.clone(), Op::Unknown, b.clone()));
            }
        }
    }
    out
}

fn leaves() -> Vec<Expr> {
    vec![
        ident("a"),
        Expr::Int(1),
        calln("f", vec![ident("x")]),
        index(ident("a"), Expr::Int(0)),
        prefix(Op::Subtract, ident("b")),
        prefix(Op::Not, ident("c")),
    ]
}

fn count_ops(e: &Expr) -> usize {
    match e {
        Expr::Infix { left, right, .. } => 1 + count_ops(left) + count_ops(right),
        _ => 0,
    }
}

/// fill operators (digits of `code` in base 13) and leaves (rotating) into a shape
fn fill(e: &Expr, code: &mut u64, leaf: &mut usize, lv: &[Expr]) -> Expr {
    match e {
        Expr::Infix { left, right, .. } => {
            let op = BINARY_OPS[(*code % 13) as usize];
            *code /= 13;
            let l = fill(left, code, leaf, lv);
            let r = fill(right, code, leaf, lv);
            infix(l, op, r)
        }
        _ => {
            let x = lv[*leaf % lv.len()].clone();
            *leaf += 1;
            x
        }
    }
}

fn record_pairs(e: &Expr, st: &mut Stats) {
    if let Expr::Infix { left, op, right } = e {
        if let Expr::Infix { op: lo, .. } = &**left {
            st.set_insert("op-pairs", &format!("{}|L|{}", op.text(), lo.text()));
        }
        if let Expr::Infix { op: ro, .. } = &**right {
            st.set_insert("op-pairs", &format!("{}|R|{}", op.text(), ro.text()));
        }
        record_pairs(left, st);
        record_pairs(right, st);
    }
}

impl C07 {
    pub fn new() -> Self {
        // every tree with at most two operators (used as right-hand sides)
        let lv = leaves();
        let mut small = vec![];
        for n in 0..=2usize {
            for sh in shapes(n) {
                let combos = 13u64.pow(n as u32);
                for c in 0..combos {
                    let mut code = c;
                    let mut leaf = (c as usize) % lv.len();
                    small.push(fill(&sh, &mut code, &mut leaf, &lv));
                }
            }
        }
        C07 { small }
    }

    fn fams(&self, ctx: &Ctx) -> Families {
        let t = ctx.tier;
        Families::new(vec![
            ("ops-1", 13),
            ("ops-2", 13 * 13 * 2),
            ("ops-3", 13 * 13 * 13 * 5),
            ("assign", self.small.len() as u64 * 6),
            ("postfix-vs-ops", 13 * 8),
            ("else-if-chains", 4 * 6),
            ("else-if-chains-as-operands", 4 * 6 * 13 * 4),
            ("random-deep-expr", t.pick(20_000, 1_000_000)),
            ("random-programs", t.pick(40_000, 2_000_000)),
            // every Unicode scalar value inside a comment; every white-space code point between all tokens (props/unisweep.rs)
            ("code-points-in-comments", if ctx.flavour == crate::sup::Flavour::Rel { super::unisweep::BLOCKS + 1 } else { 9 }),
            // lists, argument lists and index expressions written with and without blanks, run by the shipped binary under
            // several environments (a Dutch locale among them: the decimal comma must not reach the lexer)
            ("tight-lists-through-the-binary", if ctx.flavour == crate::sup::Flavour::Rel { TIGHT.len() as u64 } else { 0 }),
        ])
    }

    fn tree_for(&self, ctx: &Ctx, idx: u64) -> (&'static str, Vec<Stmt>) {
        let (f, name, i) = self.fams(ctx).locate(idx);
        let lv = leaves();
        let mut r = Rng::for_case(ctx.seed, 700 + f as u64, i);
        let prog = match name {
            "ops-1" | "ops-2" | "ops-3" => {
                let n = match name {
                    "ops-1" => 1,
                    "ops-2" => 2,
                    _ => 3,
                };
                let sh = shapes(n);
                let combos = 13u64.pow(n as u32);
                let shape = &sh[(i / combos) as usize];
                let mut code = i % combos;
                let mut leaf = (i as usize) % lv.len();
                vec![Stmt::Expr(fill(shape, &mut code, &mut leaf, &lv))]
            }
            "assign" => {
                let e = self.small[(i / 6) as usize].clone();
                let k = i % 6;
                let target = ident("v");
                let s = match k {
                    0 => assign(target, e),
                    1..=5 => {
                        let op = [Op::Add, Op::Subtract, Op::Multiply, Op::Divide, Op::Modulo][(k - 1) as usize];
                        assign(ident("v"), infix(ident("v"), op, e))
                    }
                    _ => unreachable!(),
                };
                // also as an index target and nested as a right-hand side
                match (i / 6) % 3 {
                    0 => vec![Stmt::Expr(s)],
                    1 => vec![Stmt::Let("w".into(), s)],
                    _ => vec![Stmt::Expr(assign(index(ident("arr"), Expr::Int(1)), s))],
                }
            }
            "postfix-vs-ops" => {
                let op = BINARY_OPS[(i / 8) as usize];
                let call_ = calln("f", vec![infix(ident("x"), op, Expr::Int(2)), ident("y")]);
                let idx_ = index(ident("a"), infix(ident("i"), op, Expr::Int(1)));
                let e = match i % 8 {
                    0 => infix(ident("a"), op, call_),
                    1 => infix(call_, op, ident("a")),
                    2 => infix(idx_, op, ident("b")),
                    3 => infix(ident("b"), op, idx_),
                    4 => prefix(Op::Subtract, call_),
                    5 => prefix(Op::Not, idx_),
                    6 => infix(prefix(Op::Subtract, idx_), op, prefix(Op::Not, call_)),
                    _ => infix(index(Expr::Array(vec![ident("a"), Expr::Int(2)]), Expr::Int(0)), op, index(Expr::Str("tekst".into()), prefix(Op::Subtract, Expr::Int(1)))),
                };
                vec![Stmt::Expr(e)]
            }
            "else-if-chains" | "else-if-chains-as-operands" => {
                let (ctx_k, i) = if name == "else-if-chains" { (None, i) } else { (Some(i / 24), i % 24) };
                let len = (i / 6 + 1) as usize;
                let variant = i % 6;
                // als c0 {..} anders als c1 {..} … [anders {..}]
                let mut alt: Option<Vec<Stmt>> = if variant % 2 == 0 { Some(vec![Stmt::Expr(Expr::Int(99))]) } else { None };
                for k in (1..=len).rev() {
                    let body = match variant / 2 {
                        0 => vec![Stmt::Expr(Expr::Int(k as i64))],
                        1 => vec![],
                        _ => vec![Stmt::Let("t".into(), Expr::Int(k as i64)), Stmt::Expr(ident("t"))],
                    };
                    let e = Expr::If { cond: Box::new(infix(ident("c"), Op::Eq, Expr::Int(k as i64))), cons: body, alt };
                    alt = Some(vec![Stmt::Expr(e)]);
                }
                let chain = match alt.unwrap().pop() {
                    Some(Stmt::Expr(e)) => e,
                    _ => unreachable!(),
                };
                match ctx_k {
                    None => vec![Stmt::Let("r".into(), chain.clone()), Stmt::Expr(chain), Stmt::Expr(Expr::Array(vec![ident("r")]))],
                    // the chain, without parentheses, as the left / right / both operands of every binary operator, at
                    // the start of a statement and inside a declaration: an operator after the last block of the chain
                    // applies to the whole chain, exactly as after a plain `als … anders { … }`
                    Some(k) => {
                        let op = BINARY_OPS[(k % 13) as usize];
                        let e = match k / 13 {
                            0 => infix(chain.clone(), op, Expr::Int(1)),
                            1 => infix(ident("a"), op, chain.clone()),
                            2 => infix(infix(chain.clone(), op, ident("b")), Op::Add, chain.clone()),
                            _ => infix(Expr::While { cond: Box::new(ident("c")), body: vec![Stmt::Expr(chain.clone())] }, op, chain.clone()),
                        };
                        vec![Stmt::Expr(e.clone()), Stmt::Let("r".into(), e.clone()), Stmt::Expr(Expr::Array(vec![e, ident("r")]))]
                    }
                }
            }
            "random-deep-expr" => {
                // 4–7 operators, random shape
                let n = r.range(4, 7) as usize;
                fn rnd(r: &mut Rng, n: usize, lv: &[Expr]) -> Expr {
                    if n == 0 {
                        return r.pick(lv).clone();
                    }
                    let l = r.below(n as u64) as usize;
                    let op = *r.pick(&BINARY_OPS);
                    let a = rnd(r, l, lv);
                    let b = rnd(r, n - 1 - l, lv);
                    infix(a, op, b)
                }
                vec![Stmt::Expr(rnd(&mut r, n, &lv))]
            }
            _ => {
                let profile = PROFILES[(i % PROFILES.len() as u64) as usize];
                random_program(&mut r, profile).0
            }
        };
        (name, prog)
    }

    fn check_text(&self, text: &str, tree: &[Stmt], what: &str, fam: &str, st: &mut Stats) -> bool {
        st.evaluations += 1;
        match parse_real(text) {
            Ok(got) => {
                if !same_tree(&got, tree) {
                    st.violation(
                        &format!("{}:{}:different-tree", fam, what),
                        format!("printed from {:?}\nparsed as     {:?}", crate::obs::clip(&format!("{:?}", tree), 700), crate::obs::clip(&format!("{:?}", got), 700)),
                        text,
                    );
                    return false;
                }
                true
            }
            Err((k, m)) => {
                st.violation(&format!("{}:{}:rejected:{}", fam, what, k.name()), format!("parser error: {}", crate::obs::clip(&m, 300)), text);
                false
            }
        }
    }
}

/// written with `, `: the layouts are derived from it
const TIGHT: &[&str] = &[
    "[1, 2, 3]",
    "lengte([1, 2, 3])",
    "[7, 5][0]",
    "functie f(a, b) { a - b }; f(40, 2)",
    "functie f(a, b) { [a, type(b)] }; f(7, 2)",
    "print(\"{} en {}\", 1, 5)",
    "[1.5, 2]",
    "[1, 2.5]",
    "[0, 5, 0, 25]",
    "stel a = [3, 14]; a[1] + a[0]",
    "functie g(x, y, z) { x * 100 + y * 10 + z }; g(1, 2, 3)",
    "[[1, 2], [3, 4]]",
    "[-1, -2]",
    "[1, 000]",
    "[12, 50, 7, 125]",
    "print(\"{}\", [1, 5]); string([2, 5])",
];

impl Check for C07 {
    fn id(&self) -> &'static str {
        "C07"
    }
    fn total_cases(&self, ctx: &Ctx) -> u64 {
        self.fams(ctx).total()
    }
    fn chunk_size(&self, _ctx: &Ctx) -> u64 {
        2000
    }
    fn chunk_timeout_s(&self, _ctx: &Ctx) -> u64 {
        60
    }
    fn case_timeout_s(&self, _ctx: &Ctx) -> u64 {
        10
    }
    fn death_signature(&self, _ctx: &Ctx, _idx: u64, how: &str) -> Option<String> {
        // a crash or hang of the front end on this text: owned by C05, but a text this check
        // generated could not be judged, so it is reported here as well
        Some(format!("frontend-{}", how))
    }
    fn describe_case(&mut self, ctx: &Ctx, idx: u64) -> String {
        let (_, name, i) = self.fams(ctx).locate(idx);
        if name == "code-points-in-comments" || name == "tight-lists-through-the-binary" {
            return format!("{} #{}", name, i);
        }
        render_canonical(&pieces_of(&self.tree_for(ctx, idx).1))
    }

    fn run_case(&mut self, ctx: &Ctx, idx: u64, st: &mut Stats) {
        {
            let (_, name, i) = self.fams(ctx).locate(idx);
            if name == "tight-lists-through-the-binary" {
                let t = TIGHT[i as usize];
                // the same tokens: no blank after a comma / a blank after every comma / a comment after every comma
                for text in [t.replace(", ", ","), t.to_string(), t.replace(", ", ", // c\n "), t.replace(", ", " ,")] {
                    st.count("tight-lists:layouts");
                    super::binfile::compare_with_binary(&text, "tight-lists-through-the-binary", st);
                }
                return;
            }
            if name == "code-points-in-comments" {
                if i == 0 {
                    super::unisweep::white_space(name, st);
                } else {
                    // (the reduced flavours: the first blocks, which hold the controls, and the block of the bidirectional marks)
                    let block = if ctx.flavour == crate::sup::Flavour::Rel { i - 1 } else { [0, 1, 2, 3, 0x20, 0x21, 0xFE, 0xFF][(i - 1) as usize % 8] };
                    super::unisweep::comments(block, name, st);
                }
                return;
            }
        }
        let (fam, tree) = self.tree_for(ctx, idx);
        st.count(&format!("trees:{}", fam));
        for s in &tree {
            if let Stmt::Expr(e) = s {
                record_pairs(e, st);
            }
        }
        st.distinct_hash(crate::rng::hash_str(&format!("{:?}", tree)));
        let canonical = render_canonical(&pieces_of(&tree));
        if idx % 7919 == 0 {
            st.sample(&format!("[{}] {}", fam, canonical));
        }
        if !self.check_text(&canonical, &tree, "canonical", fam, st) {
            return;
        }
        // random layouts of the same tree (sugar, redundant parentheses, separators, optional ; and ,)
        let layouts = match (fam, ctx.tier) {
            ("random-programs", Tier::Quick) => 3,
            ("random-programs", Tier::Thorough) => 5,
            (_, Tier::Quick) => 2,
            _ => 4,
        };
        let mut r = Rng::for_case(ctx.seed, 7777, idx);
        let mut ls = LayoutStats::default();
        for _ in 0..layouts {
            let mut pieces: Vec<Piece> = vec![];
            {
                let mut p = Printer::random(&mut r);
                p.block_items(&tree, &mut pieces);
            }
            let text = render_random(&pieces, &mut r, &mut ls);
            st.count("layouts");
            if !self.check_text(&text, &tree, "layout", fam, st) {
                break;
            }
        }
        st.add("layout:gaps-without-separator", ls.gaps_without_sep);
        st.add("layout:semicolons-dropped", ls.semis_dropped);
        st.add("layout:commas-dropped", ls.commas_dropped);
        st.add("layout:comments", ls.comments);
        for s in ls.seps_used {
            st.set_insert("separator-code-points", &s);
        }
    }

    fn summarize(&self, ctx: &Ctx, merged: &Stats) -> Summary {
        let fams = self.fams(ctx);
        let mut inconclusive = vec![];
        let pairs = merged.sets.get("op-pairs").map(|s| s.len()).unwrap_or(0);
        if pairs != 13 * 13 * 2 {
            inconclusive.push(format!("operator pair matrix incomplete: {} of 338", pairs));
        }
        if merged.sets.get("separator-code-points").map(|s| s.len()).unwrap_or(0) != 11 {
            inconclusive.push("not every whitespace code point was used as a separator".to_string());
        }
        Summary {
            rule: "case = one syntax tree printed with minimal parentheses (documented table, left-associative) and again under random layouts (all 11 whitespace code points, comments, redundant parentheses, optional ; and , present or absent, += sugar or long form, `anders als` or `anders { als }`); the real parser's tree must equal the tree printed. distinct = distinct trees; all are non-trivial (>= 1 operator or statement)".to_string(),
            exhaustive: Some(true),
            extra: json!({
                "exhaustive_parts": ["all 11 336 binary-operator trees with <= 3 operator nodes over 13 operators (every ordered parent/child pair in both child positions)", "assignment and the five op-assignments over every tree with <= 2 operators", "calls / indexing / prefix operators against every binary operator", "else-if chains of length 1-4, alone and unparenthesised as left / right operand of every binary operator"],
                "operator_pair_cells_hit": pairs,
                "families": fams.fams.iter().map(|f| json!({"name": f.0, "cases": f.1})).collect::<Vec<_>>(),
            }),
            assumptions: vec!["binding strength of prefix operators relative to binary ones is not documented (DESIGN §4.3(1)): the printer parenthesises every non-primary prefix operand and every prefix expression used as an operand".to_string()],
            inconclusive,
        }
    }
}
