//! C11 — structured control flow goes exactly where the source says (and leaves no residue);
//! C12 — calls bind arguments, isolate activations and resume the caller intact.

use super::Families;
use crate::ast::*;
use crate::diff::{differential, Verdict};
use crate::gen::{random_program, Profile};
use crate::obs::{eval_observed, Obs, ObsCfg, Outcome};
use crate::print::to_text;
use crate::rng::{hash_str, Rng};
use crate::sup::{Check, Ctx, Flavour, Stats, Summary, Tier};
use crate::val::{render_val, same_val, Val};
use nederlang::verif;
use serde_json::json;

#[derive(Clone, Copy, PartialEq, Eq)]
pub enum Which {
    C11,
    C12,
}

pub struct Flow {
    which: Which,
}

fn p(marker: &str) -> Stmt {
    Stmt::Expr(calln("print", vec![Expr::Str(marker.to_string())]))
}

// ------------------------------------------------------------------------------------------------
// C11 templates

const KINDS: usize = 5; // Block, If, IfElse, IfElifElse, While
pub const TEMPLATE_SPACE: u64 = 4 * 155 * 27 * 4 * 4 * 2 * 2 * 2 * 2;

/// decode a template index into a program
pub fn template(mut i: u64) -> Vec<Stmt> {
    let mut take = |n: u64| -> u64 {
        let v = i % n;
        i /= n;
        v
    };
    let wrapper = take(4); // 0 top stmt, 1 top value, 2 fn stmt, 3 fn value
    let chain = take(155);
    let conds = take(27);
    let exit = take(4); // none, stop, volgende, antwoord
    let ending = take(4); // expr, decl, nested block, nothing
    let exit_first = take(2) == 0;
    let child_in_value_position = take(2) == 0;
    // the nested construct is the LAST statement of the body that encloses it (its value is that body's value, and
    // whatever follows the enclosing construct comes directly after it), or sits between two markers
    let child_last = take(2) == 1;
    // the innermost body is nothing but the early exit (`als c { stop } anders { … }`), or the usual markers around it
    let bare = take(2) == 1;
    // chain -> depth and kinds
    let (depth, mut code) = if chain < 5 {
        (1, chain)
    } else if chain < 30 {
        (2, chain - 5)
    } else {
        (3, chain - 30)
    };
    let mut kinds = vec![];
    for _ in 0..depth {
        kinds.push((code % KINDS as u64) as usize);
        code /= KINDS as u64;
    }
    // an `antwoord` at top level has no documented meaning: such templates live in a function
    let wrapper = if exit == 3 && wrapper < 2 { wrapper + 2 } else { wrapper };
    let in_fn = wrapper >= 2;

    // innermost body
    let exit_stmt = match exit {
        1 => Some(Stmt::Break),
        2 => Some(Stmt::Continue),
        3 => Some(Stmt::Return(Expr::Int(42))),
        _ => None,
    };
    let end_stmts: Vec<Stmt> = match ending {
        0 => vec![Stmt::Expr(Expr::Int(100 + depth as i64))],
        1 => vec![Stmt::Let("eind".into(), Expr::Int(5))],
        2 => vec![Stmt::Block(vec![p("in blok"), Stmt::Expr(Expr::Int(77))])],
        _ => vec![],
    };
    let mut body: Vec<Stmt> = vec![];
    if bare {
        if let Some(e) = exit_stmt.clone() {
            body.push(e);
        }
    } else if exit_first {
        body.push(p("binnen a"));
        if let Some(e) = exit_stmt.clone() {
            body.push(e);
        }
        body.push(p("binnen b"));
        body.extend(end_stmts);
    } else {
        body.push(p("binnen a"));
        body.extend(end_stmts);
        if let Some(e) = exit_stmt.clone() {
            body.push(e);
        }
    }
    // wrap from the inside out
    let mut c = conds;
    let mut inner: Vec<Stmt> = body;
    for (lvl, k) in kinds.iter().enumerate().rev() {
        let pick = (c % 3) as usize;
        c /= 3;
        let counter = format!("t{}", lvl);
        let construct: Vec<Stmt> = match k {
            0 => vec![Stmt::Block(inner)],
            1 => vec![Stmt::Expr(Expr::If { cond: Box::new(Expr::Bool(pick != 1)), cons: inner, alt: None })],
            2 => {
                let other = vec![p(&format!("anders {}", lvl)), Stmt::Expr(Expr::Int(200 + lvl as i64))];
                // 0: the nest is the consequence and runs; 1: it is the alternative and runs; 2: it is the consequence and
                // the alternative runs instead
                let (a, b, c) = match pick {
                    0 => (inner, other, true),
                    1 => (other, inner, false),
                    _ => (inner, other, false),
                };
                vec![Stmt::Expr(Expr::If { cond: Box::new(Expr::Bool(c)), cons: a, alt: Some(b) })]
            }
            3 => {
                let o1 = vec![p(&format!("tak1 {}", lvl)), Stmt::Expr(Expr::Int(300 + lvl as i64))];
                let o2 = vec![p(&format!("tak2 {}", lvl))];
                // which of the three branches holds the inner construct and is taken
                let (c1, c2, b1, b2, b3) = match pick {
                    0 => (true, false, inner, o1, o2),
                    1 => (false, true, o1, inner, o2),
                    _ => (false, false, o1, o2, inner),
                };
                let second = Expr::If { cond: Box::new(Expr::Bool(c2)), cons: b2, alt: Some(b3) };
                vec![Stmt::Expr(Expr::If { cond: Box::new(Expr::Bool(c1)), cons: b1, alt: Some(vec![Stmt::Expr(second)]) })]
            }
            _ => {
                let mut b = vec![Stmt::Expr(assign(ident(&counter), infix(ident(&counter), Op::Add, Expr::Int(1))))];
                b.extend(inner);
                vec![
                    Stmt::Let(counter.clone(), Expr::Int(0)),
                    Stmt::Expr(Expr::While { cond: Box::new(infix(ident(&counter), Op::Lt, Expr::Int(2))), body: b }),
                ]
            }
        };
        // the construct sits between two markers of the enclosing body; in value position its value is stored (and never used)
        let mut outer = vec![p(&format!("voor {}", lvl))];
        let as_value = child_in_value_position && lvl > 0;
        if as_value {
            let mut cs = construct;
            let last = cs.pop().unwrap();
            outer.extend(cs);
            match last {
                Stmt::Expr(e) => outer.push(Stmt::Let(format!("w{}", lvl), e)),
                Stmt::Block(b) => outer.push(Stmt::Block(b)),
                other => outer.push(other),
            }
        } else {
            outer.extend(construct);
        }
        if !(child_last && lvl > 0) {
            outer.push(p(&format!("na {}", lvl)));
            if lvl > 0 {
                outer.push(Stmt::Expr(Expr::Int(10 + lvl as i64)));
            }
        }
        inner = outer;
    }
    // the outermost wrapper
    let outer_is_while = kinds[0] == 4;
    let mut prog = vec![];
    match wrapper {
        0 => {
            prog.extend(inner);
            prog.push(p("klaar"));
            prog.push(Stmt::Expr(Expr::Int(0)));
        }
        1 => {
            // `stel r = <last construct>` at top level
            let mut cs = inner;
            // find the construct statement: it is the one before the trailing marker
            let trailing = cs.pop().unwrap();
            let last = cs.pop().unwrap();
            prog.extend(cs);
            match last {
                Stmt::Expr(e) => prog.push(Stmt::Let("r".into(), e)),
                other => prog.push(other),
            }
            prog.push(trailing);
            prog.push(p("klaar"));
            if !outer_is_while && kinds[0] != 0 {
                prog.push(Stmt::Expr(calln("print", vec![Expr::Str("r={}".into()), ident("r")])));
            }
            prog.push(Stmt::Expr(Expr::Int(0)));
        }
        _ => {
            let mut fbody = inner;
            if wrapper == 3 {
                // the construct's value is the value of the function: drop the trailing marker
                fbody.pop();
            } else {
                fbody.push(Stmt::Expr(Expr::Int(7)));
            }
            prog.push(Stmt::Expr(Expr::Function { name: "test".into(), params: vec![], body: fbody }));
            if wrapper == 3 && (outer_is_while || kinds[0] == 0) {
                // value of a loop that ran / of a block statement: call for effect only
                prog.push(Stmt::Expr(calln("test", vec![])));
                prog.push(p("klaar"));
                prog.push(Stmt::Expr(Expr::Int(0)));
            } else {
                prog.push(Stmt::Expr(calln("print", vec![Expr::Str("f={}".into()), calln("test", vec![])])));
                prog.push(p("klaar"));
                prog.push(Stmt::Expr(Expr::Int(0)));
            }
        }
    }
    let _ = in_fn;
    prog
}

pub fn c11_directed() -> Vec<(&'static str, &'static str)> {
    vec![
        ("stop-in-own-condition-toplevel", "stel i = 0; stel r = [1, zolang als i > 2 { stop } anders { ja } { i += 1; i }, 3]; r[0]"),
        ("volgende-in-own-condition-toplevel", "stel i = 0; zolang als i > 2 { nee } anders { i += 1; volgende } { 1 }; i"),
        ("stop-in-inner-condition-leaves-outer", "stel i = 0; stel n = 0; zolang i < 5 { i += 1; zolang als i > 2 { stop } anders { nee } { 1 }; n += 1 }; [i, n]"),
        ("volgende-in-inner-condition-continues-outer", "stel i = 0; stel n = 0; zolang i < 5 { i += 1; zolang als i % 2 == 0 { volgende } anders { nee } { 1 }; n += 1 }; [i, n]"),
        ("stop-in-inner-condition-in-function", "functie f() { stel i = 0; stel n = 0; zolang i < 5 { i += 1; stel w = [7, zolang als i > 2 { stop } anders { nee } { 1 }]; n += 1 }; [i, n] } f()"),
        ("nested-loops-stop-each", "stel uit = []; stel i = 0; zolang i < 3 { i += 1; stel j = 0; zolang ja { j += 1; als j > i { stop } }; als i == 2 { stop } }; [i]"),
        ("nested-loops-volgende-inner", "stel geteld = 0; stel r = 0; zolang r < 3 { r += 1; stel k = 0; zolang k < 3 { k += 1; als k == 2 { volgende }; geteld += 1 } }; [geteld, r]"),
        ("three-arm-chain-each-arm", "functie kies(x) { als x == 1 { \"een\" } anders als x == 2 { \"twee\" } anders als x == 3 { \"drie\" } anders { \"veel\" } }; [kies(1), kies(2), kies(3), kies(4)]"),
        ("loop-zero-times-value", "stel r = zolang nee { 5 }; [r]"),
        ("antwoord-in-value-block-in-loop-leaves-names-alone", "functie f(n) { stel a = 1; stel i = 0; zolang i < n { i += 1; stel a = a + 10; stel r = als i > 100 { antwoord a } anders { 0 } }; a }; [f(0), f(1), f(3), f(1000)]"),
        ("antwoord-in-nested-blocks-leaves-names-alone", "functie g(x) { stel t = \"buiten\"; { stel t = \"binnen\"; als x > 5 { { antwoord t } } }; t }; [g(1), g(9)]"),
        ("if-in-value-position-inside-loop", "stel i = 0; stel som = 0; zolang i < 4 { i += 1; som += als i % 2 == 0 { 10 } anders als i == 3 { 100 } anders { 1 } }; som"),
    ]
}

const RESIDUE_BODIES: [&str; 26] = [
    "lijst[0] = als i % 2 == 0 { volgende } anders { 7 }",
    "lijst[als i % 2 == 0 { volgende } anders { 0 }] = 5",
    "x = lijst[als i % 2 == 0 { volgende } anders { 1 }]",
    "lijst[1] = [i, als i % 2 == 0 { volgende } anders { 2 }]",
    "print(\"a{}b{}\", 1, als i > 0 { volgende } anders { 2 })",
    "x = lengte([1, als i > 0 { volgende } anders { 2 }])",
    "x = id(1) + id(als i > 1 { stop } anders { 2 })",
    "x = 1 - (2 * (3 + als i % 2 == 1 { volgende } anders { 4 }))",
    "lijst[0] = zolang ja { stop }",
    "x = [1, zolang ja { als ja { stop } }, 3][0]",
    "{}",
    "{ {} }",
    "als i % 2 == 0 { volgende }",
    "x = 1 + als i % 2 == 0 { volgende } anders { 2 }",
    "stel t = [1, 2, als i > 0 { volgende } anders { 3 }]",
    "als i == 1 { stop }",
    "x = id(als i > 0 { volgende } anders { 2 })",
    "stel j = 0; zolang ja { j += 1; als j > 2 { stop } }",
    "als i > 0 { 1 } anders { stel d = 2 }",
    "zolang nee {}",
    "stel r2 = zolang nee { 1 }",
    "als ja {}",
    "als ja { stel q9 = 1 }",
    "x = x + 1; { stel a1 = x; { stel a2 = a1 } }",
    "[1, [2, als i % 3 == 0 { volgende } anders { 3 }], 4]",
    "als i % 2 == 0 { als i % 4 == 0 { volgende }; 5 } anders als i % 3 == 0 { stop } anders { 6 }",
];
const RESIDUE_COUNTS: [u64; 6] = [0, 1, 2, 3, 1000, 70000];
const TRAIL: &str = "functie som(a, b, c) { stel l = a + b; l + c } stel p = 11; stel q = 22; [som(p, q, 33), p, q, lengte([p, q]), id(5)]";

/// `forever`: the loop is `zolang ja` and leaves through `stop` (the condition is a literal, no comparison per round)
fn residue_program(body: &str, n: u64, in_function: bool, forever: bool) -> String {
    let core = if forever {
        format!("stel x = 0; stel lijst = [0, 0, 0]; stel i = 0; zolang ja {{ als i >= {} {{ stop }}; i += 1; {} }}; {}", n, body, TRAIL)
    } else {
        format!("stel x = 0; stel lijst = [0, 0, 0]; stel i = 0; zolang i < {} {{ i += 1; {} }}; {}", n, body, TRAIL)
    };
    if in_function {
        format!("functie id(v) {{ v }} functie proef() {{ {} }} proef()", core)
    } else {
        format!("functie id(v) {{ v }} {}", core)
    }
}

// ------------------------------------------------------------------------------------------------
// C12 directed

pub fn c12_directed() -> Vec<(&'static str, String)> {
    vec![
        ("argument-order", "stel spoor = []; functie noteer(x) { print(\"arg {}\", x); x } functie drie(a, b, c) { [a, b, c] } drie(noteer(1), noteer(2), noteer(3))".into()),
        ("call-as-second-operand", "functie f(b) { b * 2 } stel a = 10; a - f(3)".into()),
        ("call-in-array-literal", "functie f(y) { y + 100 } stel x = 1; stel z = 3; [x, f(2), z]".into()),
        ("call-in-argument-list", "functie f(v) { v * 10 } functie g(a, b, c) { [a, b, c] } g(1, f(2), 3)".into()),
        ("nested-calls", "functie f(v) { v + 1 } f(f(f(f(0))))".into()),
        ("recursion-fib", "functie fib(n) { als n < 2 { antwoord n }; fib(n - 1) + fib(n - 2) } fib(15)".into()),
        ("recursion-locals-independent", "functie r(n) { stel mijn = n * 10; als n > 0 { r(n - 1) }; mijn }; [r(3), r(0)]".into()),
        ("mutual-recursion", "stel even = functie(n) { als n == 0 { ja } anders { oneven(n - 1) } }; stel oneven = functie(n) { als n == 0 { nee } anders { even(n - 1) } }; 0".into()),
        ("mutual-recursion-named", "functie is_even(n) { als n == 0 { ja } anders { is_oneven(n - 1) } } functie is_oneven(n) { als n == 0 { nee } anders { is_even(n - 1) } } 1".into()),
        ("deep-recursion-200", "functie diep(n) { als n == 0 { 0 } anders { 1 + diep(n - 1) } } diep(200)".into()),
        ("function-in-variable", "stel f = functie(x) { x * 3 }; stel g = f; g(4)".into()),
        ("function-in-array", "functie a(x) { x + 1 } functie b(x) { x * 2 } stel fs = [a, b]; stel h = fs[1]; h(21)".into()),
        ("function-as-argument", "functie toepassen(f, v) { f(v) } functie plus1(x) { x + 1 } toepassen(plus1, 41)".into()),
        ("function-returned", "functie maak() { functie(x) { x * x } } stel kwadraat = maak(); kwadraat(9)".into()),
        ("function-returned-named", "functie maak() { functie binnen(x) { x + 2 }; binnen } stel g = maak(); g(5)".into()),
        ("immediately-invoked", "functie(a, b) { a * b }(6, 7)".into()),
        ("callers-locals-intact", "functie knoei(a, b, c) { stel x = 0; stel y = 0; a = 99; b = 98; x + y + c } functie baas() { stel p = 1; stel q = 2; stel r = 3; stel uit = knoei(p, q, r); [p, q, r, uit] } baas()".into()),
        ("half-evaluated-expression", "functie zij(v) { stel t1 = v; stel t2 = v * 2; t1 + t2 } stel a = 5; (a * 2 + zij(3)) * (zij(1) - a) + [a, zij(2)][1]".into()),
        ("zero-params-many-locals", "functie f() { stel a = 1; stel b = 2; stel c = 3; stel d = 4; [a, b, c, d] }; [f(), f()]".into()),
        ("four-params-four-locals", "functie f(a, b, c, d) { stel e = a + b; stel g = c + d; stel h = e * g; stel i = h - a; [a, b, c, d, e, g, h, i] } f(1, 2, 3, 4)".into()),
        ("early-return-from-loop-in-call", "functie zoek(lijst, doel) { stel i = 0; zolang i < lengte(lijst) { als lijst[i] == doel { antwoord i }; i += 1 }; -1 }; [zoek([5, 6, 7], 7), zoek([5, 6, 7], 8)]".into()),
        ("procedure-result-null", "functie noteer(x) { stel kopie = x }; [1, noteer(5), 3, type(noteer(7))]".into()),
        ("empty-body-with-params", "functie niets(a, b) { }; [niets(1, 2), type(niets(3, 4))]".into()),
        ("procedure-in-initialiser", "functie zet(v) { stel w = v * 2 } stel r = zet(21); [r, type(r)]".into()),
        ("procedure-with-locals-and-blocks", "functie p(a) { stel b = a + 1; { stel c = b + 1 }; stel d = b }; [p(1), 7, p(2)]".into()),
        ("result-discarded", "functie f() { [1, 2, 3] } f(); f(); 5".into()),
        ("call-in-condition", "functie waar() { ja } functie tel(n) { n + 1 } als waar() { tel(1) } anders { tel(2) }".into()),
        ("call-above-64k-of-code", format!("stel x = 0; functie tel() {{ x = x + 1; x }}; {} [tel(), tel(), x]", "x = x + 1; ".repeat(9000))),
        ("calls-throughout-100k-of-code", format!("functie dubbel(v) {{ stel w = v * 2; w }}; stel som = 0; {} [som, dubbel(som)]", (0..6000).map(|k| format!("som = som + dubbel({}); ", k % 7)).collect::<String>())),
        // every activation gets its own values, also for what a builtin hands back
        ("activation-owns-builtin-results", "functie diep(n) { stel s = string(\"ab\"); als n > 0 { s[0] = \"X\"; stel r = diep(n - 1); [s, r] } anders { s } }; stel bewaard = string(\"ab\"); [diep(2), bewaard, string(\"ab\")]".into()),
        ("activation-owns-literal-arguments", "functie f(t) { t[0] = \"#\"; t } functie g() { f(\"abc\") }; [g(), g(), f(string(\"abc\")), f(string(\"abc\"))]".into()),
        // a helper function declared inside a function is a local of that activation, whatever the name means outside
        ("local-function-named-like-a-global-function", "functie hulp() { 1 } functie buiten() { functie hulp() { 2 }; hulp() }; stel eerst = hulp(); [buiten(), hulp(), eerst]".into()),
        ("local-function-named-like-a-global-variable", "stel teller = 10; functie buiten() { functie teller() { 7 }; teller() }; [buiten(), teller, buiten(), teller + 1]".into()),
        ("local-function-in-recursion", "functie r(n) { functie zelf(k) { k * 2 }; als n == 0 { zelf(1) } anders { zelf(n) + r(n - 1) } } functie zelf(k) { 0 - k }; [r(3), zelf(5)]".into()),
        ("call-in-loop-condition", "stel n = 0; functie minder(a) { a < 3 } zolang minder(n) { n += 1 }; n".into()),
    ]
}

fn limit_cases() -> Vec<(&'static str, String, Val)> {
    let mut v: Vec<(&'static str, String, Val)> = vec![];
    for (name, d) in [("recursion-100", 100i64), ("recursion-1000", 1000), ("recursion-10000", 10_000), ("recursion-20000", 20_000), ("recursion-30000", 30_000), ("recursion-60000", 60_000), ("recursion-100000", 100_000)] {
        v.push((name, format!("functie diep(n) {{ als n == 0 {{ 0 }} anders {{ 1 + diep(n - 1) }} }} diep({})", d), Val::Int(d)));
    }
    for (name, d) in [("recursion-locals-15000", 15_000i64), ("recursion-locals-22000", 22_000)] {
        v.push((name, format!("functie diep(n) {{ stel a = n; stel b = [n]; als n == 0 {{ 0 }} anders {{ a - n + 1 + diep(n - 1) }} }} diep({})", d), Val::Int(d)));
    }
    for (name, n) in [("args-255", 255usize), ("args-256", 256), ("args-300", 300)] {
        let params: Vec<String> = (0..n).map(|i| format!("p{}", i)).collect();
        let args: Vec<String> = (0..n).map(|i| format!("{}", i)).collect();
        v.push((name, format!("functie f({}) {{ p0 + p{} }} f({})", params.join(", "), n - 1, args.join(", ")), Val::Int(n as i64 - 1)));
    }
    for (name, n) in [("locals-300", 300usize), ("locals-70000", 70_000)] {
        let decls: String = (0..n).map(|i| format!("stel v{} = {};", i, i)).collect();
        v.push((name, format!("functie f() {{ {} v0 + v{} }} f()", decls, n - 1), Val::Int(n as i64 - 1)));
    }
    // the 16-bit stack index reached in steps of different size: the recursion uses two slots per level and runs out
    // between depth 32 765 and 32 770; at the bottom a call is made with K array elements already on the stack
    for d in 32_755i64..=32_772 {
        for k in [0i64, 1, 2, 5, 10, 11, 12, 16, 31] {
            let name: &'static str = Box::leak(format!("stack-boundary-{}-{}", d, k).into_boxed_str());
            let items: String = (0..k).map(|x| format!("{}, ", x)).collect();
            v.push((name, format!("functie g() {{ 1 }}; functie f(n) {{ als n == 0 {{ lengte([{}g()]) }} anders {{ 1 + f(n - 1) }} }}; f({})", items, d), Val::Int(d + k + 1)));
        }
    }
    v.push(("function-after-70KB-of-code", format!("{} functie g(x) {{ x + 7 }} g(1)", "1;".repeat(20_000)), Val::Int(8)));
    v.push(("function-body-70KB", format!("functie g(x) {{ {} x + 7 }} g(1)", "1;".repeat(20_000)), Val::Int(8)));
    v.push(("loop-body-70KB", format!("stel i = 0; zolang i < 2 {{ i += 1; {} }}; i", "1;".repeat(20_000)), Val::Int(2)));
    v
}

impl Flow {
    pub fn new(which: Which) -> Self {
        Flow { which }
    }

    fn fams(&self, ctx: &Ctx) -> Families {
        let (rnd, tmpl) = match (ctx.flavour, ctx.tier) {
            (Flavour::Rel, Tier::Quick) => (25_000, 40_000),
            (Flavour::Rel, Tier::Thorough) => (1_000_000, TEMPLATE_SPACE),
            (_, Tier::Quick) => (1_000, 1_000),
            _ => (20_000, 20_000),
        };
        match self.which {
            Which::C11 => Families::new(vec![
                ("directed", c11_directed().len() as u64),
                ("templates", tmpl),
                ("residue", (RESIDUE_BODIES.len() * 4) as u64),
                ("control-random", rnd),
                // every size of jump operand (props/jumps.rs): quick = a dense window and the bands around magic numbers,
                // thorough = every filler size up to the limit of a jump range
                ("jump-distances", match (ctx.flavour, ctx.tier) { (Flavour::Rel, Tier::Quick) => super::jumps::quick_values().len() as u64, (Flavour::Rel, Tier::Thorough) => 65_536, (Flavour::Miri, _) => 12, _ => 300 }),
            ]),
            Which::C12 => Families::new(vec![
                ("directed", c12_directed().len() as u64),
                ("limits", limit_cases().len() as u64),
                ("calls-random", rnd),
                // the directed calls again, written without blanks after the commas, run by the shipped binary under several
                // environments (props/binfile.rs)
                ("calls-through-the-binary", if ctx.flavour == Flavour::Rel { c12_directed().len() as u64 } else { 0 }),
            ]),
        }
    }

    fn text(&self, ctx: &Ctx, idx: u64) -> (&'static str, String) {
        let (f, name, i) = self.fams(ctx).locate(idx);
        let mut r = Rng::for_case(ctx.seed, 1100 + f as u64 + if self.which == Which::C12 { 40 } else { 0 }, i);
        match name {
            "templates" => {
                let fam_n = self.fams(ctx).fams[1].1;
                let stride = TEMPLATE_SPACE / fam_n;
                let k = (i * stride + ctx.seed % stride.max(1)) % TEMPLATE_SPACE;
                (name, to_text(&template(k)))
            }
            "jump-distances" => (name, format!("jump-distances #{}", i)),
            "calls-through-the-binary" => (name, c12_directed()[i as usize].1.clone()),
            "residue" => (name, residue_program(RESIDUE_BODIES[(i / 4) as usize], 3, i % 2 == 1, (i / 2) % 2 == 1)),
            "control-random" => (name, to_text(&random_program(&mut r, Profile::Control).0)),
            "directed" if self.which == Which::C11 => (name, c11_directed()[i as usize].1.to_string()),
            "directed" => (name, c12_directed()[i as usize].1.clone()),
            "limits" => (name, limit_cases()[i as usize].1.clone()),
            _ => (name, to_text(&random_program(&mut r, Profile::Calls).0)),
        }
    }

    /// frame discipline from the trace of one run (C12)
    fn frame_discipline(&self, text: &str, st: &mut Stats) -> Option<String> {
        use nederlang::compiler::Compiler;
        let ast = nederlang::parser::parse(text).ok()?;
        let code = Compiler::new().compile_ast(&ast).ok()?;
        let bytes = code.instructions.clone();
        for c in &code.constants {
            if c.is_heap_allocated() {
                c.free();
            }
        }
        let table = verif::opcode_table();
        let call_op = table.iter().find(|t| t.1 == "Call").map(|t| t.0)?;
        let cfg = ObsCfg { budget: Some(200_000), probes: true, shadow: verif::ShadowMode::Quarantine, trace: true, branch_schedule: None };
        let _ = eval_observed(text, &cfg);
        let (tr, truncated) = verif::take_trace();
        if truncated {
            return None;
        }
        // pending calls: (frames before, bp before, stack_len before, argc)
        let mut pending: Vec<(u16, u16, u32, u32)> = vec![];
        for w in tr.windows(2) {
            let (a, b) = (&w[0], &w[1]);
            if a.op == call_op && (a.ip as usize + 1) < bytes.len() {
                let argc = bytes[a.ip as usize + 1] as u32;
                if b.frames == a.frames + 1 {
                    st.count("calls-traced");
                    st.max("max-call-depth", b.frames as u64);
                    // the callee's frame starts exactly at its first argument
                    let want_bp = a.stack_len - 1 - argc;
                    if b.bp as u32 != want_bp {
                        return Some(format!("call at ip {} with {} arguments and {} stack slots: the callee's base pointer is {}, expected {}", a.ip, argc, a.stack_len, b.bp, want_bp));
                    }
                    pending.push((a.frames, a.bp, a.stack_len, argc));
                }
            }
            if b.frames < a.frames {
                // a return
                if let Some((f, bp, sl, argc)) = pending.pop() {
                    st.count("returns-traced");
                    if b.frames != f || b.bp != bp {
                        return Some(format!("after the return at ip {} the caller has frames={} bp={}, before the call frames={} bp={}", a.ip, b.frames, b.bp, f, bp));
                    }
                    if b.stack_len != sl - argc {
                        return Some(format!("after the return at ip {} the caller's stack has {} slots; before the call it had {} including {} arguments and the callee (expected {})", a.ip, b.stack_len, sl, argc, sl - argc));
                    }
                }
            }
        }
        None
    }

    /// heights at loop heads must not depend on the iteration (C11 residue), from the trace of one run
    fn loop_head_heights(&self, text: &str, st: &mut Stats) -> Option<String> {
        let cfg = ObsCfg { budget: Some(100_000), probes: true, shadow: verif::ShadowMode::Quarantine, trace: true, branch_schedule: None };
        let _ = eval_observed(text, &cfg);
        let (tr, truncated) = verif::take_trace();
        if truncated {
            return None;
        }
        // loop heads = targets of backward jumps
        let mut heads: std::collections::HashMap<(u32, u16), Vec<u32>> = std::collections::HashMap::new();
        for w in tr.windows(2) {
            if w[1].ip < w[0].ip && w[1].frames == w[0].frames {
                heads.entry((w[1].ip, w[1].frames)).or_default().push(w[1].stack_len - w[1].bp as u32);
            }
        }
        for ((ip, _), hs) in heads {
            st.count("loop-heads-traced");
            if hs.iter().any(|h| *h != hs[0]) {
                return Some(format!("the operand stack height at the loop head (ip {}) changes from one iteration to the next: {:?}", ip, &hs[..hs.len().min(8)]));
            }
        }
        None
    }
}

/// stack-height inconsistencies in the bytecode the real compiler emits for `text` (None: none, or not compilable)
fn bytecode_residue(text: &str) -> Option<crate::bcv::Finding> {
    use nederlang::compiler::Compiler;
    thread_local! {
        static TABLE: crate::bcv::Table = crate::bcv::Table::load();
    }
    let ast = nederlang::parser::parse(text).ok()?;
    let code = Compiler::new().compile_ast(&ast).ok()?;
    let rep = TABLE.with(|t| crate::bcv::check(&code.instructions, &code.constants, code.entry, t));
    for c in &code.constants {
        if c.is_heap_allocated() {
            c.free();
        }
    }
    if !rep.breaches.is_empty() || !rep.inconclusive.is_empty() {
        return None; // C02's business
    }
    rep.residue.into_iter().next()
}

fn trailing(o: &Obs) -> String {
    format!("{} / {:?}", o.outcome.render(), o.output)
}

impl Check for Flow {
    fn id(&self) -> &'static str {
        match self.which {
            Which::C11 => "C11",
            Which::C12 => "C12",
        }
    }
    fn total_cases(&self, ctx: &Ctx) -> u64 {
        self.fams(ctx).total()
    }
    fn chunk_size(&self, _ctx: &Ctx) -> u64 {
        match self.which {
            Which::C11 => 200,
            Which::C12 => 4,
        }
    }
    fn describe_case(&mut self, ctx: &Ctx, idx: u64) -> String {
        self.text(ctx, idx).1
    }

    fn run_case(&mut self, ctx: &Ctx, idx: u64, st: &mut Stats) {
        {
            let (_, name, i) = self.fams(ctx).locate(idx);
            if name == "calls-through-the-binary" {
                let t = c12_directed()[i as usize].1.clone();
                st.count("cases:calls-through-the-binary");
                if t.len() < 20_000 {
                    super::binfile::compare_with_binary(&t.replace(", ", ","), "calls-through-the-binary", st);
                    super::binfile::compare_with_binary(&t, "calls-through-the-binary", st);
                }
                return;
            }
            if name == "jump-distances" {
                let f = match (ctx.flavour, ctx.tier) {
                    (Flavour::Rel, Tier::Quick) => super::jumps::quick_values()[i as usize],
                    (Flavour::Rel, Tier::Thorough) => i as usize,
                    _ => (i as usize * 37) % 4300,
                };
                st.count("cases:jump-distances");
                if i == 0 {
                    st.set_insert("jump-distances:filler", &super::jumps::sizes_note());
                }
                super::jumps::run(f, name, st);
                return;
            }
        }
        let (fam, text) = self.text(ctx, idx);
        let (_, _, i) = self.fams(ctx).locate(idx);
        let cfg = match ctx.flavour {
            Flavour::Asan | Flavour::Miri => ObsCfg::plain(3_000_000),
            _ => ObsCfg::default(),
        };
        st.count(&format!("cases:{}", fam));
        match fam {
            "residue" => {
                let body = RESIDUE_BODIES[(i / 4) as usize];
                let in_fn = i % 2 == 1;
                let forever = (i / 2) % 2 == 1;
                st.set_insert("residue-templates", &format!("{}|{}|{}", body, if in_fn { "function" } else { "top level" }, if forever { "zolang ja" } else { "counted" }));
                // (a) heights at the loop head, from the trace of a 3-iteration run, and on all paths of the bytecode
                if ctx.flavour == Flavour::Rel {
                    if let Some(f) = bytecode_residue(&text) {
                        st.violation(&format!("residue:bytecode-residue:{}", body), f.detail, &text);
                        return;
                    }
                    if let Some(d) = self.loop_head_heights(&text, st) {
                        st.violation(&format!("residue:loop-head-height:{}", body), d, &text);
                        return;
                    }
                }
                // (b) the trailing code behaves the same after any number of iterations
                let mut first: Option<(u64, String)> = None;
                for n in RESIDUE_COUNTS {
                    let t = residue_program(body, n, in_fn, forever);
                    let mut c = cfg.clone();
                    c.budget = Some(5_000_000);
                    let o = eval_observed(&t, &c);
                    st.evaluations += 1;
                    st.count(&format!("iterations:{}", n));
                    if matches!(o.outcome, Outcome::Panic(..) | Outcome::Stop) {
                        st.violation(&format!("residue:{}:{}", body, o.outcome.class()), format!("{} iterations: {} events {:?}", n, trailing(&o), o.events), &t);
                        return;
                    }
                    let expected = "Value([66, 11, 22, 2, 5])";
                    let got = o.outcome.render();
                    if got != expected || !o.output.is_empty() {
                        st.violation(&format!("residue:{}:trailing-code-differs", body), format!("after {} iterations the code after the loop gives {}; expected {} (as after {:?} iterations)", n, trailing(&o), expected, first), &t);
                        return;
                    }
                    if first.is_none() {
                        first = Some((n, got));
                    }
                }
                st.distinct_hash(hash_str(&text));
            }
            "limits" => {
                let (name, t, want) = limit_cases()[i as usize].clone();
                let mut c = cfg.clone();
                c.budget = Some(20_000_000);
                let o = eval_observed(&t, &c);
                st.evaluations += 1;
                st.set_insert("limit-outcomes", &format!("{}: {}", name, crate::obs::clip(&o.outcome.render(), 90)));
                let ok = match &o.outcome {
                    Outcome::Value(v) => same_val(v, &want),
                    Outcome::Error(..) => true,
                    _ => false,
                };
                if !ok {
                    st.violation(&format!("limits:{}:{}", name, o.outcome.class()), format!("expected {} or an error, got {} (events {:?})", render_val(&want), o.outcome.render(), o.events), &t);
                } else {
                    st.distinct_hash(hash_str(name));
                }
            }
            _ => {
                // no path through the emitted bytecode may reach a point with a different stack height than another
                // path: that is a slot left behind (or taken) by an early exit. The offline checker of C02 computes it.
                if ctx.flavour == Flavour::Rel {
                    if let Some(f) = bytecode_residue(&text) {
                        st.violation(&format!("{}:bytecode-residue:{}", fam, f.class), f.detail, &text);
                        return;
                    }
                    st.count("bytecode-residue-checks");
                }
                let d = differential(&text, &cfg, 400_000, st);
                match d.verdict {
                    Verdict::Agree { nontrivial } => {
                        if nontrivial {
                            st.distinct_hash(hash_str(&text));
                        }
                        if idx % 3001 == 0 {
                            st.sample(&format!("[{}] {}", fam, text));
                        }
                    }
                    Verdict::Skip(_) | Verdict::Inconclusive(_) => {}
                    Verdict::Mismatch { sig, detail } => {
                        st.violation(&format!("{}:{}", fam, sig), detail, &text);
                        return;
                    }
                }
                if ctx.flavour == Flavour::Rel {
                    match self.which {
                        Which::C12 => {
                            if fam == "directed" || idx % 4 == 0 {
                                if let Some(dv) = self.frame_discipline(&text, st) {
                                    st.violation(&format!("{}:frame-discipline", fam), dv, &text);
                                }
                            }
                        }
                        Which::C11 => {
                            if idx % 8 == 0 {
                                if let Some(dv) = self.loop_head_heights(&text, st) {
                                    st.violation(&format!("{}:loop-head-height", fam), dv, &text);
                                }
                            }
                        }
                    }
                }
            }
        }
    }

    fn summarize(&self, ctx: &Ctx, merged: &Stats) -> Summary {
        let fams = self.fams(ctx);
        let mut inconclusive = vec![];
        match self.which {
            Which::C11 => {
                if merged.sets.get("residue-templates").map(|s| s.len()).unwrap_or(0) != RESIDUE_BODIES.len() * 4 {
                    inconclusive.push("residue templates incomplete".to_string());
                }
                if ctx.flavour == Flavour::Rel && merged.counters.get("loop-heads-traced").copied().unwrap_or(0) == 0 {
                    inconclusive.push("no loop head was traced".to_string());
                }
            }
            Which::C12 => {
                if ctx.flavour == Flavour::Rel && merged.counters.get("returns-traced").copied().unwrap_or(0) == 0 {
                    inconclusive.push("no call/return pair was traced".to_string());
                }
            }
        }
        let rule = match self.which {
            Which::C11 => "templates: nests of depth 1-3 over {block, als, als/anders, als/anders als/anders, zolang} in four wrappers (statement / value position, top level / function body), every choice of branch taken, one early exit (none, stop, volgende, antwoord) at the start or the end of the innermost body, the nested construct either between two markers or as the last statement of the enclosing body, the innermost body either with markers around the exit or nothing but the exit, four body endings (expression, declaration, nested block, nothing), a print marker at every point, checked against the reference model (strided in the quick tier, complete in the thorough tier); residue: 16 loop bodies x {top level, function} run for 0, 1, 2, 3, 1000 and 70000 iterations, the code after the loop (declares locals, calls functions) must give the same result every time, and the traced operand-stack height at every loop head must not change between iterations; control-profile random programs against the reference. distinct = distinct program texts",
            Which::C12 => "directed call shapes (argument order, calls as non-first operands / array elements / arguments, direct, mutual and deep recursion, functions in variables and arrays, passed and returned) and calls-profile random programs against the reference model; frame discipline from the instruction trace: the callee's base pointer is exactly at its first argument, and after the return the caller's frame count, base pointer and stack height (minus arguments and callee, plus result) are restored; limit cases (recursion up to and past the 16-bit stack, 255/256/300 arguments, 300 and 70 000 locals, code beyond 64 KiB) with the weaker oracle 'the exact value or an error'. distinct = distinct program texts",
        };
        Summary {
            rule: rule.to_string(),
            exhaustive: Some(self.which == Which::C11 && ctx.tier == Tier::Thorough),
            extra: json!({
                "template_space": TEMPLATE_SPACE,
                "families": fams.fams.iter().map(|f| json!({"name": f.0, "cases": f.1})).collect::<Vec<_>>(),
            }),
            assumptions: vec!["the value of a loop that ran and of a block ending in a declaration after a value is unspecified (DESIGN §4.3(8)): templates never use it".to_string()],
            inconclusive,
        }
    }

    fn post(&mut self, ctx: &Ctx, merged: &mut Stats) {
        if ctx.flavour == Flavour::Rel && ctx.tier == Tier::Thorough && self.which == Which::C12 {
            crate::sup::run_sub_flavour("C12", ctx, Flavour::Asan, merged);
        }
    }
}
