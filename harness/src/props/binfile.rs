//! `nederlang <file>` against eval() in process: shared by the checks that have a family for the shipped binary.

use crate::obs::{eval_observed, ObsCfg, Outcome};
use crate::sup::Stats;

/// `nederlang <file>`, the way a user runs a program: what the shipped (hook-free) binary writes to stdout and
/// stderr and how it ends must be what eval() of the same text yields in process — the printed lines, then the
/// result, or the error (whose kind is compared). The reference has already judged eval(); this family judges
/// src/bin/nederlang.rs' file mode.
pub fn compare_with_binary(text: &str, tag: &str, st: &mut Stats) {
    let bin = format!("{}/harness/target-repo/release/nederlang", crate::sup::root());
    if !std::path::Path::new(&bin).exists() {
        st.inconclusive(format!("{} not built", bin));
        return;
    }
    if text.contains("zolang ja") {
        return;
    }
    let o = eval_observed(text, &ObsCfg::plain(3_000_000));
    st.evaluations += 1;
    let mut want_out = String::new();
    for l in &o.output {
        want_out.push_str(l);
        want_out.push('\n');
    }
    let want_err: Option<String> = match &o.outcome {
        Outcome::Value(v) => {
            let mut s = String::new();
            if super::c17::display_val(v, &mut s).is_none() {
                st.count(&format!("{}:skipped-unmodelled-rendering", tag));
                return;
            }
            want_out.push_str(&s);
            want_out.push('\n');
            None
        }
        Outcome::Error(k, _) => Some(k.name().to_string()),
        _ => {
            st.count(&format!("{}:skipped-budget-or-anomaly", tag));
            return;
        }
    };
    let path = format!("{}/c01-bin-{}-{:x}.nl", crate::sup::scratch_dir(), std::process::id(), crate::rng::hash_str(text));
    if std::fs::write(&path, text).is_err() {
        return;
    }
    // the same file under three environments: the one the harness runs in, a Dutch locale (decimal comma country), and one
    // of the others in turn. A program is a function of its text: none of this may show.
    let h = crate::rng::hash_str(text);
    let rotating = 2 + (h % (ENVIRONMENTS.len() as u64 - 2)) as usize;
    for which in [0usize, 1, rotating] {
        let (ename, vars, clear) = ENVIRONMENTS[which];
        // (no shell in between: a shell comments on locales that are not installed)
        let mut cmd = std::process::Command::new("/usr/bin/timeout");
        if clear {
            cmd.env_clear();
        }
        for (k, v) in vars {
            cmd.env(k, v);
        }
        {
            use std::os::unix::process::CommandExt;
            extern "C" {
                fn setrlimit(resource: i32, rlim: *const [u64; 2]) -> i32;
            }
            // CPU time: 20 s soft (SIGXCPU), 30 s hard
            unsafe {
                cmd.pre_exec(|| {
                    let lim: [u64; 2] = [20, 30];
                    setrlimit(0 /* RLIMIT_CPU */, &lim);
                    Ok(())
                });
            }
        }
        let out = cmd.arg("600").arg(&bin).arg(&path).stdin(std::process::Stdio::null()).output();
        let out = match out {
            Ok(o) => o,
            Err(_) => continue,
        };
        st.count(&format!("{}:runs", tag));
        st.count(&format!("binary-environment:{}", ename));
        let envtag = if which == 0 { tag.to_string() } else { format!("{}:environment-{}", tag, ename) };
        judge_run(text, &envtag, &o, &want_out, &want_err, &out, st);
    }
    let _ = std::fs::remove_file(&path);
    st.distinct_hash(h);
}

/// (name, variables, start from an empty environment)
const ENVIRONMENTS: &[(&str, &[(&str, &str)], bool)] = &[
    ("inherited", &[], false),
    ("dutch", &[("LC_ALL", "nl_NL.UTF-8"), ("LANG", "nl_NL.UTF-8"), ("LANGUAGE", "nl_NL:nl"), ("LC_NUMERIC", "nl_NL.UTF-8")], false),
    ("dutch-lang-only", &[("LANG", "nl_NL.UTF-8")], true),
    ("dutch-numeric-only", &[("LANG", "en_US.UTF-8"), ("LC_NUMERIC", "nl_BE.UTF-8")], true),
    ("german", &[("LC_ALL", "de_DE.UTF-8"), ("LANG", "de_DE.UTF-8")], false),
    ("turkish", &[("LC_ALL", "tr_TR.UTF-8"), ("LANG", "tr_TR.UTF-8")], false),
    ("posix", &[("LC_ALL", "C"), ("LANG", "C"), ("TZ", "Pacific/Kiritimati"), ("TERM", "dumb"), ("NO_COLOR", "1"), ("COLUMNS", "20"), ("LINES", "5")], false),
    ("empty", &[], true),
    ("odd-terminal", &[("TERM", "xterm-256color"), ("COLORTERM", "truecolor"), ("CLICOLOR_FORCE", "1"), ("FORCE_COLOR", "3"), ("RUST_BACKTRACE", "0"), ("RUST_LOG", "trace"), ("DEBUG", "1"), ("NEDERLANG_DEBUG", "1"), ("HOME", "/nonexistent"), ("TMPDIR", "/nonexistent"), ("USER", "iemand"), ("TZ", "Europe/Amsterdam")], false),
];

fn judge_run(text: &str, tag: &str, o: &crate::obs::Obs, want_out: &str, want_err: &Option<String>, out: &std::process::Output, st: &mut Stats) {
    let want_out = want_out.to_string();
    let want_err = want_err.clone();
    if out.status.code() == Some(124) {
        st.count("case-inconclusive:binary-watchdog");
        return;
    }
    let got_out = String::from_utf8_lossy(&out.stdout).to_string();
    let got_err = String::from_utf8_lossy(&out.stderr).to_string();
    if out.status.code() != Some(0) {
        st.violation(&format!("{}:abnormal-end", tag), format!("`nederlang <file>` ended with {:?}; stderr: {}", out.status, crate::obs::clip(&got_err, 300)), text);
        return;
    }
    let got_kind: Option<String> = got_err.lines().next().and_then(|l| l.split('(').next()).map(|k| k.trim_end_matches("Error").to_string());
    if got_out != want_out {
        st.violation(&format!("{}:stdout", tag), format!("the binary printed {:?}; eval() in process gives output {:?} and {}", crate::obs::clip(&got_out, 400), o.output.iter().take(6).collect::<Vec<_>>(), o.outcome.render()), text);
    } else if got_kind != want_err {
        st.violation(&format!("{}:stderr", tag), format!("the binary reported {:?}; eval() in process gives {}", crate::obs::clip(&got_err, 200), o.outcome.render()), text);
    }
}

