//! `nederlang <file>` against eval() in process: shared by the checks that have a family for the shipped binary.

use crate::obs::{eval_observed, ObsCfg, Outcome};
use crate::sup::Stats;

/// `nederlang <file>`, the way a user runs a program: what the shipped (hook-free) binary writes to stdout and
/// stderr and how it ends must be what eval() of the same text yields in process — the printed lines, then the
/// result, or the error (whose kind is compared). The reference has already judged eval(); this family judges
/// src/bin/nederlang.rs' file mode.
pub fn compare_with_binary(text: &str, tag: &str, st: &mut Stats) {
    let bin = format!("{}/harness/target-repo/release/nederlang", crate::sup::root());
    if !std::path::Path::new(&bin).exists() {
        st.inconclusive(format!("{} not built", bin));
        return;
    }
    if text.contains("zolang ja") {
        return;
    }
    let o = eval_observed(text, &ObsCfg::plain(3_000_000));
    st.evaluations += 1;
    let mut want_out = String::new();
    for l in &o.output {
        want_out.push_str(l);
        want_out.push('\n');
    }
    let want_err: Option<String> = match &o.outcome {
        Outcome::Value(v) => {
            let mut s = String::new();
            if super::c17::display_val(v, &mut s).is_none() {
                st.count(&format!("{}:skipped-unmodelled-rendering", tag));
                return;
            }
            want_out.push_str(&s);
            want_out.push('\n');
            None
        }
        Outcome::Error(k, _) => Some(k.name().to_string()),
        _ => {
            st.count(&format!("{}:skipped-budget-or-anomaly", tag));
            return;
        }
    };
    let path = format!("{}/c01-bin-{}-{:x}.nl", crate::sup::scratch_dir(), std::process::id(), crate::rng::hash_str(text));
    if std::fs::write(&path, text).is_err() {
        return;
    }
    let out = std::process::Command::new("bash")
        .arg("-c")
        .arg("ulimit -S -t 20; ulimit -H -t 30; exec timeout 600 \"$0\" \"$1\"")
        .arg(&bin)
        .arg(&path)
        .stdin(std::process::Stdio::null())
        .output();
    let _ = std::fs::remove_file(&path);
    let out = match out {
        Ok(o) => o,
        Err(_) => return,
    };
    st.count(&format!("{}:runs", tag));
    st.distinct_hash(crate::rng::hash_str(text));
    if out.status.code() == Some(124) {
        st.count("case-inconclusive:binary-watchdog");
        return;
    }
    let got_out = String::from_utf8_lossy(&out.stdout).to_string();
    let got_err = String::from_utf8_lossy(&out.stderr).to_string();
    if out.status.code() != Some(0) {
        st.violation(&format!("{}:abnormal-end", tag), format!("`nederlang <file>` ended with {:?}; stderr: {}", out.status, crate::obs::clip(&got_err, 300)), text);
        return;
    }
    let got_kind: Option<String> = got_err.lines().next().and_then(|l| l.split('(').next()).map(|k| k.trim_end_matches("Error").to_string());
    if got_out != want_out {
        st.violation(&format!("{}:stdout", tag), format!("the binary printed {:?}; eval() in process gives output {:?} and {}", crate::obs::clip(&got_out, 400), o.output.iter().take(6).collect::<Vec<_>>(), o.outcome.render()), text);
    } else if got_kind != want_err {
        st.violation(&format!("{}:stderr", tag), format!("the binary reported {:?}; eval() in process gives {}", crate::obs::clip(&got_err, 200), o.outcome.render()), text);
    }
}

