//! Every Unicode scalar value, in every place where the lexer has to decide something about it.
//!
//! The generators draw identifiers, strings and comment bodies from alphabets of a few dozen characters. A rule that
//! singles out other characters (bidirectional controls in comments, "confusable" letters in identifiers, a look-up
//! table that ends at U+FFFF) is right for all of those. This sweep is complete instead: the 1 112 064 scalar values in
//! 4 352 blocks of 256, each character
//!  * inside a line comment (anything but a line feed is skipped, and the code around the comment is untouched),
//!  * inside a string literal (anything but `"` and `\` denotes itself: the value has the three characters written, in
//!    that order),
//!  * as the first and as a later character of an identifier, where it is a letter (digit, underscore) — the name is
//!    declared and read back — and, where it is neither a letter nor white space nor ASCII, on its own between two
//!    numbers: an illegal character is a syntax error, never skipped.
//! A block is first tried as a whole (one comment / one literal / one identifier holding all its characters); the
//! characters are tried one by one as well, so that a failure names the code point.

use crate::obs::{eval_observed, ObsCfg, Outcome};
use crate::sup::Stats;
use crate::val::{same_val, ErrKind, Val};

pub const BLOCKS: u64 = 0x110000 / 256;

fn chars_of(block: u64) -> Vec<char> {
    (block as u32 * 256..block as u32 * 256 + 256).filter_map(char::from_u32).collect()
}

/// the lexer's white space (Pattern_White_Space)
pub fn is_ws(c: char) -> bool {
    matches!(c, '\t' | '\n' | '\u{b}' | '\u{c}' | '\r' | ' ' | '\u{85}' | '\u{200e}' | '\u{200f}' | '\u{2028}' | '\u{2029}')
}

fn expect_value(fam: &str, what: &str, text: &str, want: &Val, c: Option<char>, st: &mut Stats) -> bool {
    let o = eval_observed(text, &ObsCfg::plain(100_000));
    st.evaluations += 1;
    let ok = matches!(&o.outcome, Outcome::Value(v) if same_val(v, want));
    if !ok {
        let cp = c.map(|c| format!("U+{:04X}", c as u32)).unwrap_or_else(|| "a whole block".to_string());
        st.violation(&format!("{}:{}:{}", fam, what, o.outcome.class()), format!("{} {}: expected {}, got {}", cp, what, crate::obs::clip(&crate::val::render_val(want), 120), crate::obs::clip(&o.outcome.render(), 200)), text);
    }
    ok
}

pub fn comments(block: u64, fam: &str, st: &mut Stats) {
    let cs: Vec<char> = chars_of(block).into_iter().filter(|c| *c != '\n').collect();
    if cs.is_empty() {
        return;
    }
    let all: String = cs.iter().collect();
    expect_value(fam, "in-a-comment", &format!("41 // x{}y\n + 1", all), &Val::Int(42), None, st);
    for c in cs {
        st.count("code-points:in-a-comment");
        if !expect_value(fam, "in-a-comment", &format!("stel a = 41 //{}\n// {} stel a = 0\n; a + 1 // {}", c, c, c), &Val::Int(42), Some(c), st) {
            return;
        }
    }
}

pub fn white_space(fam: &str, st: &mut Stats) {
    for c in (0..0x3000u32).filter_map(char::from_u32).filter(|c| is_ws(*c)) {
        st.count("code-points:as-white-space");
        expect_value(fam, "as-white-space", &format!("{c}stel{c}a{c}={c}40{c};{c}a{c}+{c}2{c}", c = c), &Val::Int(42), Some(c), st);
    }
}

pub fn strings(block: u64, fam: &str, st: &mut Stats) {
    let cs: Vec<char> = chars_of(block).into_iter().filter(|c| *c != '"' && *c != '\\').collect();
    if cs.is_empty() {
        return;
    }
    let all: String = cs.iter().collect();
    expect_value(fam, "in-a-string", &format!("stel s = \"{}\"; [lengte(s), s]", all), &Val::Array(vec![Val::Int(cs.len() as i64), Val::Str(all.clone())]), None, st);
    for c in cs {
        st.count("code-points:in-a-string");
        let want = Val::Array(vec![Val::Int(3), Val::Str(c.to_string()), Val::Str(format!("a{}b", c)), Val::Bool(true)]);
        if !expect_value(fam, "in-a-string", &format!("stel s = \"a{c}b\"; [lengte(s), s[1], s, \"{c}\" == s[-2]]", c = c), &want, Some(c), st) {
            return;
        }
    }
}

pub fn identifiers(block: u64, fam: &str, st: &mut Stats) {
    let cs = chars_of(block);
    let letters: String = cs.iter().filter(|c| c.is_alphabetic() && !c.is_ascii()).collect();
    if !letters.is_empty() {
        expect_value(fam, "identifier-of-a-block", &format!("stel {n} = 5; stel {n}2 = 6; [{n}, {n}2]", n = letters), &Val::Array(vec![Val::Int(5), Val::Int(6)]), None, st);
    }
    for c in cs {
        if c.is_ascii() {
            continue;
        }
        if c.is_alphabetic() {
            st.count("code-points:identifier-start");
            // (next to a name that differs only in that character)
            let other = if c == 'é' { 'è' } else { 'é' };
            let want = Val::Array(vec![Val::Int(5), Val::Int(6), Val::Int(7)]);
            if !expect_value(fam, "identifier-start", &format!("stel {c}x = 5; stel {o}x = 6; stel x{c} = 7; [{c}x, {o}x, x{c}]", c = c, o = other), &want, Some(c), st) {
                return;
            }
        } else if c.is_alphanumeric() {
            st.count("code-points:identifier-continue");
            if !expect_value(fam, "identifier-continue", &format!("stel x{c} = 5; stel x = 6; [x{c}, x]", c = c), &Val::Array(vec![Val::Int(5), Val::Int(6)]), Some(c), st) {
                return;
            }
        }
        if !c.is_alphabetic() && !is_ws(c) {
            // not a letter, not white space, not ASCII: no token starts with it
            st.count("code-points:illegal");
            for text in [format!("1 {} 2", c), format!("1; {}", c), format!("{}1", c)] {
                let o = eval_observed(&text, &ObsCfg::plain(100_000));
                st.evaluations += 1;
                if !matches!(o.outcome, Outcome::Error(ErrKind::Syntax, _)) {
                    st.violation(&format!("{}:illegal-character:{}", fam, o.outcome.class()), format!("U+{:04X} between / after / before numbers: expected a syntax error, got {}", c as u32, o.outcome.render()), &text);
                    return;
                }
            }
        }
    }
}
