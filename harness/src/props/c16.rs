//! C16 — evaluation is a pure function of the program text.
//! One batch of programs is evaluated in four contexts which must agree item by item:
//! (a) a fresh process per item, (b) random orders / repeated in one process with failing
//! evaluations in between, (c) 16 threads in one process, (d) the debug-assertion build.

use super::Families;
use crate::gen::{random_program, PROFILES};
use crate::obs::{eval_observed, ObsCfg};
use crate::print::to_text;
use crate::rng::{hash_str, Rng};
use crate::sup::{Check, Ctx, Flavour, Stats, Summary, Tier};
use serde_json::json;
use std::io::Write;
use std::process::{Command, Stdio};
use std::sync::{Arc, Mutex};

pub struct C16 {
    batch: Option<Vec<String>>,
}

const INTERLOPERS: [&str; 6] = [
    "stel = 5",                                  // parse error
    "print(\"x\"); onbekend",                   // compile error
    "stel a = [1.5, \"s\"]; a[9]",              // run-time error with live heap objects
    "zolang ja { stel t = [1.5] }",             // cut by the budget
    "functie f(n) { als n == 0 { 0 } anders { f(n - 1) } } f(50)",
    "stel s = \"abc\"; s[0] = \"x\"; [s, \"abc\"]",
];

pub fn cfg() -> ObsCfg {
    // plain evaluation: no probes, no shadow heap — the state under test is the interpreter's own
    // (interpreted or under ThreadSanitizer: a smaller budget; the contexts compared there all run in that flavour)
    ObsCfg::plain(if matches!(Flavour::from_env(), Flavour::Miri) { 20_000 } else { 400_000 })
}

/// Programs that sit just below, at and just above the interpreter's own limits (nesting depth of the front end,
/// operand sizes, the 16-bit stack index, the integer range): where a limit is must not depend on the build
/// profile, the thread or the history either.
pub fn limit_probes() -> Vec<String> {
    let mut v = vec![];
    for d in [60usize, 100, 126, 127, 128, 129, 130, 200, 254, 255, 256, 257, 258, 300, 520] {
        v.push(format!("{}1{}", "(".repeat(d), ")".repeat(d)));
        v.push(format!("{}1{}", "[".repeat(d), "]".repeat(d)));
        v.push(format!("{}1{}", "{".repeat(d), "}".repeat(d)));
        v.push(format!("{}1", "-".repeat(d)));
        v.push(format!("{}ja", "!".repeat(d)));
        v.push(format!("{}1{}", "als ja { ".repeat(d), " }".repeat(d)));
        v.push(format!("{}1{}", "functie() { ".repeat(d), " }".repeat(d)));
        v.push(format!("stel a = [0]; a{} = 1; a", "[0]".repeat(1) + &format!("; a[{}0{}]", "(".repeat(d), ")".repeat(d))));
        // operator chains: d operators, left- and right-nested
        v.push(format!("1{}", " + 1".repeat(d)));
        v.push(format!("{}1{}", "1 + (".repeat(d), ")".repeat(d)));
        v.push(format!("ja{}", " && ja".repeat(d)));
        v.push(format!("stel a = 0; a{}", " = a".repeat(d.min(200))));
        // else-if chains
        v.push(format!("stel c = {}; als c == 0 {{ 0 }}{} anders {{ -1 }}", d, (1..=d).map(|k| format!(" anders als c == {} {{ {} }}", k, k)).collect::<String>()));
    }
    // recursion against the 16-bit stack index, with frames of different sizes
    for (locals, depths) in [(0usize, vec![1000usize, 5000, 20000]), (8, vec![1000, 5000, 5950, 5957, 5958, 5959, 6000, 6500]), (40, vec![500, 1400, 1500, 1560, 1600])] {
        let decls: String = (0..locals).map(|k| format!("stel v{} = {}; ", k, k)).collect();
        for d in depths {
            v.push(format!("functie f(n) {{ {}als n == 0 {{ 0 }} anders {{ 1 + f(n - 1) }} }}; f({})", decls, d));
        }
    }
    // code size: calls made from addresses above 65 535
    v.push(format!("stel x = 0; functie tel() {{ x = x + 1; x }}; {} [tel(), tel(), x]", "x = x + 1; ".repeat(9000)));
    // operand sizes: arguments, array elements, constants, locals
    for n in [254usize, 255, 256, 257, 300] {
        let params: String = (0..n).map(|k| format!("p{}, ", k)).collect();
        let args: String = (0..n).map(|k| format!("{}, ", k)).collect();
        v.push(format!("functie f({}) {{ p0 }}; f({})", params, args));
        v.push(format!("lengte([{}])", args));
        v.push(format!("functie f() {{ {} 1 }}; f()", (0..n).map(|k| format!("stel l{} = {}.5; ", k, k)).collect::<String>()));
    }
    // the integer range, in every operator that can leave it
    for t in [
        "1152921504606846975 + 1", "1152921504606846974 + 1", "-1152921504606846975 - 1", "-1152921504606846975 - 2", "1073741824 * 1073741824", "1073741824 * 1073741823",
        "-1073741824 * 1073741824", "(-1152921504606846975 - 1) / -1", "(-1152921504606846975 - 1) % -1", "-(-1152921504606846975 - 1)", "(-1152921504606846975 - 1) * -1",
        "1152921504606846975 * 1152921504606846975", "3037000500 * 3037000500", "4611686018427387904", "1152921504606846976", "-1152921504606846976", "int(1152921504606846975.0)",
        "int(\"1152921504606846976\")", "stel a = 1; stel i = 0; zolang i < 70 { a = a * 2; i += 1 }; a", "stel a = [1, 2, 3]; a[1152921504606846975]", "stel a = [1, 2, 3]; a[-1152921504606846975]",
        "\"abc\"[-1152921504606846975 - 1]", "stel a = [1]; a[-1152921504606846975 - 1] = 2",
    ] {
        v.push(t.to_string());
    }
    // the same range ends through the specialised instructions (a local variable against a literal, either side) and
    // through two locals
    let (max, min) = ("1152921504606846975", "(-1152921504606846975 - 1)");
    for (arg, body) in [
        (max, "n + 1"), (max, "1 + n"), (max, "n + 0"), (max, "n - -1"), (min, "n - 1"), (min, "n + -1"), (min, "0 - n"), (min, "-1 - n"), (max, "n * 2"), (max, "2 * n"), (min, "n * -1"), (min, "-1 * n"),
        (min, "n / -1"), (min, "n % -1"), (min, "-n"), (max, "n * n"), (min, "n - n - n"), (max, "n + n"), (min, "n + n"), (max, "n - 1 + 2"), (min, "1 / n"), (max, "n / 0"), (max, "n % 0"), (max, "n > n - 1"), (min, "n < n + 1"),
    ] {
        v.push(format!("functie f(n) {{ {} }}; f({})", body, arg));
        v.push(format!("functie f(n, m) {{ stel k = 1; {} }}; f({}, 1)", body.replace("1", "k"), arg));
    }
    v
}

/// canonical rendering of an outcome: value / error kind / budget, plus the captured output
pub fn rendering(text: &str) -> String {
    let o = eval_observed(text, &cfg());
    let head = match &o.outcome {
        crate::obs::Outcome::Error(k, _) => format!("Err({})", k.name()),
        other => other.render(),
    };
    format!("{} | {:?}", head, o.output)
}

impl C16 {
    pub fn new() -> Self {
        C16 { batch: None }
    }

    fn batch_size(ctx: &Ctx) -> u64 {
        match (ctx.flavour, ctx.tier) {
            (Flavour::Rel, Tier::Quick) => 300,
            (Flavour::Rel, Tier::Thorough) => 5_000,
            (Flavour::Miri, _) => 10,
            _ => 60,
        }
    }

    fn batch(&mut self, ctx: &Ctx) -> &Vec<String> {
        if self.batch.is_none() {
            let n = Self::batch_size(ctx);
            let mut v = vec![];
            for i in 0..n {
                let mut r = Rng::for_case(ctx.seed, 1600, i);
                let profile = PROFILES[(i % 6) as usize];
                let (p, _) = random_program(&mut r, profile);
                v.push(to_text(&p));
            }
            // some directed items: the examples and programs cut by the budget
            for f in ["fib-recursive.nl", "voorbeeld.nl", "selectie-sorteer.nl"] {
                if let Ok(s) = std::fs::read_to_string(format!("/repo/examples/{}", f)) {
                    v.push(s);
                }
            }
            // polluters and their probes: a program that modifies in place every string / array it can get hold of
            // (results of builtins, literals), and the plain program whose rendering would change if any of those
            // objects were shared between evaluations
            for src in ["type(1)", "type(1.5)", "type(ja)", "type(\"a\")", "type([1])", "type(null)", "type(functie() { 1 })", "string(12)", "string(ja)", "string(1.5)", "string(null)", "\"abc\"", "\"abc\" + \"def\"", "string(\"abc\")"] {
                v.push(format!("stel t = {}; t[0] = \"#\"; t", src));
                v.push(src.to_string());
                v.push(format!("stel t = {}; t += \"!\"; print(t); t[1] = \"%\"; [t, {}]", src, src));
            }
            if matches!(ctx.flavour, Flavour::Rel | Flavour::Dbg) {
                v.extend(limit_probes());
            }
            // values that compare equal but are not the same, written one after the other (a memo keyed on == would mix
            // them up across evaluations)
            for t in ["print(0.0)", "print(-0.0)", "print([0.0, -0.0])", "print([-0.0, 0.0])", "string(-0.0)", "string(0.0)", "print(1.0); print(1)", "print(1); print(1.0)", "print(\"1\"); print(1)", "print(-0.0); -0.0", "print(0.0); 0.0", "[-0.0]", "[0.0]", "print(ja); print(1)", "print(\"\"); print(null_())"] {
                v.push(t.replace("null_()", "(als nee { 1 })"));
            }
            // the directed programs of the other checks (small ones that end by themselves): whatever they were written to
            // provoke must come out the same in every context as well
            if matches!(ctx.flavour, Flavour::Rel | Flavour::Dbg) {
                let mut extra: Vec<String> = vec![];
                extra.extend(super::c01::corpus().into_iter().map(|c| c.text));
                extra.extend(super::c02::directed().into_iter().map(|d| d.1));
                extra.extend(super::c05::directed().into_iter().map(|d| d.1));
                extra.extend(super::flow::c12_directed().into_iter().map(|d| d.1));
                extra.extend(super::flow::c11_directed().into_iter().map(|d| d.1.to_string()));
                extra.extend(super::c13::directed().into_iter().map(|d| d.1.to_string()));
                extra.extend(super::heap::directed().into_iter().map(|d| d.1.to_string()));
                extra.extend(super::meta::c09_directed().into_iter().map(|d| d.1.to_string()));
                extra.extend(super::meta::c10_directed().into_iter().map(|d| d.1.to_string()));
                for t in extra {
                    // not the big ones, not the ones that only a budget ends (the budget is per context the same, but
                    // millions of instructions per item and context are not worth it)
                    if t.len() <= 2000 && !t.contains("zolang ja") && !t.contains("1000000") && !t.contains("100000") && !t.contains("n + 1)") && !t.contains("70000") {
                        v.push(t);
                    }
                }
            }
            // numerals written with more digits than a float or an integer holds
            for t in ["3.141592653589793238462643", "2.71828182845904523536 * 2.0", "0.1000000000000000055511151231257827 + 0.2", "123456789012345678901234567890.5", "0.000000000000000000000000000001234567890123456789", "18446744073709551616.0", "18446744073709551615.5", "99999999999999999999", "1152921504606846976", "000000000000000000000000000001", "1.50000000000000000000000000000", "0.30000000000000004440892098500626"] {
                v.push(t.to_string());
            }
            // formats at the edge of what the placeholder scanner reads
            for t in ["print(\"{\")", "print(\"a {} {\", 1)", "print(\"1234567{\")", "print(\"12345678{\", 2)", "print(\"}\")", "print(\"{}{\", \"{}\")", "print(\"\")", "print(\"é{\")"] {
                v.push(t.to_string());
            }
            // the same object reached along two paths inside one printed / converted value
            v.push("stel rij = [1, 2]; print([rij, rij, [3, 4]]); print(\"{} {}\", rij, rij); string([rij, [rij], rij])".to_string());
            v.push("functie paar(x) { [x, x] }; stel p = paar(paar([\"a\"])); print(p); [string(p), lengte(string(p))]".to_string());
            v.push("stel s = \"tekst\"; stel l = [s, s, s]; l[0][0] = \"T\"; print(l); l".to_string());
            v.push("stel a = [1, 2, [3]]; a[0] = 9; a[2][0] = a; a[1]".to_string());
            v.push("[1, 2, [3]]".to_string());
            v.push("stel i = 0; zolang ja { i += 1 }".to_string());
            v.push("1152921504606846975 + 1".to_string());
            self.batch = Some(v);
        }
        self.batch.as_ref().unwrap()
    }

    fn fams(&mut self, ctx: &Ctx) -> Families {
        let n = self.batch(ctx).len() as u64;
        let orders = ctx.tier.pick(5, 10);
        let thread_rounds = ctx.tier.pick(4, 16);
        if ctx.flavour == Flavour::Miri {
            // no process spawning under Miri: only the in-process contexts
            return Families::new(vec![("fresh-process", 0), ("shuffled-in-process", 1), ("threads", 2), ("debug-build", 0), ("heavy-neighbours", 0)]);
        }
        // the batch again while the process holds millions of live objects of other evaluations (results the caller kept;
        // evaluations in progress on other threads)
        let heavy = if ctx.flavour == Flavour::Rel { ctx.tier.pick(2, 4) } else { 0 };
        Families::new(vec![("fresh-process", n), ("shuffled-in-process", orders), ("threads", thread_rounds), ("debug-build", n), ("heavy-neighbours", heavy)])
    }

    fn subprocess(bin: &str, text: &str) -> Option<String> {
        let mut child = Command::new(bin).arg("eval-one").stdin(Stdio::piped()).stdout(Stdio::piped()).stderr(Stdio::null()).spawn().ok()?;
        child.stdin.take()?.write_all(text.as_bytes()).ok()?;
        let out = child.wait_with_output().ok()?;
        if !out.status.success() {
            return Some(format!("<process ended with {:?}>", out.status.code()));
        }
        Some(String::from_utf8_lossy(&out.stdout).trim_end_matches('\n').to_string())
    }
}

impl Check for C16 {
    fn id(&self) -> &'static str {
        "C16"
    }
    fn total_cases(&self, ctx: &Ctx) -> u64 {
        let mut me = C16::new();
        me.fams(ctx).total()
    }
    fn chunk_size(&self, _ctx: &Ctx) -> u64 {
        8
    }
    fn describe_case(&mut self, ctx: &Ctx, idx: u64) -> String {
        let (_, name, i) = self.fams(ctx).locate(idx);
        match name {
            "fresh-process" | "debug-build" => self.batch(ctx)[i as usize].clone(),
            _ => format!("{} #{}", name, i),
        }
    }

    fn run_case(&mut self, ctx: &Ctx, idx: u64, st: &mut Stats) {
        let (f, name, i) = self.fams(ctx).locate(idx);
        let mut r = Rng::for_case(ctx.seed, 1610 + f as u64, i);
        let batch = self.batch(ctx).clone();
        st.count(&format!("cases:{}", name));
        match name {
            "fresh-process" | "debug-build" => {
                let text = &batch[i as usize];
                let bin = if name == "fresh-process" { Flavour::Rel.binary() } else { Flavour::Dbg.binary() };
                if !std::path::Path::new(&bin).exists() {
                    st.inconclusive(format!("{} is missing", bin));
                    return;
                }
                // this worker has a history (earlier cases of this and other contexts): that is the point
                let here = rendering(text);
                st.evaluations += 2;
                match Self::subprocess(&bin, text) {
                    Some(there) => {
                        st.distinct_hash(hash_str(text));
                        st.count(&format!("evaluations:{}", name));
                        if i % 97 == 0 {
                            st.sample(&format!("[{}] {} => {}", name, crate::obs::clip(text, 200), crate::obs::clip(&here, 120)));
                        }
                        if there != here {
                            st.violation(
                                &format!("{}:differs", name),
                                format!("in this (long-lived, release) process: {}\nin a {}: {}", crate::obs::clip(&here, 400), if name == "fresh-process" { "fresh process" } else { "process of the debug build" }, crate::obs::clip(&there, 400)),
                                text,
                            );
                        }
                    }
                    None => st.inconclusive(format!("could not run {}", bin)),
                }
            }
            "heavy-neighbours" => {
                use nederlang::verif::{self, ShadowMode};
                let expected: Vec<String> = batch.iter().map(|t| rendering(t)).collect();
                // thorough: four times the objects
                let per = if i >= 2 { 2_400_000u64 } else { 600_000 };
                let build = format!("stel a = [0.5]; stel i = 0; zolang i < {} {{ a = [a, float(i)]; i += 1 }}; ", per);
                let mut differs: Option<(usize, String)> = None;
                if i % 2 == 0 {
                    // results of earlier evaluations that the caller still holds: 5 x 2 objects per iteration
                    verif::reset_all();
                    verif::set_shadow(ShadowMode::Off);
                    // (made through the library's own constructors and kept by a collector of their own — another interpreter
                    //  in the same process; handing millions of objects over as the *result* of a program costs quadratic time)
                    let mut other = verif::GC::new();
                    let held: Vec<nederlang::object::Object> = (0..per * 10).map(|k| nederlang::object::Object::float(k as f64 + 0.25, &mut other)).collect();
                    st.add("heavy-neighbours:live-objects-held-by-another-interpreter", held.len() as u64);
                    for (k, t) in batch.iter().enumerate() {
                        let got = rendering(t);
                        st.evaluations += 1;
                        st.count("evaluations:next-to-held-results");
                        if got != expected[k] {
                            differs = Some((k, got));
                            break;
                        }
                    }
                    verif::reset_all();
                    verif::set_shadow(ShadowMode::Off);
                    drop(held);
                    drop(other);
                } else {
                    // evaluations in progress on four other threads, each holding its objects while it counts
                    let stop = Arc::new(std::sync::atomic::AtomicBool::new(false));
                    let ready = Arc::new(std::sync::atomic::AtomicUsize::new(0));
                    let mut hs = vec![];
                    for _ in 0..4 {
                        let (stop, ready, build) = (stop.clone(), ready.clone(), build.clone());
                        hs.push(std::thread::spawn(move || {
                            let mut rounds = 0u64;
                            while !stop.load(std::sync::atomic::Ordering::Relaxed) && rounds < 200 {
                                // (builds its objects, then counts to two million while it holds them)
                                let _ = nederlang::eval(&format!("{}stel j = 0; zolang j < 2000000 {{ j += 1 }}; lengte(a)", build));
                                ready.fetch_add(1, std::sync::atomic::Ordering::Relaxed);
                                rounds += 1;
                            }
                            rounds
                        }));
                    }
                    // several passes over the batch while the neighbours run
                    let t0 = std::time::Instant::now();
                    let mut passes = 0;
                    'outer: while passes < 3 || (ready.load(std::sync::atomic::Ordering::Relaxed) < 8 && t0.elapsed().as_secs() < 60) {
                        for (k, t) in batch.iter().enumerate() {
                            let got = rendering(t);
                            st.evaluations += 1;
                            st.count("evaluations:next-to-running-neighbours");
                            if got != expected[k] {
                                differs = Some((k, got));
                                break 'outer;
                            }
                        }
                        passes += 1;
                    }
                    stop.store(true, std::sync::atomic::Ordering::Relaxed);
                    let mut total = 0;
                    for h in hs {
                        total += h.join().unwrap_or(0);
                    }
                    st.add("heavy-neighbours:neighbour-evaluations-completed", total);
                    st.add("heavy-neighbours:objects-per-neighbour", per * 2);
                }
                if let Some((k, got)) = differs {
                    st.violation("heavy-neighbours:differs", format!("alone: {}
while the process held millions of live objects of other evaluations: {}", crate::obs::clip(&expected[k], 400), crate::obs::clip(&got, 400)), &batch[k]);
                }
            }
            "shuffled-in-process" => {
                // every item 3x, in a random order, failing evaluations in between
                let mut order: Vec<usize> = (0..batch.len()).flat_map(|k| [k, k, k]).collect();
                r.shuffle(&mut order);
                let mut first: Vec<Option<String>> = vec![None; batch.len()];
                let mut prev: Option<usize> = None;
                for k in order {
                    if r.chance(1, 4) {
                        let _ = rendering(INTERLOPERS[r.below(INTERLOPERS.len() as u64) as usize]);
                        st.count("interloper-evaluations");
                    }
                    let got = rendering(&batch[k]);
                    st.evaluations += 1;
                    st.count("evaluations:shuffled");
                    if let Some(p) = prev {
                        st.distinct_hash(hash_str(&format!("{}>{}", p, k)));
                    }
                    prev = Some(k);
                    match &first[k] {
                        None => first[k] = Some(got),
                        Some(f0) => {
                            if *f0 != got {
                                st.violation("shuffled:differs", format!("first evaluation in this process: {}\na later one: {}", crate::obs::clip(f0, 400), crate::obs::clip(&got, 400)), &batch[k]);
                                return;
                            }
                        }
                    }
                }
            }
            _ => {
                // 16 threads, each repeatedly taking a seeded random next item
                let expected: Vec<String> = batch.iter().map(|t| rendering(t)).collect();
                let batch = Arc::new(batch);
                let expected = Arc::new(expected);
                let bad: Arc<Mutex<Vec<(usize, String)>>> = Arc::new(Mutex::new(vec![]));
                let pairs: Arc<Mutex<std::collections::HashSet<(usize, usize)>>> = Arc::new(Mutex::new(Default::default()));
                let per_thread = (batch.len() * 4 / 16).max(8);
                let mut hs = vec![];
                let n_threads = match (ctx.flavour, std::env::var("NLV_THREADS").ok().and_then(|s| s.parse::<usize>().ok())) {
                    (_, Some(n)) => n,
                    (Flavour::Miri, None) => 4usize,
                    _ => 16,
                };
                for t in 0..n_threads {
                    let (batch, expected, bad, pairs) = (batch.clone(), expected.clone(), bad.clone(), pairs.clone());
                    let seed = r.next();
                    hs.push(std::thread::spawn(move || {
                        let mut r = Rng::new(seed);
                        let mut seen = vec![];
                        for _ in 0..per_thread {
                            let k = r.below(batch.len() as u64) as usize;
                            // random delays between evaluations (there is no shared critical section inside one)
                            match r.below(4) {
                                0 => std::thread::yield_now(),
                                1 => {
                                    for _ in 0..r.below(2000) {
                                        std::hint::spin_loop();
                                    }
                                }
                                _ => {}
                            }
                            let got = rendering(&batch[k]);
                            seen.push((k, t));
                            if got != expected[k] {
                                bad.lock().unwrap().push((k, got));
                                break;
                            }
                        }
                        pairs.lock().unwrap().extend(seen);
                    }));
                }
                for h in hs {
                    if h.join().is_err() {
                        st.violation("threads:panic", "a thread evaluating programs panicked".to_string(), "16 threads");
                    }
                }
                let pairs = pairs.lock().unwrap();
                st.evaluations += pairs.len() as u64;
                st.add("evaluations:threads", (per_thread * 16) as u64);
                st.add("distinct-item-thread-pairs", pairs.len() as u64);
                for (k, t) in pairs.iter() {
                    st.distinct_hash(hash_str(&format!("t{}:{}", t, k)));
                }
                let first_bad = bad.lock().unwrap().first().cloned();
                if let Some((k, got)) = first_bad {
                    st.violation("threads:differs", format!("on the main thread: {}\non a worker thread running next to 15 others: {}", crate::obs::clip(&expected[k], 400), crate::obs::clip(&got, 400)), &batch[k]);
                }
            }
        }
    }

    fn summarize(&self, ctx: &Ctx, merged: &Stats) -> Summary {
        let mut me = C16::new();
        let fams = me.fams(ctx);
        let mut inconclusive = vec![];
        for k in ["evaluations:fresh-process", "evaluations:debug-build", "evaluations:shuffled", "evaluations:threads"] {
            if merged.counters.get(k).copied().unwrap_or(0) == 0 {
                inconclusive.push(format!("context not exercised: {}", k));
            }
        }
        Summary {
            rule: "one batch of generated programs (all profiles, ~15 % erroring, some cut by the budget, three of the examples) is evaluated (a) once each in a fresh process, (b) three times each in seeded random orders inside one long-lived process with failing evaluations (parse / compile / run-time error, budget cut) in between, (c) from 16 threads that each take seeded random next items with random yields / spins between evaluations, (d) by the debug-assertion + overflow-check build; the rendering (value or error kind, captured output) must agree item by item. distinct = distinct items, predecessor->item pairs and (item, thread) pairs".to_string(),
            exhaustive: None,
            extra: json!({
                "batch_size": fams.fams[0].1,
                "families": fams.fams.iter().map(|f| json!({"name": f.0, "cases": f.1})).collect::<Vec<_>>(),
            }),
            assumptions: vec!["only the two Cargo profiles are compared (release without, dev with debug assertions and overflow checks)".to_string(), "hooks keep thread-local state only, so the monitor does not synchronise the threads it observes".to_string()],
            inconclusive,
        }
    }

    fn post(&mut self, ctx: &Ctx, merged: &mut Stats) {
        if ctx.flavour == Flavour::Rel {
            // the in-process contexts (history, threads) natively under valgrind memcheck, in both tiers
            crate::sup::run_valgrind_inproc("C16", ctx, 3, 3, merged);
        }
        if ctx.flavour == Flavour::Rel && ctx.tier == Tier::Thorough {
            // Miri's data-race detector over the threads context (and the hand-written Send/Sync of Object)
            let mctx = Ctx { seed: ctx.seed, tier: ctx.tier, flavour: Flavour::Miri };
            let mut me = C16::new();
            let n = me.fams(&mctx).total();
            crate::sup::run_miri("C16", ctx, 0, n, 3, merged);
            // ThreadSanitizer build, if the check script could build it
            crate::sup::run_tsan("C16", ctx, merged);
        }
    }
}
