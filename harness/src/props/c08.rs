//! C08 — tokenisation and literals are faithful to the text.
//! (1) token sequences built by the generator vs. the real token stream; (2) token conservation on
//! every text that parses; (3) string literal decoding, complete over a small alphabet.

use super::Families;
use crate::ast::{parse_real, Expr, Stmt};
use crate::gen::{random_program, PROFILES};
use crate::mutate;
use crate::print::{to_text, WHITESPACE};
use crate::rng::Rng;
use crate::sup::{Check, Ctx, Stats, Summary};
use nederlang::verif;
use serde_json::json;

pub struct C08 {}

#[derive(Clone, Debug, PartialEq)]
struct Tok {
    text: String,
    kind: &'static str,
    /// payload carried by the token (identifier / number spelling, raw string body), "" otherwise
    payload: String,
}

const KEYWORDS: [(&str, &str); 10] = [
    ("als", "If"),
    ("anders", "Else"),
    ("antwoord", "Return"),
    ("functie", "Func"),
    ("zolang", "While"),
    ("stel", "Declare"),
    ("ja", "True"),
    ("nee", "False"),
    ("volgende", "Continue"),
    ("stop", "Break"),
];
const OPS2: [(&str, &str); 6] = [("<=", "Lte"), (">=", "Gte"), ("==", "Eq"), ("!=", "Neq"), ("&&", "And"), ("||", "Or")];
const OPS1: [(&str, &str); 19] = [
    ("=", "Assign"),
    (";", "Semi"),
    (",", "Comma"),
    (".", "Dot"),
    ("(", "OpenParen"),
    (")", "CloseParen"),
    ("{", "OpenBrace"),
    ("}", "CloseBrace"),
    ("[", "OpenBracket"),
    ("]", "CloseBracket"),
    ("!", "Bang"),
    ("<", "Lt"),
    (">", "Gt"),
    ("-", "Minus"),
    ("+", "Plus"),
    ("*", "Star"),
    ("/", "Slash"),
    ("^", "Caret"),
    ("%", "Percent"),
];
const IDENTS: [&str; 22] = [
    "a", "abc", "alsof", "ja_", "stelling", "_", "x1", "_9z", "één", "αβγ", "変数", "nee2", "functies", "stopje", "Als", "JA", "anders_", "zolangs", "antwoorden", "volgende1", "ß", "k_2_z",
];
/// every keyword with something attached in front or behind (ASCII and non-ASCII letters, digits, underscore, another
/// keyword): still ONE identifier, spelled exactly so
const AFFIXES: [&str; 12] = ["a", "_", "1", "é", "ë", "ß", "α", "変", "E", "é1", "_é", "ja"];

fn keyword_identifier(i: u64) -> String {
    let n = (KEYWORDS.len() * AFFIXES.len()) as u64;
    let k = KEYWORDS[((i % n) as usize) / AFFIXES.len()].0;
    let a = AFFIXES[((i % n) as usize) % AFFIXES.len()];
    match (i / n) % 3 {
        0 => format!("{}{}", k, a),
        // a digit cannot start an identifier
        1 if !a.starts_with('1') => format!("{}{}", a, k),
        _ => format!("{}{}{}", k, a, k),
    }
}

const INTS: [&str; 6] = ["0", "42", "007", "1152921504606846975", "9", "10"];
const FLOATS: [&str; 5] = ["1.5", "0.25", "10.", "3.1415", "0.0"];
// the letters n and t matter: a backslash in front of them is an escape, an escaped backslash in front of them is not
const STR_ALPHABET: [char; 8] = ['n', 't', '"', '\\', '\n', '\t', 'é', '💖'];

fn encode_string(content: &str, variant: &mut u64) -> String {
    // newline / tab: raw or escaped, chosen by the bits of `variant`
    let mut o = String::new();
    for c in content.chars() {
        match c {
            '"' => o.push_str("\\\""),
            '\\' => o.push_str("\\\\"),
            '\n' => {
                if *variant & 1 == 1 {
                    o.push_str("\\n")
                } else {
                    o.push('\n')
                }
                *variant >>= 1;
            }
            '\t' => {
                if *variant & 1 == 1 {
                    o.push_str("\\t")
                } else {
                    o.push('\t')
                }
                *variant >>= 1;
            }
            c => o.push(c),
        }
    }
    o
}

/// the documented decoding of the body of a literal
fn decode_string(raw: &str) -> String {
    let mut o = String::new();
    let mut it = raw.chars();
    while let Some(c) = it.next() {
        if c != '\\' {
            o.push(c);
            continue;
        }
        match it.next() {
            Some('"') => o.push('"'),
            Some('\\') => o.push('\\'),
            Some('n') => o.push('\n'),
            Some('t') => o.push('\t'),
            Some(x) => {
                o.push('\\');
                o.push(x)
            }
            None => o.push('\\'),
        }
    }
    o
}

fn random_token(r: &mut Rng) -> Tok {
    match r.below(10) {
        0 | 1 => {
            let (t, k) = *r.pick(&KEYWORDS);
            Tok { text: t.to_string(), kind: k, payload: String::new() }
        }
        2 | 3 => {
            let t = if r.chance(1, 3) { keyword_identifier(r.below(360)) } else { r.pick(&IDENTS).to_string() };
            Tok { text: t.clone(), kind: "Identifier", payload: t }
        }
        4 => {
            let t = *r.pick(&INTS);
            Tok { text: t.to_string(), kind: "Int", payload: t.to_string() }
        }
        5 => {
            let t = *r.pick(&FLOATS);
            Tok { text: t.to_string(), kind: "Float", payload: t.to_string() }
        }
        6 => {
            let n = r.below(5);
            let content: String = (0..n).map(|_| *r.pick(&STR_ALPHABET)).collect();
            let mut v = r.next();
            let body = encode_string(&content, &mut v);
            Tok { text: format!("\"{}\"", body), kind: "String", payload: body }
        }
        7 => {
            let (t, k) = *r.pick(&OPS2);
            Tok { text: t.to_string(), kind: k, payload: String::new() }
        }
        _ => {
            let (t, k) = *r.pick(&OPS1);
            Tok { text: t.to_string(), kind: k, payload: String::new() }
        }
    }
}

fn wordy(c: char) -> bool {
    c.is_alphanumeric() || c == '_'
}

/// maximal-munch model: would the two tokens read differently when written next to each other?
fn fuses(a: &Tok, b: &Tok) -> bool {
    let (p, n) = (a.text.chars().last().unwrap(), b.text.chars().next().unwrap());
    let a_word = matches!(a.kind, "Identifier" | "Int" | "Float") || KEYWORDS.iter().any(|k| k.1 == a.kind);
    let b_word = matches!(b.kind, "Identifier" | "Int" | "Float") || KEYWORDS.iter().any(|k| k.1 == b.kind);
    if a_word && b_word && (wordy(p) || p == '.') && wordy(n) {
        return true;
    }
    // 42 followed by . reads as the float `42.`
    if a.kind == "Int" && b.kind == "Dot" {
        return true;
    }
    if a.text.len() == 1 && matches!(p, '=' | '!' | '<' | '>') && n == '=' {
        return true;
    }
    if p == '/' && n == '/' {
        return true;
    }
    false
}

fn class_of(t: &Tok) -> &'static str {
    match t.kind {
        "Identifier" => "ident",
        "Int" => "int",
        "Float" => "float",
        "String" => "string",
        k if KEYWORDS.iter().any(|x| x.1 == k) => "keyword",
        k if OPS2.iter().any(|x| x.1 == k) => "op2",
        _ => "op1",
    }
}

/// content tokens of a text, normalised for the conservation check
fn content_tokens(text: &str) -> Vec<String> {
    let pairs = verif::token_pairs(text);
    let mut out: Vec<String> = vec![];
    for (kind, payload) in pairs {
        let t = match kind.as_str() {
            "Semi" | "Comma" | "OpenParen" | "CloseParen" | "OpenBrace" | "CloseBrace" => continue,
            "Identifier" => format!("id:{}", payload),
            "Int" => format!("int:{}", payload.trim_start_matches('0').to_string() + if payload.chars().all(|c| c == '0') { "0" } else { "" }),
            "Float" => match payload.parse::<f64>() {
                Ok(f) => format!("float:{:?}", f),
                Err(_) => format!("float?:{}", payload),
            },
            "String" => format!("str:{:?}", decode_string(&payload)),
            other => other.to_string(),
        };
        out.push(t);
    }
    // a op = e   ->   a = a op e
    let mut norm: Vec<String> = vec![];
    let mut i = 0;
    while i < out.len() {
        if i + 2 < out.len() && out[i].starts_with("id:") && matches!(out[i + 1].as_str(), "Plus" | "Minus" | "Star" | "Slash" | "Percent" | "Lt" | "Gt" | "Lte" | "Gte" | "Eq" | "Neq" | "And" | "Or") && out[i + 2] == "Assign" {
            // only a sugar form if the identifier starts an expression: good enough for a conservation check
            norm.push(out[i].clone());
            norm.push("Assign".to_string());
            norm.push(out[i].clone());
            norm.push(out[i + 1].clone());
            i += 3;
        } else {
            norm.push(out[i].clone());
            i += 1;
        }
    }
    norm
}

fn collect_strings(b: &[Stmt], out: &mut Vec<String>) {
    fn ex(e: &Expr, out: &mut Vec<String>) {
        match e {
            Expr::Str(s) => out.push(s.clone()),
            Expr::Infix { left, right, .. } => {
                ex(left, out);
                ex(right, out)
            }
            Expr::Prefix { right, .. } => ex(right, out),
            Expr::If { cond, cons, alt } => {
                ex(cond, out);
                collect_strings(cons, out);
                if let Some(a) = alt {
                    collect_strings(a, out)
                }
            }
            Expr::Function { body, .. } => collect_strings(body, out),
            Expr::Call { left, args } => {
                ex(left, out);
                for a in args {
                    ex(a, out)
                }
            }
            Expr::Assign { left, right } => {
                ex(left, out);
                ex(right, out)
            }
            Expr::Array(xs) => {
                for a in xs {
                    ex(a, out)
                }
            }
            Expr::Index { left, index } => {
                ex(left, out);
                ex(index, out)
            }
            Expr::While { cond, body } => {
                ex(cond, out);
                collect_strings(body, out)
            }
            _ => {}
        }
    }
    for s in b {
        match s {
            Stmt::Let(_, e) | Stmt::Return(e) | Stmt::Expr(e) => ex(e, out),
            Stmt::Block(b) => collect_strings(b, out),
            _ => {}
        }
    }
}

const DIRECTED_CONSERVATION: [&str; 14] = [
    "1 # 2",
    "\"abc",
    "&",
    "a & b",
    "stel x = 1 $ y",
    "1 @",
    "stel a = 1; a | a",
    "1 ~ 2; 3",
    "x = \"onaf",
    "1; `2`",
    "ja ? 1 : 2",
    "stel s = 'a'",
    "1 \\ 2",
    "3 № 4",
];

impl C08 {
    pub fn new() -> Self {
        C08 {}
    }
    fn fams(&self, ctx: &Ctx) -> Families {
        let t = ctx.tier;
        if ctx.flavour == crate::sup::Flavour::Miri {
            return Families::new(vec![
                ("string-decode", 1 + 8 + 64 + 512),
                ("token-sequences", 400),
                ("adjacent-pairs", 200),
                ("keyword-identifiers", 120),
                ("conservation-directed", DIRECTED_CONSERVATION.len() as u64),
                ("conservation-programs", 60),
                ("conservation-mutants", 200),
                ("code-point-sweep", 8),
            ]);
        }
        Families::new(vec![
            ("string-decode", 1 + 8 + 64 + 512 + 4096),
            ("token-sequences", t.pick(60_000, 3_000_000)),
            ("adjacent-pairs", 3000),
            ("keyword-identifiers", 360),
            ("file-bytes-through-the-binary", straddles().len() as u64 + t.pick(120, 3_000)),
            ("conservation-directed", DIRECTED_CONSERVATION.len() as u64),
            ("conservation-programs", t.pick(20_000, 500_000)),
            ("conservation-mutants", t.pick(60_000, 2_000_000)),
            // every Unicode scalar value in a string literal, in an identifier, or refused as illegal (props/unisweep.rs)
            ("code-point-sweep", super::unisweep::BLOCKS),
            // two files on the command line: whatever the binary makes of the second one, the last word of the first file
            // and the first word of the second stay two words
            ("two-files", (TWO_FILES.len() * 2) as u64),
        ])
    }

    fn check_sequence(&self, toks: &[Tok], seps: &[String], st: &mut Stats, fam: &str) {
        let mut text = String::new();
        for (i, t) in toks.iter().enumerate() {
            if i > 0 {
                text.push_str(&seps[i - 1]);
            }
            text.push_str(&t.text);
        }
        st.evaluations += 1;
        let got = verif::token_pairs(&text);
        let want: Vec<(String, String)> = toks.iter().map(|t| (t.kind.to_string(), t.payload.clone())).collect();
        if got != want {
            // find the first difference
            let k = got.iter().zip(want.iter()).position(|(a, b)| a != b).unwrap_or(got.len().min(want.len()));
            let g = got.get(k).map(|x| format!("{}({:?})", x.0, x.1)).unwrap_or("<end>".into());
            let w = want.get(k).map(|x| format!("{}({:?})", x.0, x.1)).unwrap_or("<end>".into());
            let wk = want.get(k).map(|x| x.0.clone()).unwrap_or_default();
            st.violation(&format!("{}:token-stream:{}", fam, wk), format!("token #{}: written {} but the lexer saw {} ({} tokens written, {} seen)", k, w, g, want.len(), got.len()), &text);
        }
    }

    fn conservation(&self, text: &str, st: &mut Stats, fam: &str) -> bool {
        st.evaluations += 1;
        match parse_real(text) {
            Ok(tree) => {
                st.count("conservation:parsed");
                let printed = to_text(&tree);
                let a = content_tokens(text);
                let b = content_tokens(&printed);
                if a != b {
                    let k = a.iter().zip(b.iter()).position(|(x, y)| x != y).unwrap_or(a.len().min(b.len()));
                    st.violation(
                        &format!("{}:tokens-dropped", fam),
                        format!("the text parses, but token #{} of the text ({:?}) is not in the tree (tree prints as {:?}; {} content tokens in the text, {} in the tree)", k, a.get(k), crate::obs::clip(&printed, 200), a.len(), b.len()),
                        text,
                    );
                }
                true
            }
            Err(_) => {
                st.count("conservation:rejected");
                false
            }
        }
    }
}

/// (offset, character, how many of its bytes lie in front of the offset, 0 = in a string / 1 = in an identifier / 2 = in a
/// comment)
fn straddles() -> &'static Vec<(usize, &'static str, usize, usize)> {
    static S: std::sync::OnceLock<Vec<(usize, &'static str, usize, usize)>> = std::sync::OnceLock::new();
    S.get_or_init(|| {
        let mut v = vec![];
        for b in [512usize, 1024, 2048, 4096, 8192, 16_384, 32_768, 65_536, 131_072, 196_608, 262_144, 524_288, 1_048_576] {
            for ch in ["é", "中", "💖"] {
                for shift in 1..ch.len() {
                    for place in 0..3 {
                        // (no emoji in identifiers: it is not a letter)
                        if place == 1 && ch == "💖" {
                            continue;
                        }
                        if place != 0 && b > 131_072 {
                            continue;
                        }
                        v.push((b, ch, shift, place));
                    }
                }
            }
        }
        v
    })
}

/// (end of the first file, start of the second): the last and the first word would fuse without a separator
const TWO_FILES: &[(&str, &str)] = &[
    ("stel x = 1", "2; x"),
    ("stel x = 1 // commentaar", "x = 2; x"),
    ("stel al = 9; stel a = 7; stel r = a", "l; r"),
    ("stel x = 1 <", "= 2; x"),
    ("stel x = ja &", "& nee; x"),
    ("stel x = 1; x =", "= 1"),
    ("stel s = \"open", "dicht\"; s"),
    ("stel x = 1.", "5; x"),
    ("stel zo = 1; zo", "lang = 2; zo"),
    ("stel x = 4 /", "/ 2; x"),
    ("stel x = 12", "34"),
    ("stel naam = 1; naam", "_twee"),
];

impl Check for C08 {
    fn id(&self) -> &'static str {
        "C08"
    }
    fn total_cases(&self, ctx: &Ctx) -> u64 {
        self.fams(ctx).total()
    }
    fn chunk_size(&self, _ctx: &Ctx) -> u64 {
        2000
    }
    fn chunk_timeout_s(&self, _ctx: &Ctx) -> u64 {
        60
    }
    fn case_timeout_s(&self, _ctx: &Ctx) -> u64 {
        10
    }
    fn death_signature(&self, _ctx: &Ctx, _idx: u64, how: &str) -> Option<String> {
        // a crash or hang of the front end on this text: owned by C05, but a text this check
        // generated could not be judged, so it is reported here as well
        Some(format!("frontend-{}", how))
    }
    fn describe_case(&mut self, ctx: &Ctx, idx: u64) -> String {
        let (_, name, i) = self.fams(ctx).locate(idx);
        format!("{} #{}", name, i)
    }

    fn run_case(&mut self, ctx: &Ctx, idx: u64, st: &mut Stats) {
        let (f, name, i) = self.fams(ctx).locate(idx);
        let mut r = Rng::for_case(ctx.seed, 800 + f as u64, i);
        match name {
            "two-files" => {
                let (first, second) = TWO_FILES[(i / 2) as usize];
                let first = if i % 2 == 0 { first.to_string() } else { format!("{}\n", first) };
                let bin = format!("{}/harness/target-repo/release/nederlang", crate::sup::root());
                if !std::path::Path::new(&bin).exists() {
                    st.inconclusive(format!("{} not built", bin));
                    return;
                }
                let base = format!("{}/two-{}-{}", crate::sup::scratch_dir(), std::process::id(), i);
                let (pa, pb, pab) = (format!("{}-a.nl", base), format!("{}-b.nl", base), format!("{}-ab.nl", base));
                let _ = std::fs::write(&pa, &first);
                let _ = std::fs::write(&pb, second);
                let _ = std::fs::write(&pab, format!("{}\n{}", first, second));
                let run = |args: &[&str]| std::process::Command::new("/usr/bin/timeout").arg("60").arg(&bin).args(args).stdin(std::process::Stdio::null()).output().ok().map(|o| (String::from_utf8_lossy(&o.stdout).to_string(), String::from_utf8_lossy(&o.stderr).lines().next().unwrap_or("").to_string(), o.status.code()));
                let alone = run(&[&pa]);
                let joined = run(&[&pab]);
                let both = run(&[&pa, &pb]);
                for p in [&pa, &pb, &pab] {
                    let _ = std::fs::remove_file(p);
                }
                st.evaluations += 3;
                st.count("two-files:runs");
                if let (Some(alone), Some(joined), Some(both)) = (alone, joined, both) {
                    if both != alone && both != joined {
                        st.violation("two-files:words-fused-or-lost", format!("`nederlang a.nl b.nl` gave {:?}; a.nl alone gives {:?}, both texts with a line end between them give {:?}", both, alone, joined), &format!("{:?} + {:?}", first, second));
                    }
                }
            }
            "code-point-sweep" => {
                let block = if ctx.flavour == crate::sup::Flavour::Miri { [0, 1, 2, 3, 0x20, 0x21, 0xFE, 0xFF][i as usize % 8] } else { i };
                super::unisweep::strings(block, name, st);
                super::unisweep::identifiers(block, name, st);
            }
            "string-decode" => {
                // i-th string over the alphabet, lengths 0..4 in order
                let mut k = i;
                let mut len = 0;
                let mut block = 1u64;
                while k >= block {
                    k -= block;
                    block *= 8;
                    len += 1;
                }
                let mut content = String::new();
                for _ in 0..len {
                    content.push(STR_ALPHABET[(k % 8) as usize]);
                    k /= 8;
                }
                let choices = content.chars().filter(|c| *c == '\n' || *c == '\t').count();
                st.distinct_hash(crate::rng::hash_str(&content));
                st.count("strings-enumerated");
                for variant in 0..(1u64 << choices) {
                    let mut v = variant;
                    let body = encode_string(&content, &mut v);
                    for (form, text, pos) in [
                        ("decl", format!("stel s = \"{}\"", body), 0usize),
                        ("ident-before", format!("x\"{}\"", body), 0),
                        ("ident-after", format!("\"{}\"b", body), 0),
                        ("two", format!("\"{}\"\"{}\"", body, body), 1),
                    ] {
                        st.evaluations += 1;
                        st.count("string-encodings");
                        match parse_real(&text) {
                            Ok(tree) => {
                                let mut found = vec![];
                                collect_strings(&tree, &mut found);
                                let ok = found.len() == if form == "two" { 2 } else { 1 } && found.get(pos) == Some(&content) && found[0] == content;
                                if !ok {
                                    st.violation(&format!("string-decode:{}", form), format!("written content {:?}, String nodes in the tree: {:?}", content, found), &text);
                                }
                            }
                            Err((k, m)) => st.violation(&format!("string-decode:{}:rejected", form), format!("content {:?}: {} {}", content, k.name(), m), &text),
                        }
                        // and the token stream carries the raw body
                        let toks = verif::token_pairs(&text);
                        let strs: Vec<&(String, String)> = toks.iter().filter(|t| t.0 == "String").collect();
                        if strs.is_empty() || strs.iter().any(|t| t.1 != body) {
                            st.violation(&format!("string-token:{}", form), format!("raw body {:?}, String tokens: {:?}", body, strs), &text);
                        }
                    }
                }
                if i == 300 {
                    st.sample(&format!("content {:?} written as stel s = \"{}\"", content, encode_string(&content, &mut 3u64.clone())));
                }
            }
            "token-sequences" => {
                let n = r.range(1, 30) as usize;
                let toks: Vec<Tok> = (0..n).map(|_| random_token(&mut r)).collect();
                let mut seps = vec![];
                for k in 1..n {
                    let must = fuses(&toks[k - 1], &toks[k]);
                    let choice = r.below(if must { 3 } else { 5 });
                    let s = match choice {
                        0 => WHITESPACE[r.below(11) as usize].to_string(),
                        1 => " ".to_string(),
                        2 => {
                            st.count("separators:comment");
                            // a comment directly after `/` would read as `///…`: keep them apart
                            let lead = if toks[k - 1].text.ends_with('/') { " " } else { "" };
                            format!("{}//{}\n", lead, *r.pick(&["", " x", " \"", " als (", "/", " één", " 💖💖 stel", "é", " — ‰ ∑ 𝔘", "\t\u{a0}\\"]))
                        }
                        _ => {
                            st.count("separators:none");
                            st.set_insert("adjacent-classes-without-separator", &format!("{}|{}", class_of(&toks[k - 1]), class_of(&toks[k])));
                            String::new()
                        }
                    };
                    if choice == 0 {
                        st.set_insert("whitespace-code-points", &format!("U+{:04X}", s.chars().next().unwrap() as u32));
                    }
                    seps.push(s);
                }
                for t in &toks {
                    st.count(&format!("tokens:{}", class_of(t)));
                }
                let h = crate::rng::hash_str(&toks.iter().map(|t| t.text.clone()).collect::<Vec<_>>().join("\u{1}"));
                st.distinct_hash(h);
                if i % 9001 == 0 {
                    let mut text = String::new();
                    for (k, t) in toks.iter().enumerate() {
                        if k > 0 {
                            text.push_str(&seps[k - 1]);
                        }
                        text.push_str(&t.text);
                    }
                    st.sample(&format!("token sequence: {:?}", text));
                }
                self.check_sequence(&toks, &seps, st, name);
            }
            "file-bytes-through-the-binary" if (i as usize) < straddles().len() => {
                // a multi-byte character lying across a power-of-two offset of the FILE (a reader that decodes the file
                // block by block must not cut it in two), inside a string literal, an identifier or a comment
                let (boundary, ch, shift, place) = straddles()[i as usize];
                let (head, tail) = match place {
                    0 => ("stel w = \"ab".to_string(), format!("cd\"; [lengte(w), w, w[2]]")),
                    1 => ("stel naam_".to_string(), format!("_x = 42; [naam_{}_x, 1]", ch)),
                    _ => ("stel w = 41 // ab".to_string(), "cd\n; [w + 1, 2]".to_string()),
                };
                // comment lines in front, so that `ch` starts `shift` bytes before the boundary
                let need = boundary - shift - head.len();
                let mut text = String::with_capacity(boundary + 64);
                let mut left = need;
                while left > 0 {
                    let line = left.min(100);
                    if line < 4 {
                        text.push_str(&" ".repeat(line));
                        break;
                    }
                    text.push_str("//");
                    text.push_str(&"-".repeat(line - 3));
                    text.push('\n');
                    left -= line;
                }
                text.push_str(&head);
                debug_assert_eq!(text.len(), boundary - shift);
                text.push_str(ch);
                text.push_str(&tail);
                st.count(&format!("file-straddle:{}", ["string", "identifier", "comment"][place]));
                st.set_insert("file-straddle-boundaries", &boundary.to_string());
                st.distinct_hash(crate::rng::hash_str(&text));
                super::binfile::compare_with_binary(&text, "file-bytes-through-the-binary", st);
            }
            "file-bytes-through-the-binary" => {
                // a string literal with raw line ends and other raw characters, in a FILE run by the shipped binary: the file
                // reader must hand the lexer every byte (CR LF is two characters, inside a literal as anywhere)
                let alphabet = ["\r\n", "\r", "\n", "\t", "\u{85}", "\u{feff}", "\u{a0}", "a", "é", "💖", " ", "\\\\", "\\n", "#", "//"];
                let n = 1 + r.below(6);
                let mut body = String::new();
                for _ in 0..n {
                    body.push_str(*r.pick(&alphabet));
                }
                let lead = *r.pick(&["", "\r\n", "// kop\r\n", "\u{feff}", "\n\n"]);
                let sep = *r.pick(&["; ", ";\r\n", "\r\n", "\n"]);
                let text = format!("{}stel s = \"{}\"{}print(\"{{}}|{{}}|\", lengte(s), s){}[lengte(s), s]", lead, body, sep, sep);
                st.distinct_hash(crate::rng::hash_str(&text));
                super::binfile::compare_with_binary(&text, "file-bytes-through-the-binary", st);
            }
            "keyword-identifiers" => {
                // complete: every keyword x every affix x {behind, in front, between two keywords}, alone and in a program
                let id = keyword_identifier(i);
                st.distinct_hash(crate::rng::hash_str(&id));
                let t = Tok { text: id.clone(), kind: "Identifier", payload: id.clone() };
                let stel = Tok { text: "stel".to_string(), kind: "Declare", payload: String::new() };
                let eq = Tok { text: "=".to_string(), kind: "Assign", payload: String::new() };
                self.check_sequence(&[t.clone()], &[], st, name);
                self.check_sequence(&[stel, t.clone(), eq, t.clone()], &[" ".to_string(), String::new(), String::new()], st, name);
                // and end to end: a variable of that name can be declared and read
                let o = crate::obs::eval_observed(&format!("stel {} = 41; {} + 1", id, id), &crate::obs::ObsCfg::plain(1000));
                st.evaluations += 1;
                if !matches!(&o.outcome, crate::obs::Outcome::Value(crate::val::Val::Int(42))) {
                    st.violation("keyword-identifiers:as-variable", format!("`stel {0} = 41; {0} + 1` gave {1}", id, o.outcome.render()), &id);
                }
            }
            "adjacent-pairs" => {
                // directed: two tokens next to each other with no separator wherever the model allows
                let a = random_token(&mut r);
                let b = random_token(&mut r);
                st.distinct_hash(crate::rng::hash_str(&format!("{}\u{1}{}", a.text, b.text)));
                if !fuses(&a, &b) {
                    st.set_insert("adjacent-classes-without-separator", &format!("{}|{}", class_of(&a), class_of(&b)));
                    self.check_sequence(&[a, b], &[String::new()], st, name);
                } else {
                    st.count("pairs-that-need-a-separator");
                    self.check_sequence(&[a, b], &[" ".to_string()], st, name);
                }
            }
            "conservation-directed" => {
                let t = DIRECTED_CONSERVATION[i as usize];
                st.distinct_hash(crate::rng::hash_str(t));
                self.conservation(t, st, name);
            }
            "conservation-programs" => {
                let profile = PROFILES[(i % 6) as usize];
                let (p, _) = random_program(&mut r, profile);
                let text = to_text(&p);
                // damage the text with one piece of noise: if it still parses nothing may be lost
                let text = if i % 2 == 0 { mutate::inject_noise(&text, &mut r) } else { text };
                if self.conservation(&text, st, name) {
                    st.distinct_hash(crate::rng::hash_str(&text));
                }
            }
            "conservation-mutants" => {
                let text = match i % 3 {
                    0 => mutate::soup(&mut r),
                    1 => mutate::structured_soup(&mut r),
                    _ => {
                        let (p, _) = random_program(&mut r, PROFILES[(i % 6) as usize]);
                        let toks = mutate::tokens_of(&p);
                        let (t2, _) = mutate::edit_tokens(&toks, &mut r);
                        mutate::join(&t2)
                    }
                };
                if self.conservation(&text, st, name) {
                    st.distinct_hash(crate::rng::hash_str(&text));
                    if st.samples.len() < 5 && i % 101 == 0 {
                        st.sample(&format!("parses, tokens conserved: {}", text));
                    }
                }
            }
            _ => unreachable!(),
        }
    }

    fn summarize(&self, ctx: &Ctx, merged: &Stats) -> Summary {
        let fams = self.fams(ctx);
        let mut inconclusive = vec![];
        if merged.counters.get("strings-enumerated").copied().unwrap_or(0) != 4681 {
            inconclusive.push("string content enumeration incomplete".to_string());
        }
        if merged.sets.get("whitespace-code-points").map(|s| s.len()).unwrap_or(0) != 11 {
            inconclusive.push("not every whitespace code point was used".to_string());
        }
        if merged.counters.get("conservation:parsed").copied().unwrap_or(0) < 100 {
            inconclusive.push("too few damaged texts parsed for the conservation check to mean anything".to_string());
        }
        Summary {
            rule: "(1) random token sequences over the complete vocabulary, each gap rendered with no separator (where a maximal-munch model allows), one of the 11 whitespace code points or a comment; the lexer's (kind, text) stream must equal the sequence written. (2) conservation: every damaged / random text that parses must contain no content token that is missing from the tree. (1b) every keyword with one of 12 ASCII / non-ASCII affixes behind it, in front of it, or between two copies of it is one identifier with exactly that spelling and can be declared and read as a variable. (3) every string content of length <= 4 over {n t \" \\ newline tab é 💖} in every encoding, as declaration and next to identifiers / other strings. distinct = distinct token sequences / texts / contents".to_string(),
            exhaustive: Some(true),
            extra: json!({
                "exhaustive_parts": ["all 4 681 string contents of length <= 4 over an 8-character alphabet, in every raw/escaped encoding of newline and tab, in 4 embeddings"],
                "families": fams.fams.iter().map(|f| json!({"name": f.0, "cases": f.1})).collect::<Vec<_>>(),
            }),
            assumptions: vec!["undefined escapes (\\q) and a number directly followed by a word are not generated (unspecified)".to_string()],
            inconclusive,
        }
    }

    fn post(&mut self, ctx: &Ctx, merged: &mut Stats) {
        if ctx.flavour == crate::sup::Flavour::Rel {
            let mctx = Ctx { seed: ctx.seed, tier: ctx.tier, flavour: crate::sup::Flavour::Miri };
            let n = self.fams(&mctx).total();
            crate::sup::run_valgrind_inproc("C08", ctx, n, 8, merged);
        }
        // the tokenizer slices the input by byte offsets it maintains by hand: Miri checks every slice
        if ctx.flavour == crate::sup::Flavour::Rel && ctx.tier == crate::sup::Tier::Thorough {
            let mctx = Ctx { seed: ctx.seed, tier: ctx.tier, flavour: crate::sup::Flavour::Miri };
            let n = self.fams(&mctx).total();
            crate::sup::run_miri("C08", ctx, 0, n, 16, merged);
        }
    }
}
