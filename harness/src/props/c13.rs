//! C13 — arrays and strings: shared by reference, indexed exactly, measured in characters.
//! Oracle: the reference model with object identity (refsem), on a complete index sweep, random
//! operation sequences observed through every alias, and directed cases.

use super::Families;
use crate::ast::*;
use crate::diff::{differential, Verdict};
use crate::obs::{eval_observed, ObsCfg, Outcome};
use crate::val::{render_val, same_val, Val};
use crate::print::to_text;
use crate::rng::{hash_str, Rng};
use crate::sup::{Check, Ctx, Flavour, Stats, Summary, Tier};
use serde_json::json;

pub struct C13 {
    strings: Vec<String>,
}

const CHARS: [&str; 4] = ["a", "é", "€", "💖"];

/// strings of length 0..=6 covering every combination class of 1-, 2-, 3- and 4-byte code points
fn sweep_strings() -> Vec<String> {
    let mut v = vec![String::new()];
    for len in 1..=6usize {
        // all width patterns for short strings, a rotating selection for longer ones
        let total = 4u32.pow(len as u32);
        let step = if len <= 3 { 1 } else { (total / 24).max(1) };
        let mut k = 0;
        while k < total {
            let mut s = String::new();
            let mut x = k;
            for _ in 0..len {
                s.push_str(CHARS[(x % 4) as usize]);
                x /= 4;
            }
            v.push(s);
            k += step;
        }
    }
    v
}

fn str_e(s: &str) -> Expr {
    Expr::Str(s.to_string())
}

impl C13 {
    pub fn new() -> Self {
        C13 { strings: sweep_strings() }
    }

    fn fams(&self, ctx: &Ctx) -> Families {
        let rnd = match (ctx.flavour, ctx.tier) {
            (Flavour::Rel, Tier::Quick) => 30_000,
            (Flavour::Rel, Tier::Thorough) => 1_500_000,
            (Flavour::Miri, _) => 100,
            (_, Tier::Quick) => 1_000,
            _ => 20_000,
        };
        // array sweep: len 0..=6, index -(len+2)..=len+2
        let arr_cells: u64 = (0..=6u64).map(|l| 2 * (l + 2) + 1).sum();
        let mut str_cells: u64 = self.strings.iter().map(|s| 2 * (s.chars().count() as u64 + 2) + 1).sum();
        if ctx.flavour == Flavour::Miri {
            // interpreted: the strings of up to three characters (every width pattern) are enough
            str_cells = str_cells.min(700);
        }
        Families::new(vec![
            // every cell three times: read + write + re-read in one program (an out-of-range read ends that program
            // before the write), the write alone, the read through the variable alone
            ("array-index-sweep", arr_cells * 3),
            ("string-index-sweep", str_cells * 3),
            ("index-and-value-types", 7 * 3),
            ("string-measure-consistency", if ctx.flavour == Flavour::Miri { 40 } else { 4 * 6 * 8 * 3 }),
            ("failed-write-leaves-unchanged", if ctx.flavour == Flavour::Miri { 30 } else { (FW_SEQS.len() * FW_WRITES.len()) as u64 }),
            ("directed", directed().len() as u64),
            ("random-op-sequences", rnd),
            // exactly N changes in place between two reads, for N around every power of two at which a counter might wrap
            ("modification-counts", if ctx.flavour == Flavour::Miri { 0 } else { (MOD_COUNTS.len() * 3) as u64 }),
            // long strings measured, indexed, changed in place and replaced, judged by what the run prints (props/strlife.rs)
            ("string-lifecycle", match (ctx.flavour, ctx.tier) { (Flavour::Miri, _) => 40, (Flavour::Rel, Tier::Quick) => 4_000, (Flavour::Rel, Tier::Thorough) => 300_000, (_, Tier::Quick) => 300, _ => 5_000 }),
        ])
    }

    fn program(&self, ctx: &Ctx, idx: u64, st: Option<&mut Stats>) -> (&'static str, Vec<Stmt>) {
        let (f, name, mut i) = self.fams(ctx).locate(idx);
        let mut r = Rng::for_case(ctx.seed, 1300 + f as u64, i);
        let prog = match name {
            "array-index-sweep" => {
                let form = i % 3;
                i /= 3;
                let mut len = 0i64;
                loop {
                    let cells = (2 * (len + 2) + 1) as u64;
                    if i < cells {
                        break;
                    }
                    i -= cells;
                    len += 1;
                }
                let index_v = i as i64 - (len + 2);
                if let Some(st) = st {
                    st.set_insert("array-grid", &format!("{}:{}:{}", len, index_v, form));
                }
                let items: Vec<Expr> = (0..len).map(|k| Expr::Int(10 + k)).collect();
                // read, write, re-read everything, length; through a variable and through a literal
                let mut p = vec![Stmt::Let("a".into(), Expr::Array(items.clone())), Stmt::Let("alias".into(), ident("a"))];
                if form == 0 {
                    p.push(Stmt::Expr(calln("print", vec![str_e("r={}"), index(Expr::Array(items.clone()), int(index_v))])));
                }
                if form == 0 || form == 2 {
                    p.push(Stmt::Expr(calln("print", vec![str_e("v={}"), index(ident("a"), int(index_v))])));
                }
                if form == 0 || form == 1 {
                    p.push(Stmt::Expr(calln("print", vec![str_e("w={}"), assign(index(ident("a"), int(index_v)), Expr::Int(99))])));
                }
                p.push(Stmt::Expr(Expr::Array(vec![ident("a"), ident("alias"), calln("lengte", vec![ident("a")])])));
                p
            }
            "string-index-sweep" => {
                let form = i % 3;
                i /= 3;
                let mut si = 0usize;
                loop {
                    let cells = 2 * (self.strings[si].chars().count() as u64 + 2) + 1;
                    if i < cells {
                        break;
                    }
                    i -= cells;
                    si += 1;
                }
                let s = &self.strings[si];
                let len = s.chars().count() as i64;
                let index_v = i as i64 - (len + 2);
                if let Some(st) = st {
                    st.set_insert("string-lengths", &format!("{}", len));
                    st.count("string-grid-cells");
                }
                let newc = CHARS[((index_v + 8) % 4) as usize];
                let mut p = vec![Stmt::Let("s".into(), str_e(s)), Stmt::Expr(calln("print", vec![str_e("n={}"), calln("lengte", vec![ident("s")])]))];
                if form == 0 {
                    p.push(Stmt::Expr(calln("print", vec![str_e("r={}"), index(str_e(s), int(index_v))])));
                }
                if form == 0 || form == 2 {
                    p.push(Stmt::Expr(calln("print", vec![str_e("v={}"), index(ident("s"), int(index_v))])));
                }
                if form == 0 || form == 1 {
                    p.push(Stmt::Expr(calln("print", vec![str_e("w={}"), assign(index(ident("s"), int(index_v)), str_e(newc))])));
                }
                p.push(Stmt::Expr(Expr::Array(vec![ident("s"), calln("lengte", vec![ident("s")])])));
                p
            }
            "index-and-value-types" => {
                // every value type as index (-> type error) and as stored value
                let tys: [Expr; 7] = [
                    Expr::If { cond: Box::new(Expr::Bool(false)), cons: vec![Stmt::Expr(Expr::Int(1))], alt: None },
                    Expr::Bool(true),
                    Expr::Int(0),
                    Expr::Float(0.0),
                    str_e("0"),
                    Expr::Array(vec![Expr::Int(0)]),
                    ident("g"),
                ];
                let t = tys[(i / 3) as usize].clone();
                let mut p = vec![
                    Stmt::Expr(Expr::Function { name: "g".into(), params: vec![], body: vec![Stmt::Expr(Expr::Int(1))] }),
                    Stmt::Let("a".into(), Expr::Array(vec![Expr::Int(1), Expr::Int(2)])),
                    Stmt::Let("s".into(), str_e("xy")),
                ];
                match i % 3 {
                    0 => p.push(Stmt::Expr(index(ident("a"), t))),
                    1 => p.push(Stmt::Expr(index(ident("s"), t))),
                    _ => {
                        // store any value into the array; storing a non-string into a string is a type error
                        p.push(Stmt::Expr(calln("print", vec![str_e("stored {}"), calln("type", vec![assign(index(ident("a"), Expr::Int(1)), t.clone())])])));
                        p.push(Stmt::Expr(assign(index(ident("s"), Expr::Int(0)), t)));
                    }
                }
                p.push(Stmt::Expr(Expr::Array(vec![calln("lengte", vec![ident("a")]), ident("s")])));
                p
            }
            "directed" => {
                let text = directed()[i as usize].1;
                crate::ast::parse_real(text).unwrap_or_default()
            }
            _ => random_ops(&mut r),
        };
        (name, prog)
    }
}

pub fn directed() -> Vec<(&'static str, &'static str)> {
    vec![
        ("self-assign-string", "stel s = \"abcdefghijklmnopqrstuvwxyz\"; s[0] = \"é\"; s"),
        ("self-nest-array", "stel a = [1, 2]; a[0] = a; lengte(a)"),
        ("self-nest-read", "stel a = [1, 2]; a[0] = a; stel b = a[0]; b[1] = 7; a[1]"),
        ("write-through-parameter", "functie zet(x) { x[0] = 99; 0 } stel a = [1, 2]; zet(a); a"),
        ("write-through-returned", "stel a = [1, 2]; functie geef() { a } stel b = geef(); b[1] = 5; a"),
        ("element-alias", "stel a = [1]; stel b = [a, a]; stel t = b[0]; t[0] = 9; [a, b, lengte(b)]"),
        ("literal-in-function-twice", "functie f() { stel s = \"abc\"; s[0] = \"x\"; s } [f(), f()]"),
        ("literal-twice", "stel a = \"abc\"; stel b = \"abc\"; a[0] = \"x\"; [a, b, \"abc\"]"),
        ("failed-write-unchanged", "stel a = [1, 2, 3]; stel e = 0; a"),
        // what a read hands out is a value of its own: changing it changes neither the sequence it came from nor what
        // the next read of the same position (or of an equal character elsewhere) yields
        ("read-character-then-modify-it", "stel s = \"abc\"; stel c = s[0]; c[0] = \"z\"; [s, c, s[0], \"abc\"[0], \"xa\"[1]]"),
        ("read-character-twice-then-modify-one", "stel s = \"aé\"; stel p = s[1]; stel q = s[1]; p[0] = \"x\"; [p, q, s, s[1], \"é\"[0]]"),
        ("read-character-in-loop-and-modify", "stel s = \"aaa\"; stel uit = []; stel i = 0; zolang i < 3 { stel c = s[i]; als i == 1 { c[0] = \"b\" }; uit = [uit, c]; i += 1 }; [uit, s]"),
        ("array-literal-in-function-twice", "functie f() { stel t = [0, 0]; t[0] = t[0] + 5; t[1] += 1; t } [f(), f(), f()]"),
        ("array-literal-in-loop", "stel uit = []; stel i = 0; zolang i < 3 { stel t = [1.5, ja, 7]; t[2] = t[2] * 2; t[1] = nee; uit = [uit, t]; i += 1 }; uit"),
        ("nested-array-literal-in-function-twice", "functie f() { stel t = [[1], [2, 3]]; stel r = t[0]; r[0] = r[0] + 10; t } [f(), f()]"),
        ("empty-array-literal-twice", "functie f() { [] } stel a = f(); stel b = f(); [lengte(a), lengte(b), a, b]"),
        ("nested-arrays", "stel a = [[1, 2], [3]]; stel r = a[1]; r[0] = 4; [a, lengte(a), lengte(a[0])]"),
        ("string-in-array", "stel a = [\"hé\", \"💖\"]; stel t = a[0]; [lengte(t), t[1], lengte(a)]"),
        ("array-of-arrays-alias", "stel rij = [0, 0]; stel m = [rij, rij]; stel r = m[0]; r[1] = 5; m"),
        ("negative-index-string", "\"aé€💖\"[-1]"),
        ("negative-index-string-2", "\"aé€💖\"[-4]"),
        ("lengte-multibyte", "[lengte(\"aé€💖\"), lengte(\"\"), lengte(\"🇳🇱\")]"),
        ("replace-widths", "stel s = \"aé€💖\"; s[0] = \"💖\"; s[1] = \"a\"; s[2] = \"é\"; s[3] = \"€\"; [s, lengte(s)]"),
        ("caller-sees-change-in-loop", "stel a = [0, 0, 0]; functie vul(x, i) { x[i] = i * i; x } stel i = 0; zolang i < 3 { vul(a, i); i += 1 }; a"),
        ("array-survives-call", "functie maak() { [1.5, \"tekst\", [2.5]] } stel a = maak(); functie niets() { 0 } niets(); a"),
    ]
}

/// random operation sequence over 1–4 arrays, observed through every alias after each write
fn random_ops(r: &mut Rng) -> Vec<Stmt> {
    let mut p = vec![];
    let n_arr = r.range(1, 3) as usize;
    // names: arrays a0.., aliases b0.., strings s0..
    let mut arrays: Vec<(String, usize)> = vec![]; // name, length of the underlying array
    let mut groups: Vec<Vec<String>> = vec![]; // names that alias the same object
    for k in 0..n_arr {
        let len = r.range(0, 6) as usize;
        let items: Vec<Expr> = (0..len).map(|j| if r.chance(1, 5) { Expr::Str(CHARS[j % 4].to_string()) } else { Expr::Int((k * 10 + j) as i64) }).collect();
        let name = format!("a{}", k);
        p.push(Stmt::Let(name.clone(), Expr::Array(items)));
        arrays.push((name.clone(), len));
        groups.push(vec![name]);
    }
    p.push(Stmt::Expr(Expr::Function {
        name: "schrijf".into(),
        params: vec!["x".into(), "i".into(), "v".into()],
        body: vec![Stmt::Expr(assign(index(ident("x"), ident("i")), ident("v"))), Stmt::Expr(ident("x"))],
    }));
    p.push(Stmt::Expr(Expr::Function { name: "zelfde".into(), params: vec!["x".into()], body: vec![Stmt::Expr(ident("x"))] }));
    let mut strs: Vec<String> = vec![];
    let ops = r.range(3, 12);
    let mut fresh = 0;
    for _ in 0..ops {
        let g = r.below(groups.len() as u64) as usize;
        let name = groups[g][r.below(groups[g].len() as u64) as usize].clone();
        let len = arrays[g].1 as i64;
        let idx = if r.chance(4, 5) && len > 0 { r.range(-len, len - 1) } else { r.range(-(len + 2), len + 2) };
        match r.below(9) {
            0 => {
                // alias by declaration
                fresh += 1;
                let b = format!("b{}", fresh);
                p.push(Stmt::Let(b.clone(), ident(&name)));
                groups[g].push(b);
            }
            1 => {
                // alias through a function that returns its argument
                fresh += 1;
                let b = format!("b{}", fresh);
                p.push(Stmt::Let(b.clone(), calln("zelfde", vec![ident(&name)])));
                groups[g].push(b);
            }
            2 | 3 => {
                p.push(Stmt::Expr(calln("print", vec![Expr::Str("w {}".into()), assign(index(ident(&name), int(idx)), Expr::Int(r.range(100, 999)))])));
            }
            4 => {
                // write inside a function, through the parameter
                p.push(Stmt::Expr(calln("schrijf", vec![ident(&name), int(idx), Expr::Int(r.range(100, 999))])));
            }
            5 => {
                p.push(Stmt::Expr(calln("print", vec![Expr::Str("r {} n {}".into()), index(ident(&name), int(idx)), calln("lengte", vec![ident(&name)])])));
            }
            6 => {
                // nest into another array and write through the element
                fresh += 1;
                let outer = format!("n{}", fresh);
                let t = format!("t{}", fresh);
                p.push(Stmt::Let(outer.clone(), Expr::Array(vec![ident(&name), Expr::Int(0)])));
                p.push(Stmt::Let(t.clone(), index(ident(&outer), Expr::Int(0))));
                groups[g].push(t);
            }
            7 => {
                // a string: index, measure, replace one character (single holder)
                fresh += 1;
                let s = format!("s{}", fresh);
                let n = r.range(0, 5) as usize;
                let text: String = (0..n).map(|_| *r.pick(&CHARS)).collect();
                p.push(Stmt::Let(s.clone(), Expr::Str(text)));
                let i = r.range(-(n as i64 + 1), n as i64 + 1);
                p.push(Stmt::Expr(calln("print", vec![Expr::Str("s {} {}".into()), calln("lengte", vec![ident(&s)]), index(ident(&s), int(i))])));
                p.push(Stmt::Expr(assign(index(ident(&s), int(i)), Expr::Str(r.pick(&CHARS).to_string()))));
                strs.push(s);
            }
            _ => {
                // self-nesting
                if len > 0 && r.chance(1, 3) {
                    p.push(Stmt::Expr(calln("lengte", vec![assign(index(ident(&name), Expr::Int(0)), ident(&name))])));
                } else {
                    p.push(Stmt::Expr(calln("print", vec![Expr::Str("n {}".into()), calln("lengte", vec![ident(&name)])])));
                }
            }
        }
        // observe through every alias of the group (lengths and one element)
        if r.chance(1, 2) {
            let obs: Vec<Expr> = groups[g].iter().map(|n| calln("lengte", vec![ident(n)])).collect();
            p.push(Stmt::Expr(calln("print", vec![Expr::Str("lens {}".into()), Expr::Array(obs)])));
        }
    }
    let mut fin = vec![];
    for g in &groups {
        for n in g {
            fin.push(calln("lengte", vec![ident(n)]));
            fin.push(ident(n));
        }
    }
    for s in &strs {
        fin.push(ident(s));
    }
    p.push(Stmt::Expr(Expr::Array(fin)));
    p
}

/// sequences and failing element assignments for the `failed-write-leaves-unchanged` family
const FW_SEQS: [&str; 6] = ["[1, 2, 3]", "[\"a\", [2.5], 3]", "\"hello\"", "\"aé€💖\"", "[7]", "\"z\""];
const FW_WRITES: [&str; 14] = [
    "x[9] = \"q\"", "x[-9] = \"q\"", "x[lengte(x)] = \"q\"", "x[0 - lengte(x) - 1] = \"q\"", "x[ja] = \"q\"", "x[\"0\"] = \"q\"", "x[1.5] = \"q\"", "x[[0]] = \"q\"",
    "x[99] = 5", "x[0] = onbekende_naam", "x[0] = 1 / 0", "x[1 / 0] = \"q\"", "x[0] = x[99]", "stel y = x; y[50] = \"q\"",
];

impl C13 {
    /// A failed element assignment "leaves the sequence unchanged". Inside one evaluation the error ends the program, so
    /// nobody can look; on a retained compiler + VM (the prompt) the next line can. Three lines: declare, fail, look —
    /// through the variable and through an alias made before the failure.
    fn failed_write(&self, ctx: &Ctx, i: u64, st: &mut Stats) {
        use crate::props::c17::{run_session_real, Line};
        let total = (FW_SEQS.len() * FW_WRITES.len()) as u64;
        let i = if ctx.flavour == Flavour::Miri { (i * 7 + ctx.seed) % total } else { i };
        let seq = FW_SEQS[(i as usize) / FW_WRITES.len()];
        let write = FW_WRITES[(i as usize) % FW_WRITES.len()];
        let is_string = seq.starts_with('"');
        // a string may legitimately take a string at a valid index: only the writes that must fail are kept
        let lines: Vec<Line> = [format!("stel x = {}; stel alias = x; [x, lengte(x)]", seq), write.to_string(), "[x, lengte(x), alias, lengte(alias)]".to_string(), format!("[{}, lengte({})]", seq, seq)]
            .iter()
            .map(|t| Line { text: t.clone(), budget: None })
            .collect();
        let (shadow, probes) = if matches!(ctx.flavour, Flavour::Asan | Flavour::Miri) { (nederlang::verif::ShadowMode::Off, false) } else { (nederlang::verif::ShadowMode::Quarantine, true) };
        let (obs, events) = run_session_real(&lines, shadow, probes);
        st.evaluations += 1;
        st.count("programs:failed-write-leaves-unchanged");
        let text = lines.iter().map(|l| l.text.clone()).collect::<Vec<_>>().join("\n");
        if !events.is_empty() {
            st.violation("failed-write-leaves-unchanged:monitor", format!("monitor events {:?}", events), &text);
            return;
        }
        if obs.len() != 4 {
            return;
        }
        let failed = matches!(obs[1].outcome, crate::obs::Outcome::Error(..));
        if !failed {
            // the write succeeded (a string index that happens to be valid, an array taking any value): nothing to check
            st.count("failed-write:write-succeeded");
            let _ = is_string;
            return;
        }
        st.distinct_hash(hash_str(&text));
        // before: [x, len]; after: [x, len, alias, len]; fresh: [seq, len]
        let render = |o: &crate::obs::Outcome| o.render();
        let (before, after, fresh) = (render(&obs[0].outcome), render(&obs[2].outcome), render(&obs[3].outcome));
        let want_after = before.trim_end_matches(")").trim_end_matches("]").to_string();
        // after must be "Value([<x>, <len>, <x>, <len>])" where "Value([<x>, <len>" is the text of `before` without its closing brackets
        let expect = format!("{}, {}])", want_after, want_after.trim_start_matches("Value(["));
        if after != expect || before != fresh {
            st.violation("failed-write-leaves-unchanged:changed", format!("before the failed assignment {}; after it {} (expected {}); a fresh value of the same literal {}; the assignment gave {}", before, after, expect, fresh, render(&obs[1].outcome)), &text);
        }
    }

    /// What `s[i] = <text of 0, 2 or 3 characters>` does is not documented (DESIGN 4.3(7)) — but whatever the string
    /// is afterwards, `lengte`, indexing from the front and from the back, and every alias must describe THAT string:
    /// measured by character, consistently. The oracle needs no model of the assignment: it compares the string the
    /// program returns with what the program says about it.
    fn measure_consistency(&self, ctx: &Ctx, i: u64, st: &mut Stats) {
        let i = if ctx.flavour == Flavour::Miri { (i * 13 + ctx.seed) % (4 * 6 * 8 * 3) } else { i };
        let base = ["abc", "aébé", "💖x", "z"][(i % 4) as usize];
        let repl = ["", "xy", "xyz", "éé", "💖ß€", "ab"][((i / 4) % 6) as usize];
        let idx_v = [0i64, 1, 2, 3, -1, -2, -3, -4][((i / 24) % 8) as usize];
        let form = (i / 192) % 3;
        let setup = match form {
            0 => format!("stel s = \"{}\"; stel t = s; s[{}] = \"{}\"", base, idx_v, repl),
            1 => format!("stel s = \"{}\"; stel t = s; functie zet(x) {{ x[{}] = \"{}\"; 0 }}; zet(s)", base, idx_v, repl),
            _ => format!("stel doos = [\"{}\"]; stel s = doos[0]; stel t = s; s[{}] = \"{}\"; s[{}] = \"{}\"", base, idx_v, repl, idx_v, repl),
        };
        let text = format!("{}; [s, lengte(s), s[0], s[-1], s[lengte(s) - 1], t, lengte(t)]", setup);
        let o = crate::obs::eval_observed(&text, &ObsCfg::plain(10_000));
        st.evaluations += 1;
        st.count("programs:string-measure-consistency");
        match &o.outcome {
            crate::obs::Outcome::Value(crate::val::Val::Array(v)) if v.len() == 7 => {
                use crate::val::Val;
                let s = match &v[0] {
                    Val::Str(s) => s.clone(),
                    _ => return,
                };
                st.distinct_hash(hash_str(&text));
                let n = s.chars().count() as i64;
                let first = s.chars().next().map(|c| c.to_string()).unwrap_or_default();
                let last = s.chars().last().map(|c| c.to_string()).unwrap_or_default();
                let ok = matches!(&v[1], Val::Int(k) if *k == n) && matches!(&v[2], Val::Str(f) if *f == first) && matches!(&v[3], Val::Str(l) if *l == last) && matches!(&v[4], Val::Str(l) if *l == last);
                if !ok {
                    st.violation("string-measure-consistency:lengte-or-index", format!("the string is {:?} ({} characters) but lengte / s[0] / s[-1] / s[lengte(s) - 1] say {}", s, n, crate::val::render_val(&Val::Array(v[1..5].to_vec()))), &text);
                }
                // the alias names the same object or an independent copy (4.3(7)): either way it is measured by character
                if let (Val::Str(t), Val::Int(k)) = (&v[5], &v[6]) {
                    if t.chars().count() as i64 != *k {
                        st.violation("string-measure-consistency:alias", format!("the alias is {:?} but its lengte is {}", t, k), &text);
                    }
                }
            }
            // an error (index out of range on the changed string, or the assignment refused) decides nothing
            _ => st.count("string-measure-consistency:no-value"),
        }
    }
}

const MOD_COUNTS: [u64; 13] = [1, 2, 3, 255, 256, 257, 65_535, 65_536, 65_537, 131_071, 131_072, 131_073, 262_144];

impl Check for C13 {
    fn id(&self) -> &'static str {
        "C13"
    }
    fn total_cases(&self, ctx: &Ctx) -> u64 {
        self.fams(ctx).total()
    }
    fn chunk_size(&self, _ctx: &Ctx) -> u64 {
        300
    }
    fn describe_case(&mut self, ctx: &Ctx, idx: u64) -> String {
        let (_, name, i) = self.fams(ctx).locate(idx);
        if name == "modification-counts" {
            return format!("modification-counts #{}", i);
        }
        if name == "string-lifecycle" {
            return super::strlife::generate(&mut Rng::for_case(ctx.seed, 13_900, i), super::strlife::Focus::Measure).text;
        }
        to_text(&self.program(ctx, idx, None).1)
    }
    fn run_case(&mut self, ctx: &Ctx, idx: u64, st: &mut Stats) {
        {
            let (_, name, i) = self.fams(ctx).locate(idx);
            if name == "string-measure-consistency" {
                self.measure_consistency(ctx, i, st);
                return;
            }
            if name == "failed-write-leaves-unchanged" {
                self.failed_write(ctx, i, st);
                return;
            }
            if name == "modification-counts" {
                let n = MOD_COUNTS[(i / 3) as usize];
                let (text, want) = match i % 3 {
                    // a read, n - 1 changes that move nothing, one change that moves the character read before, the read again
                    0 => (
                        format!("stel s = \"aaez\"; stel eerst = s[3]; stel k = 1; zolang k < {n} {{ s[1] = \"a\"; k += 1 }}; s[0] = \"é\"; [eerst, s, lengte(s), s[3], s[-1]]", n = n),
                        Val::Array(vec![Val::Str("z".into()), Val::Str("éaez".into()), Val::Int(4), Val::Str("z".into()), Val::Str("z".into())]),
                    ),
                    // every change moves the later characters: widths 1 and 2 in turn
                    1 => (
                        format!("stel s = \"abcdefgh\"; stel eerst = s[6]; stel k = 0; zolang k < {n} {{ als k % 2 == 0 {{ s[2] = \"é\" }} anders {{ s[2] = \"c\" }}; k += 1 }}; [eerst, s[6], s[-1], lengte(s), s[2]]", n = n),
                        Val::Array(vec![Val::Str("g".into()), Val::Str("g".into()), Val::Str("h".into()), Val::Int(8), Val::Str(if n % 2 == 1 { "é" } else { "c" }.into())]),
                    ),
                    // an array: n stores between two reads
                    _ => (
                        format!("stel a = [1, 2, 3, [4.5]]; stel eerst = a[3]; stel k = 0; zolang k < {n} {{ a[1] = k; k += 1 }}; a[0] = \"nul\"; [eerst, a[3], a[1], a[0], lengte(a)]", n = n),
                        Val::Array(vec![Val::Array(vec![Val::Float(4.5)]), Val::Array(vec![Val::Float(4.5)]), Val::Int(n as i64 - 1), Val::Str("nul".into()), Val::Int(4)]),
                    ),
                };
                st.distinct_hash(hash_str(&text));
                for (tag, mut cfg) in [("quarantine", ObsCfg::default()), ("plain-allocator", ObsCfg::plain(0))] {
                    cfg.budget = Some(10_000_000);
                    let o = eval_observed(&text, &cfg);
                    st.evaluations += 1;
                    if !matches!(&o.outcome, Outcome::Value(v) if same_val(v, &want)) {
                        st.violation(&format!("modification-counts:{}:{}", tag, if matches!(o.outcome, Outcome::Value(_)) { "value".to_string() } else { o.outcome.class() }), format!("after {} changes in place: expected {}, got {}", n, render_val(&want), o.outcome.render()), &text);
                        return;
                    }
                }
                return;
            }
            if name == "string-lifecycle" {
                let mut r = Rng::for_case(ctx.seed, 13_900, i);
                super::strlife::run_case(&mut r, super::strlife::Focus::Measure, name, ctx.flavour == Flavour::Miri, st);
                return;
            }
        }
        let (fam, prog) = self.program(ctx, idx, Some(st));
        let text = to_text(&prog);
        let cfg = match ctx.flavour {
            Flavour::Asan | Flavour::Miri => ObsCfg::plain(1_000_000),
            _ => ObsCfg::default(),
        };
        st.count(&format!("programs:{}", fam));
        let d = differential(&text, &cfg, 200_000, st);
        match d.verdict {
            Verdict::Agree { .. } => {
                st.distinct_hash(hash_str(&text));
                if idx % 997 == 0 {
                    st.sample(&format!("[{}] {}", fam, text));
                }
            }
            Verdict::Skip(why) => {
                if fam != "random-op-sequences" {
                    st.count(&format!("sweep-cells-skipped:{}", why.split(':').next().unwrap_or("")));
                }
            }
            Verdict::Inconclusive(_) => {}
            Verdict::Mismatch { sig, detail } => st.violation(&format!("{}:{}", fam, sig), detail, &text),
        }
    }
    fn summarize(&self, ctx: &Ctx, merged: &Stats) -> Summary {
        let fams = self.fams(ctx);
        let mut inconclusive = vec![];
        let grid = merged.sets.get("array-grid").map(|s| s.len()).unwrap_or(0) as u64;
        if grid != fams.fams[0].1 {
            inconclusive.push(format!("array (len, index) grid incomplete: {} of {}", grid, fams.fams[0].1));
        }
        if merged.counters.get("string-grid-cells").copied().unwrap_or(0) != fams.fams[1].1 {
            inconclusive.push("string (text, index) grid incomplete".to_string());
        }
        Summary {
            rule: "complete sweep: for every array length 0-6 and for strings of 0-6 characters over 1-/2-/3-/4-byte code points, every index from -(len+2) to len+2 is read (through a literal and a variable), written (after the reads, and in a program of its own so that an out-of-range read cannot hide the write), and the whole sequence and its lengte re-read, also through an alias; every value type as index and as stored value; directed aliasing cases; random operation sequences (alias, pass, return, nest, write through parameter, self-nest) observed through every alias. Oracle: reference model with object identity. distinct = distinct program texts that agreed".to_string(),
            exhaustive: Some(true),
            extra: json!({
                "exhaustive_parts": ["array (length 0-6) x index (-(len+2)..len+2) grid", "string (0-6 chars, all width classes up to length 3, rotating selection above) x index grid", "7 value types as index and as stored value"],
                "sweep_strings": self.strings.len(),
                "families": fams.fams.iter().map(|f| json!({"name": f.0, "cases": f.1})).collect::<Vec<_>>(),
            }),
            assumptions: vec!["mutation of a string reachable under more than one name and replacing a character by a text that is not one character long are unspecified (DESIGN §4.3(7)) and skipped".to_string()],
            inconclusive,
        }
    }
    fn post(&mut self, ctx: &Ctx, merged: &mut Stats) {
        if ctx.flavour == Flavour::Rel {
            let mctx = Ctx { seed: ctx.seed, tier: ctx.tier, flavour: Flavour::Miri };
            let n = self.fams(&mctx).total();
            crate::sup::run_valgrind_inproc("C13", ctx, n, 8, merged);
        }
        if ctx.flavour == Flavour::Rel && ctx.tier == Tier::Thorough {
            crate::sup::run_sub_flavour("C13", ctx, Flavour::Asan, merged);
            // byte / character arithmetic of replace_range and the aliasing of `s[0] = s` under Miri
            let mctx = Ctx { seed: ctx.seed, tier: ctx.tier, flavour: Flavour::Miri };
            let n = self.fams(&mctx).total();
            crate::sup::run_miri("C13", ctx, 0, n, 16, merged);
        }
    }
}
