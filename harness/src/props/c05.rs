//! C05 — every failure is an error value: no input crashes or hangs the interpreter.
//! Oracle: the worker-process supervisor (exit status, signal, stderr), panics caught in-process,
//! step-bounded termination inside the VM loop, wall-clock watchdog for the unhooked front end.

use super::Families;
use crate::gen::{random_program, PROFILES};
use crate::mutate;
use crate::obs::{eval_observed, event_class, ObsCfg, Outcome};
use crate::print::to_text;
use crate::rng::{hash_str, Rng};
use crate::sup::{Check, Ctx, Flavour, Stats, Summary, Tier};
use serde_json::json;
use std::io::Write;
use std::process::{Command, Stdio};

pub struct C05 {
    examples: Vec<String>,
    directed: Vec<(&'static str, String)>,
    /// programs that are ordinary in everything but size (scale.rs), built on first use
    scale: std::cell::RefCell<Option<Vec<(String, String)>>>,
}

pub fn directed() -> Vec<(&'static str, String)> {
    let rep = |s: &str, n: usize| s.repeat(n);
    let mut v: Vec<(&'static str, String)> = vec![
        ("div-zero", "1 / 0".into()),
        ("mod-zero", "1 % 0".into()),
        ("div-zero-local", "functie f(x) { x / 0 } f(1)".into()),
        ("huge-int-literal", "99999999999999999999".into()),
        ("int-literal-2^60", "1152921504606846976".into()),
        ("int-literal-2^63", "9223372036854775808".into()),
        ("toplevel-antwoord", "antwoord 1".into()),
        ("toplevel-antwoord-in-block", "{ antwoord 1 }".into()),
        ("toplevel-antwoord-in-loop", "zolang ja { antwoord 1 }".into()),
        ("self-initialiser", "stel x = x".into()),
        ("self-initialiser-block", "{ stel y = y + 1 }".into()),
        ("self-initialiser-fn", "functie f() { stel z = z; z } f()".into()),
        ("non-ascii-index", "\"é\"[1]".into()),
        ("non-ascii-index-neg", "\"é💖\"[-3]".into()),
        ("array-eq", "[1] == [1]".into()),
        ("function-order", "functie f() {1} functie g() {2} f < g".into()),
        ("too-many-args", "functie f() {1} f(1, 2)".into()),
        ("too-many-args-locals", "functie f(a) { stel b = 2; a + b } f(1, 2, 3, 4)".into()),
        ("too-few-args", "functie f(a, b) { a } f(1)".into()),
        ("too-few-args-use", "functie f(a, b) { a + b } f(1)".into()),
        ("functie-open", "functie (".into()),
        ("functie-literal-param", "functie f(1) {}".into()),
        ("functie-trailing", "functie f(a, ".into()),
        ("unterminated-string", "\"abc".into()),
        ("unterminated-string-escape", "\"abc\\".into()),
        ("cyclic-print", "stel a = [1]; a[0] = a; print(a)".into()),
        ("cyclic-result", "stel a = [1]; a[0] = a; a".into()),
        ("cyclic-string", "stel a = [1]; a[0] = a; string(a)".into()),
        ("cyclic-format", "stel a = [1]; a[0] = a; print(\"{}\", a)".into()),
        ("int-of-huge-float", "int(1000000000000000000000000000000.0)".into()),
        ("int-of-inf", "int(1.0 / 0.0)".into()),
        ("int-of-nan", "int(0.0 / 0.0)".into()),
        ("int-of-huge-text", "int(\"99999999999999999999999\")".into()),
        ("float-of-huge-text", format!("float(\"{}\")", rep("9", 400))),
        ("min-int-negate", "-(-1152921504606846975 - 1)".into()),
        ("min-int-div", "(-1152921504606846975 - 1) / -1".into()),
        ("min-int-mod", "(-1152921504606846975 - 1) % -1".into()),
        ("stop-in-function-in-loop", "zolang ja { functie() { stop }() }".into()),
        ("volgende-toplevel", "volgende".into()),
        ("call-non-function", "stel a = 1; a()".into()),
        ("call-builtin-as-value", "stel p = print; p(1)".into()),
        ("index-assign-self-string", "stel s = \"abcdefghijklmnopqrstuvwxyz\"; s[0] = s; s".into()),
        ("index-assign-self-array", "stel a = [1, 2]; a[0] = a; lengte(a)".into()),
        ("empty", "".into()),
        ("only-comment", "// niets".into()),
        ("only-semicolons", ";;;".into()),
        ("bom", "\u{feff}1".into()),
        ("nul", "1\0 2".into()),
        ("lone-amp", "&".into()),
        ("dot", "a.b".into()),
        ("caret", "1 ^ 2".into()),
        ("assign-to-call", "f() = 1".into()),
        ("assign-to-literal", "1 = 2".into()),
        ("index-of-call", "functie f() { [1] } f()[0]".into()),
        ("double-index", "stel a = [[1]]; a[0][0]".into()),
        ("prefix-on-function", "-functie() {}".into()),
        ("infix-on-function", "functie() {} + 1".into()),
        ("not-on-int", "!1".into()),
        ("if-non-bool", "als 1 { 2 }".into()),
        ("while-non-bool", "zolang 1 { 2 }".into()),
        ("nested-else-if", format!("als nee {{}} {}", rep("anders als nee {} ", 300))),
        ("else-if-chain-50k", format!("als nee {{ 1 }}{} anders {{ 3 }}", rep(" anders als nee { 2 }", 50_000))),
        ("else-if-chain-100k-open", format!("als nee {{ 1 }}{}", rep(" anders als nee { 2 }", 100_000))),
        ("else-if-chain-in-value-position-50k", format!("stel x = als nee {{ 1 }}{} anders {{ 3 }}; x", rep(" anders als nee { 2 }", 50_000))),
        ("deep-parens-200", format!("{}1{}", rep("(", 200), rep(")", 200))),
        ("deep-parens-100k", format!("{}1{}", rep("(", 100_000), rep(")", 100_000))),
        ("deep-parens-open-100k", rep("(", 100_000)),
        ("deep-brackets-100k", format!("{}{}", rep("[", 100_000), rep("]", 100_000))),
        ("deep-minus-100k", format!("{}1", rep("-", 100_000))),
        ("deep-not-100k", format!("{}ja", rep("!", 100_000))),
        ("deep-als-20k", format!("{}1{}", rep("als ja { ", 20_000), rep(" }", 20_000))),
        ("deep-blocks-100k", format!("{}{}", rep("{", 100_000), rep("}", 100_000))),
        ("deep-functie-20k", format!("{}1{}", rep("functie() { ", 20_000), rep(" }", 20_000))),
        ("deep-calls-20k", format!("stel f = functie(x) {{ x }}; {}1{}", rep("f(", 20_000), rep(")", 20_000))),
        // short programs that run long: the loop is spelled out and ends; what it builds must not bring the interpreter
        // down (these get an instruction budget of 80 million instead of 300 000)
        ("long-run:nest-1M-then-call", "functie f() { 0 }; stel a = [1.5]; stel i = 0; zolang i < 1000000 { a = [a]; i += 1 }; f(); print(\"klaar\")".into()),
        // (handing a result over searches the collector's list once per object: quadratic, so 120 000 and not a million)
        ("long-run:nest-120k-as-result", "stel a = [\"diep\"]; stel i = 0; zolang i < 120000 { a = [a]; i += 1 }; a".into()),
        ("long-run:nest-1M-builtins", "stel a = [1.5]; stel i = 0; zolang i < 1000000 { a = [a]; i += 1 }; print(a); [lengte(a), type(a), lengte(string(a)), bool(a)]".into()),
        ("long-run:nest-1M-from-function", "functie bouw(n) { stel a = [1.5]; stel i = 0; zolang i < n { a = [a]; i += 1 }; a }; stel r = bouw(1000000); stel s = bouw(10); [lengte(r), lengte(s)]".into()),
        ("long-run:nest-1M-dropped-then-collect", "functie f() { [2.5] }; stel a = [1.5]; stel i = 0; zolang i < 1000000 { a = [a]; i += 1 }; a = 0; f(); f()".into()),
        ("long-run:nest-both-ways-300k", "functie f() { 0 }; stel a = [1.5]; stel b = [a]; stel i = 0; zolang i < 300000 { a = [a, b]; b = [b, a]; i += 1 }; f(); lengte(a)".into()),
        ("long-run:string-grow-100k", "stel s = \"\"; stel i = 0; zolang i < 100000 { s = s + \"é\"; i += 1 }; [lengte(s), s[-1]]".into()),
        ("long-run:string-set-100k", "stel s = \"abcdefghij\"; stel i = 0; zolang i < 100000 { s[i % 10] = \"é\"; i += 1 }; s".into()),
        ("long-run:calls-1M", "functie f(x) { [x] }; stel i = 0; stel r = 0; zolang i < 1000000 { r = f(i); i += 1 }; r".into()),
        ("long-sum-30k", format!("1{}", rep(" + 1", 30_000))),
        ("long-sum-300k", format!("1{}", rep(" + 1", 300_000))),
        ("long-array-70k", format!("[{}]", rep("1, ", 70_000))),
        ("many-args-300", format!("functie f() {{ 1 }} f({})", rep("1, ", 300))),
        ("many-args-300-print", format!("print({})", rep("1, ", 300))),
        ("many-params-300", format!("functie f({}) {{ 1 }} f()", (0..300).map(|i| format!("p{}", i)).collect::<Vec<_>>().join(", "))),
        ("many-constants-70k", (0..70_000).map(|i| format!("{};", i)).collect::<String>()),
        ("many-locals-70k", format!("functie f() {{ {} 1 }} f()", (0..70_000).map(|i| format!("stel v{} = {};", i, i)).collect::<String>())),
        ("many-globals-70k", (0..70_000).map(|i| format!("stel v{} = 1;", i)).collect::<String>()),
        ("big-code-jump", format!("als ja {{ {} }} anders {{ 2 }}", rep("1;", 40_000))),
        ("big-code-loop", format!("stel i = 0; zolang i < 2 {{ i += 1; {} }}", rep("1;", 40_000))),
        ("deep-recursion", "functie f(n) { f(n + 1) } f(0)".into()),
        ("deep-recursion-locals", "functie f(n) { stel a = 1; stel b = 2; stel c = [n]; f(n + 1) + 1 } f(0)".into()),
        ("deep-recursion-mutual", "functie g(n) { h(n) } functie h(n) { g(n + 1) } g(0)".into()),
        ("stack-growth-loop", "stel i = 0; zolang i < 200000 { i += 1; {} }".into()),
        ("string-growth", "stel s = \"a\"; stel i = 0; zolang i < 30 { i += 1; s[0] = s }; lengte(s)".into()),
        ("huge-string-literal", format!("\"{}\"", rep("é", 200_000))),
        ("huge-identifier", rep("a", 200_000)),
        ("huge-number", rep("9", 200_000)),
        ("huge-float", format!("{}.5", rep("9", 2_000))),
        ("print-non-string-format", "print(1, 2, 3)".into()),
        ("print-braces", "print(\"{{}} {} {\", 1)".into()),
        ("lengte-arity", "lengte()".into()),
        ("type-arity", "type(1, 2)".into()),
        ("builtin-shadow", "stel print = 1; print(2)".into()),
        ("index-huge", "[1][1152921504606846975]".into()),
        ("index-min", "[1][-1152921504606846975 - 1]".into()),
        ("string-index-huge", "\"abc\"[1152921504606846975]".into()),
        ("string-index-assign-huge", "stel s = \"abc\"; s[-1152921504606846975 - 1] = \"x\"".into()),
        ("op-assign-on-index", "stel a = [1]; a[0] += 1".into()),
        ("chained-assign", "stel a = 1; stel b = 2; a = b = 3".into()),
        ("while-value", "stel r = zolang nee { 1 }; r".into()),
        ("if-decl-value", "stel r = als ja { stel a = 1 }; r".into()),
        ("block-leak", "functie f() { stel i = 0; zolang i < 70000 { i += 1; {} }; i } f()".into()),
        ("pending-operand-continue", "stel i = 0; stel x = 0; zolang i < 70000 { i += 1; x = 1 + als i > 0 { volgende } anders { 2 } }; functie f(a) { a } f(x)".into()),
    ];
    v.push(("deep-array-nesting-gc", "functie f() { 1 } stel a = []; stel i = 0; zolang i < 100000 { a = [a]; i += 1 }; f(); lengte(a)".into()));
    v.push(("deep-array-nesting-print", "stel a = []; stel i = 0; zolang i < 100000 { a = [a]; i += 1 }; print(a)".into()));
    v.push(("deep-array-nesting-result", "stel a = []; stel i = 0; zolang i < 100000 { a = [a]; i += 1 }; a".into()));
    for (name, open, close) in [
        ("depth-250-parens", "(", ")"),
        ("depth-250-brackets", "[", "]"),
        ("depth-120-als", "als ja { ", " }"),
        ("depth-120-functie", "functie() { ", " }"),
        ("depth-250-blocks", "{", "}"),
        ("depth-250-minus", "-", ""),
    ] {
        let k = if name.contains("120") { 120 } else { 250 };
        v.push((name, format!("{}1{}", rep(open, k), rep(close, k))));
    }
    v.push(("sum-250-terms", format!("1{}", rep(" + 1", 250))));
    // long runs of what the lexer skips (it used to call itself for each blank and each comment: §13)
    v.push(("blanks-300k", format!("{}1", rep(" ", 300_000))));
    v.push(("newlines-300k", format!("{}1", rep("\n", 300_000))));
    v.push(("tabs-and-crlf-200k", format!("1 +{}2", rep("\t\r\n", 200_000))));
    v.push(("comment-lines-100k", format!("{}1", rep("// niets\n", 100_000))));
    v.push(("empty-comment-lines-200k", format!("{}1", rep("//\n", 200_000))));
    v.push(("blanks-then-eof-300k", rep(" ", 300_000)));
    v.push(("wide-blanks-100k", format!("{}1", rep("\u{2028}\u{200e}", 100_000))));
    // recursion that never ends and takes no stack slot: only the list of frames grows (no instruction budget for
    // these — they must end in the interpreter's own error, §13)
    v.push(("endless-recursion:no-slots", "functie f() { f() } f()".into()));
    v.push(("endless-recursion:no-slots-literal", "stel f = functie() { f() }; f()".into()));
    v.push(("endless-recursion:no-slots-mutual", "stel b = 0; functie a() { b() } b = functie() { a() }; a()".into()));
    v.push(("endless-recursion:no-slots-in-function", "functie buiten() { functie f() { f() } f() } buiten()".into()));
    v.push(("endless-recursion:no-slots-value-used", "functie f() { 1 + f() } f()".into()));
    for (name, k) in [("deep-parens-2k", 2_000usize), ("deep-parens-10k", 10_000)] {
        v.push((name, format!("{}1{}", rep("(", k), rep(")", k))));
    }
    v
}

impl C05 {
    pub fn new() -> Self {
        let mut examples = vec![];
        if let Ok(rd) = std::fs::read_dir("/repo/examples") {
            let mut names: Vec<_> = rd.filter_map(|e| e.ok()).map(|e| e.path()).filter(|p| p.extension().map(|x| x == "nl").unwrap_or(false)).collect();
            names.sort();
            for p in names {
                if let Ok(s) = std::fs::read_to_string(&p) {
                    examples.push(s);
                }
            }
        }
        C05 { examples, directed: directed(), scale: Default::default() }
    }

    fn fams(&self, ctx: &Ctx) -> Families {
        let (soups, edits, trunc, noise) = match (ctx.flavour, ctx.tier) {
            (Flavour::Rel, Tier::Quick) => (150_000, 100_000, 600, 30_000),
            (Flavour::Rel, Tier::Thorough) => (5_000_000, 3_000_000, 20_000, 1_000_000),
            // the workload that is run natively under valgrind memcheck (run_valgrind_inproc)
            (Flavour::Miri, _) => (600, 800, 400, 200),
            (_, Tier::Quick) => (5_000, 5_000, 40, 2_000),
            (_, Tier::Thorough) => (100_000, 100_000, 500, 30_000),
        };
        Families::new(vec![
            ("directed", self.directed.len() as u64),
            ("soup", soups),
            ("token-edits", edits),
            ("truncations", trunc),
            ("noise", noise),
            ("binary", if ctx.flavour == Flavour::Rel { 3 } else { 0 }),
            ("scale", if ctx.flavour == Flavour::Miri { 0 } else { self.scale_len(ctx) }),
        ])
    }

    fn scale_len(&self, ctx: &Ctx) -> u64 {
        let mut s = self.scale.borrow_mut();
        if s.is_none() {
            *s = Some(crate::scale::programs_for(ctx.flavour, Tier::Quick));
        }
        s.as_ref().unwrap().len() as u64
    }

    fn cfg(ctx: &Ctx) -> ObsCfg {
        match ctx.flavour {
            Flavour::Asan => ObsCfg::plain(300_000),
            Flavour::Miri => ObsCfg::plain(20_000),
            _ => {
                let mut c = ObsCfg::default();
                c.budget = Some(300_000);
                c
            }
        }
    }

    fn inputs(&self, ctx: &Ctx, idx: u64) -> (&'static str, Vec<String>) {
        let (f, name, i) = self.fams(ctx).locate(idx);
        let mut r = Rng::for_case(ctx.seed, 500 + f as u64, i);
        let v = match name {
            "directed" => vec![self.directed[i as usize].1.clone()],
            "scale" => {
                self.scale_len(ctx);
                vec![self.scale.borrow().as_ref().unwrap()[i as usize].1.clone()]
            }
            "soup" => vec![if i % 2 == 0 { mutate::soup(&mut r) } else { mutate::structured_soup(&mut r) }],
            "token-edits" => {
                let base: Vec<String> = if i % 10 == 0 && !self.examples.is_empty() {
                    // tokens of an example file: split on whitespace (good enough for editing)
                    self.examples[(i / 10) as usize % self.examples.len()].split_whitespace().map(|s| s.to_string()).collect()
                } else {
                    let (p, _) = random_program(&mut r, PROFILES[(i % 6) as usize]);
                    mutate::tokens_of(&p)
                };
                let mut t = base;
                let n = 1 + r.below(3);
                for _ in 0..n {
                    t = mutate::edit_tokens(&t, &mut r).0;
                }
                vec![mutate::join(&t)]
            }
            "truncations" => {
                let text = if i % 5 == 0 && !self.examples.is_empty() {
                    self.examples[(i / 5) as usize % self.examples.len()].clone()
                } else {
                    let (p, _) = random_program(&mut r, PROFILES[(i % 6) as usize]);
                    to_text(&p)
                };
                mutate::truncations(&text)
            }
            "noise" => {
                if i % 2 == 0 {
                    vec![mutate::noise(&mut r)]
                } else {
                    let (p, _) = random_program(&mut r, PROFILES[(i % 6) as usize]);
                    vec![mutate::inject_noise(&to_text(&p), &mut r)]
                }
            }
            _ => vec![],
        };
        (name, v)
    }

    fn judge(&self, text: &str, cfg: &ObsCfg, fam: &str, label: &str, st: &mut Stats) {
        st.evaluations += 1;
        let o = eval_observed(text, cfg);
        let stage = if o.count > 0 { "ran" } else { "front-end-only" };
        st.count(&format!("stage:{}", stage));
        st.count(&format!("outcome:{}", o.outcome.class().split('@').next().unwrap_or("?")));
        match &o.outcome {
            Outcome::Value(_) | Outcome::Error(..) | Outcome::Budget => {}
            Outcome::Panic(loc, msg) => {
                let class: String = msg.chars().take(40).collect();
                st.violation(&format!("{}:{}panic@{}", fam, label, crate::obs::short_loc(loc)), format!("panic at {}: {} [{}]", loc, crate::obs::clip(msg, 200), class), text);
            }
            Outcome::Stop => {
                let c = o.events.first().map(event_class).unwrap_or_default();
                st.violation(&format!("{}:{}would-be-undefined-behaviour:{}", fam, label, c), format!("monitor stopped the run: {:?}", o.events), text);
            }
        }
        if matches!(o.outcome, Outcome::Value(_) | Outcome::Error(..)) && text.split_whitespace().count() >= 3 {
            st.distinct_hash(hash_str(text));
        }
    }

    /// `<bin> <args>` under a CPU-time limit (RLIMIT_CPU: the process gets SIGXCPU once it has *computed* for that long,
    /// however loaded the machine is) and a generous wall-clock watchdog whose firing decides nothing.
    fn limited(bin: &str, args: &[&str], cpu_s: u32) -> Command {
        let mut c = Command::new("bash");
        // soft limit below the hard one: SIGXCPU (24) at the soft limit is the verdict; at the hard limit the kernel
        // sends SIGKILL, which says nothing
        c.arg("-c").arg(format!("ulimit -v 3000000; ulimit -S -t {}; ulimit -H -t {}; exec timeout {} \"$0\" \"$@\"", cpu_s, cpu_s + 10, cpu_s * 40)).arg(bin);
        for a in args {
            c.arg(a);
        }
        c
    }

    /// how a limited run ended: None = normally
    fn ending(o: &std::process::Output) -> Option<String> {
        use std::os::unix::process::ExitStatusExt;
        let err = String::from_utf8_lossy(&o.stderr);
        let code = o.status.code();
        if code == Some(0) {
            None
        } else if o.status.signal() == Some(24) || code == Some(128 + 24) {
            Some("hang".to_string())
        } else if code == Some(124) {
            Some("watchdog".to_string())
        } else if err.contains("panicked") {
            Some("panic".to_string())
        } else if err.contains("memory allocation of") {
            Some("abort:alloc".to_string())
        } else if err.contains("has overflowed its stack") {
            Some("abort:stack-overflow".to_string())
        } else {
            Some(format!("exit:{:?}:signal:{:?}", code, o.status.signal()))
        }
    }

    /// the shipped binary: file mode and the interactive prompt on stdin
    fn binary_case(&self, which: u64, quick: bool, st: &mut Stats) {
        self.binary_case_with("release", which, quick, st);
        if which < 2 {
            // the dev-profile binary (what `cargo run` gives): no tail calls turned into loops, bigger frames, debug
            // assertions and overflow checks
            self.binary_case_with("debug", which, quick, st);
        }
    }

    fn binary_case_with(&self, profile: &str, which: u64, quick: bool, st: &mut Stats) {
        let bin_s = format!("{}/harness/target-repo/{}/nederlang", crate::sup::root(), profile);
        let bin = bin_s.as_str();
        if !std::path::Path::new(bin).exists() {
            st.inconclusive(format!("{} not built", bin));
            return;
        }
        let dev = profile == "debug";
        let tag = if dev { "dev-" } else { "" };
        let dir = crate::sup::scratch_dir();
        let small: Vec<(&'static str, String)> = self.directed.iter().cloned().filter(|(n, t)| (t.len() < 4096 || n.contains("blanks") || n.contains("lines-")) && !t.contains("zolang ja") && !t.contains("f(n + 1)") && !t.contains("g(n + 1)") && !t.contains("200000") && !t.contains("70000")).filter(|(n, _)| !(dev && n.starts_with("long-run:"))).collect();
        match which {
            0 => {
                // nederlang <file>: files that are not text (the bytes are not UTF-8)
                for (name, bytes) in RAW_INPUTS {
                    let p = format!("{}/c05-raw-{}-{}.nl", dir, std::process::id(), name);
                    let _ = std::fs::write(&p, bytes);
                    let out = Self::limited(bin, &[&p], 5).stdin(Stdio::null()).output();
                    let _ = std::fs::remove_file(&p);
                    st.evaluations += 1;
                    st.count(&format!("binary:{}raw-byte-file-runs", tag));
                    if let Ok(o) = out {
                        if let Some(how) = Self::ending(&o) {
                            if how == "watchdog" {
                                st.inconclusive(format!("`nederlang <file>` ({}) did not finish within the watchdog", name));
                            } else {
                                st.violation(&format!("binary-{}file:{}:{}", tag, name, how), format!("`nederlang <file>` ended with {:?}; stderr: {}", o.status, crate::obs::clip(&String::from_utf8_lossy(&o.stderr), 300)), &format!("{:?}", String::from_utf8_lossy(bytes)));
                            }
                        }
                    }
                }
                for (name, text) in &small {
                    let p = format!("{}/c05-{}-{}.nl", dir, std::process::id(), name);
                    let _ = std::fs::write(&p, text);
                    let out = Self::limited(bin, &[&p], if dev || name.starts_with("long-run:") { 60 } else { 5 }).stdin(Stdio::null()).output();
                    let _ = std::fs::remove_file(&p);
                    st.evaluations += 1;
                    st.count(&format!("binary:{}file-runs", tag));
                    if let Ok(o) = out {
                        let err = String::from_utf8_lossy(&o.stderr);
                        match Self::ending(&o) {
                            None => {}
                            Some(how) if how == "watchdog" => st.inconclusive(format!("`nederlang <file>` ({}) did not finish within the wall-clock watchdog without using 5 s of CPU time", name)),
                            Some(how) => st.violation(&format!("binary-{}file:{}:{}", tag, name, how), format!("`nederlang <file>` ended with {:?}; stderr: {}", o.status, crate::obs::clip(&err, 300)), text),
                        }
                    }
                }
            }
            1 => {
                // the prompt: lines that are not text, then an ordinary line, then EOF
                for (name, bytes) in RAW_INPUTS {
                    let child = Self::limited(bin, &[], 5).stdin(Stdio::piped()).stdout(Stdio::piped()).stderr(Stdio::piped()).spawn();
                    let mut child = match child {
                        Ok(c) => c,
                        Err(_) => continue,
                    };
                    if let Some(mut i) = child.stdin.take() {
                        let _ = i.write_all(bytes);
                        let _ = i.write_all(b"\n40 + 2\n");
                    }
                    st.evaluations += 1;
                    st.count(&format!("binary:{}raw-byte-prompt-runs", tag));
                    if let Ok(o) = child.wait_with_output() {
                        match Self::ending(&o) {
                            Some(how) if how == "watchdog" => st.inconclusive("the prompt did not finish within the watchdog".to_string()),
                            Some(how) => st.violation(&format!("binary-{}prompt:{}:{}", tag, name, how), format!("the prompt ended with {:?}; stderr: {}", o.status, crate::obs::clip(&String::from_utf8_lossy(&o.stderr), 300)), &format!("{:?}", String::from_utf8_lossy(bytes))),
                            None => {
                                // and it went on with the next line
                                if !String::from_utf8_lossy(&o.stdout).contains("42") {
                                    st.violation(&format!("binary-{}prompt:{}:next-line-not-evaluated", tag, name), format!("after the line that is not text the prompt did not evaluate `40 + 2`: stdout {:?}", crate::obs::clip(&String::from_utf8_lossy(&o.stdout), 200)), &format!("{:?}", String::from_utf8_lossy(bytes)));
                                }
                            }
                        }
                    }
                }
                // the prompt, one process per input line, then EOF
                for (k, (name, text)) in small.iter().enumerate() {
                    let _ = name;
                    if text.contains('\n') || (quick && k % 4 != 0) {
                        continue;
                    }
                    let child = Self::limited(bin, &[], if dev || name.starts_with("long-run:") { 60 } else { 5 }).stdin(Stdio::piped()).stdout(Stdio::null()).stderr(Stdio::piped()).spawn();
                    let mut child = match child {
                        Ok(c) => c,
                        Err(_) => continue,
                    };
                    if let Some(mut i) = child.stdin.take() {
                        let _ = writeln!(i, "{}", text);
                        let _ = writeln!(i, "1 + 1");
                    }
                    st.evaluations += 1;
                    st.count(&format!("binary:{}prompt-runs", tag));
                    if let Ok(o) = child.wait_with_output() {
                        let err = String::from_utf8_lossy(&o.stderr);
                        match Self::ending(&o) {
                            None => {}
                            Some(how) if how == "watchdog" => st.inconclusive("the prompt did not finish within the wall-clock watchdog without using 5 s of CPU time".to_string()),
                            Some(how) => st.violation(&format!("binary-{}prompt:{}", tag, how), format!("the prompt ended with {:?} after this line and end of input; stderr: {}", o.status, crate::obs::clip(&err, 300)), text),
                        }
                    }
                }
            }
            _ => {
                // examples through the binary
                for f in ["fib-loop.nl", "voorbeeld.nl", "selectie-sorteer.nl", "juffen.nl"] {
                    let out = Self::limited(bin, &[&format!("/repo/examples/{}", f)], 60).stdin(Stdio::null()).output();
                    st.evaluations += 1;
                    st.count("binary:example-runs");
                    if let Ok(o) = out {
                        match Self::ending(&o) {
                            None => {}
                            Some(how) if how == "watchdog" => st.inconclusive(format!("examples/{} did not finish within the wall-clock watchdog without using 60 s of CPU time", f)),
                            Some(how) => st.violation(&format!("binary-example:{}:{}", f, how), format!("{:?}: {}", o.status, String::from_utf8_lossy(&o.stderr)), f),
                        }
                    }
                }
            }
        }
    }
}

/// inputs that are not text: byte sequences that are not UTF-8
const RAW_INPUTS: &[(&str, &[u8])] = &[
    ("invalid-utf8-in-a-comment", b"1 // \xff"),
    ("invalid-utf8-in-a-string", b"\"a\xffb\""),
    ("invalid-utf8-alone", b"\xff"),
    ("invalid-utf8-in-an-identifier", b"stel caf\xe9 = 1; caf\xe9"),
    ("truncated-multi-byte-character-at-the-end", b"\"caf\xc3"),
    ("overlong-encoding", b"1 \xc0\xaf 2"),
    ("utf16-with-byte-order-mark", b"\xff\xfe1\x00+\x001\x00"),
    ("encoded-surrogate", b"\"\xed\xa0\x80\""),
    ("beyond-the-last-code-point", b"\"\xf4\x90\x80\x80\""),
    ("continuation-byte-alone", b"stel a = 1 \x80 + 1"),
];

impl Check for C05 {
    fn id(&self) -> &'static str {
        "C05"
    }
    fn total_cases(&self, ctx: &Ctx) -> u64 {
        self.fams(ctx).total()
    }
    fn chunk_size(&self, _ctx: &Ctx) -> u64 {
        500
    }
    fn chunk_timeout_s(&self, _ctx: &Ctx) -> u64 {
        120
    }
    fn case_timeout_s(&self, _ctx: &Ctx) -> u64 {
        30
    }
    fn describe_case(&mut self, ctx: &Ctx, idx: u64) -> String {
        let (name, v) = self.inputs(ctx, idx);
        if name == "truncations" {
            v.last().cloned().unwrap_or_default()
        } else {
            v.first().cloned().unwrap_or_else(|| name.to_string())
        }
    }
    fn death_signature(&self, ctx: &Ctx, idx: u64, how: &str) -> Option<String> {
        let (_, name, i) = self.fams(ctx).locate(idx);
        // Running out of memory (the worker's address space is capped) is the fate of a program that spells out
        // exponential growth — `x = [x, x]` or `s = s + s` in a loop that an edit made endless — just as running
        // forever is the fate of `zolang ja { }`: the property excepts what the program itself spells out. Without a
        // loop or a function in the input, memory exhaustion is the interpreter's doing and stays a finding.
        if how.starts_with("abort:alloc") && name != "directed" {
            let (_, inputs) = self.inputs(ctx, idx);
            if inputs.iter().any(|t| t.contains("zolang") || t.contains("functie")) {
                return None;
            }
        }
        if name == "directed" {
            Some(format!("directed:{}:{}", self.directed[i as usize].0, how))
        } else {
            Some(format!("{}:{}", name, how))
        }
    }

    fn run_case(&mut self, ctx: &Ctx, idx: u64, st: &mut Stats) {
        let (f, name, i) = self.fams(ctx).locate(idx);
        let _ = f;
        if name == "binary" {
            self.binary_case(i, ctx.tier == Tier::Quick, st);
            return;
        }
        let mut cfg = Self::cfg(ctx);
        let (_, inputs) = self.inputs(ctx, idx);
        if name == "directed" && self.directed[i as usize].0.starts_with("long-run:") {
            cfg.budget = Some(80_000_000);
        }
        if name == "scale" {
            cfg.budget = Some(5_000_000);
        }
        if name == "directed" && self.directed[i as usize].0.starts_with("endless-recursion:") && ctx.flavour != Flavour::Miri {
            // the interpreter's own limit has to end these, not the hook's budget (the worker's address space is capped)
            cfg.budget = None;
        }
        st.count(&format!("inputs:{}", name));
        let label = if name == "directed" { format!("{}:", self.directed[i as usize].0) } else { String::new() };
        for t in &inputs {
            if t.len() > 3_000_000 {
                continue;
            }
            // under a memory checker (25 times slower): not the inputs that are big or run for millions of instructions
            if ctx.flavour == Flavour::Miri && (t.len() > 4096 || label.starts_with("long-run:") || t.contains("zolang ja") || t.contains("n + 1)")) {
                st.count("skipped-under-memory-checker");
                continue;
            }
            self.judge(t, &cfg, name, &label, st);
        }
        if idx % 20011 == 0 {
            if let Some(t) = inputs.first() {
                st.sample(&format!("[{}] {}", name, crate::obs::clip(t, 200)));
            }
        }
    }

    fn summarize(&self, ctx: &Ctx, merged: &Stats) -> Summary {
        let fams = self.fams(ctx);
        let mut inconclusive = vec![];
        if merged.counters.get("stage:ran").copied().unwrap_or(0) < 100 {
            inconclusive.push("too few inputs got past the compiler".to_string());
        }
        Summary {
            rule: "case = one input text (directed boundary corpus; random and bracket-balanced token soups; 1-3 token edits of generated programs and of examples/*.nl; every prefix of a program at a char boundary; Unicode noise alone and injected into programs), evaluated in a worker process with probes, quarantine shadow heap and a 300 000-instruction budget; allowed outcomes are a value, one of the five error kinds, or budget exhaustion inside the VM loop. A panic, a monitor stop, a worker death (signal / abort) or a front-end hang that repeats in isolation is a violation. distinct_nontrivial = distinct inputs of >= 3 words that ended in a value or an error".to_string(),
            exhaustive: None,
            extra: json!({
                "families": fams.fams.iter().map(|f| json!({"name": f.0, "cases": f.1})).collect::<Vec<_>>(),
                "directed_cases": self.directed.len(),
            }),
            assumptions: vec!["inputs larger than 3 MB and non-UTF-8 files are out of scope".to_string(), "a worker killed by SIGKILL or a hang that does not repeat alone is inconclusive, not a violation".to_string(), "memory exhaustion (address space capped at 3 GiB per worker) by an input that contains a loop or a function is counted as not judged, like the endless loop the property excepts".to_string()],
            inconclusive,
        }
    }

    fn post(&mut self, ctx: &Ctx, merged: &mut Stats) {
        if ctx.flavour == Flavour::Rel {
            // a few thousand inputs of every family natively under valgrind memcheck (both tiers)
            let mctx = Ctx { seed: ctx.seed, tier: ctx.tier, flavour: Flavour::Miri };
            let n = self.fams(&mctx).total();
            crate::sup::run_valgrind_inproc("C05", ctx, n, 16, merged);
            crate::sup::run_sub_flavour("C05", ctx, Flavour::Dbg, merged);
            if ctx.tier == Tier::Thorough {
                crate::sup::run_sub_flavour("C05", ctx, Flavour::Asan, merged);
            }
        }
    }
}
