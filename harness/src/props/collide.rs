//! Names and literals that collide under the hash functions a maintainer would reach for.
//!
//! A symbol table, a constant pool or an interning table that compares hashes instead of texts is right for every
//! input whose hashes differ — all inputs of a generator that draws from a fixed pool of names. Three workloads aim at
//! it:
//!  * **colliding pairs**: for each of some twenty standard string hashes (FNV-1 / FNV-1a, djb2 / djb2a, sdbm, the
//!    31- / 33- / 37- / 131- / 257-polynomials, CRC-32, Murmur3, Adler-32, byte sums, 64-bit FNV folded or
//!    truncated, 16-bit truncations) pairs of word-like identifiers with equal hash, found by a birthday search at
//!    start-up, plus the pairs known from the literature;
//!  * **Thue–Morse words**: the word t_k over {a, b} and its complement collide under *every* polynomial hash
//!    modulo 2^64 once k >= 10 (1 024 characters), whatever the multiplier;
//!  * **many names / many literals**: tens of thousands of distinct random names (or string, integer and float
//!    literals) in one program — 60 000 of them contain a colliding pair under any unknown 32-bit hash with
//!    probability 1/3 per set — each read back.
//! The expectation never needs a reference: distinct names hold distinct values, distinct literals evaluate to
//! themselves, and an undeclared name is refused.

use crate::rng::Rng;
use std::collections::HashMap;
use std::sync::OnceLock;

const KEYWORDS: &[&str] = &["als", "anders", "zolang", "stel", "functie", "antwoord", "stop", "volgende", "ja", "nee", "print", "lengte", "type", "int", "float", "string", "bool"];

fn fnv1a32(b: &[u8]) -> u32 {
    let mut h: u32 = 0x811c9dc5;
    for x in b {
        h ^= *x as u32;
        h = h.wrapping_mul(0x01000193);
    }
    h
}
fn fnv1_32(b: &[u8]) -> u32 {
    let mut h: u32 = 0x811c9dc5;
    for x in b {
        h = h.wrapping_mul(0x01000193);
        h ^= *x as u32;
    }
    h
}
fn fnv1a64(b: &[u8]) -> u64 {
    let mut h: u64 = 0xcbf29ce484222325;
    for x in b {
        h ^= *x as u64;
        h = h.wrapping_mul(0x100000001b3);
    }
    h
}
fn fnv1a64_low(b: &[u8]) -> u32 {
    fnv1a64(b) as u32
}
fn fnv1a64_fold(b: &[u8]) -> u32 {
    let h = fnv1a64(b);
    (h ^ (h >> 32)) as u32
}
fn djb2(b: &[u8]) -> u32 {
    let mut h: u32 = 5381;
    for x in b {
        h = h.wrapping_mul(33).wrapping_add(*x as u32);
    }
    h
}
fn djb2a(b: &[u8]) -> u32 {
    let mut h: u32 = 5381;
    for x in b {
        h = h.wrapping_mul(33) ^ (*x as u32);
    }
    h
}
fn sdbm(b: &[u8]) -> u32 {
    let mut h: u32 = 0;
    for x in b {
        h = (*x as u32).wrapping_add(h << 6).wrapping_add(h << 16).wrapping_sub(h);
    }
    h
}
fn poly(b: &[u8], m: u32) -> u32 {
    let mut h: u32 = 0;
    for x in b {
        h = h.wrapping_mul(m).wrapping_add(*x as u32);
    }
    h
}
fn poly31(b: &[u8]) -> u32 {
    poly(b, 31)
}
fn poly37(b: &[u8]) -> u32 {
    poly(b, 37)
}
fn poly131(b: &[u8]) -> u32 {
    poly(b, 131)
}
fn poly257(b: &[u8]) -> u32 {
    poly(b, 257)
}
fn poly1000003(b: &[u8]) -> u32 {
    poly(b, 1_000_003)
}
fn poly64_low(b: &[u8]) -> u32 {
    let mut h: u64 = 0;
    for x in b {
        h = h.wrapping_mul(0x100000001b3).wrapping_add(*x as u64);
    }
    (h >> 32) as u32
}
fn crc32(b: &[u8]) -> u32 {
    let mut c: u32 = !0;
    for x in b {
        c ^= *x as u32;
        for _ in 0..8 {
            c = if c & 1 != 0 { (c >> 1) ^ 0xEDB88320 } else { c >> 1 };
        }
    }
    !c
}
fn murmur3(b: &[u8]) -> u32 {
    let (c1, c2) = (0xcc9e2d51u32, 0x1b873593u32);
    let mut h: u32 = 0;
    let mut chunks = b.chunks_exact(4);
    for c in &mut chunks {
        let mut k = u32::from_le_bytes([c[0], c[1], c[2], c[3]]);
        k = k.wrapping_mul(c1).rotate_left(15).wrapping_mul(c2);
        h = (h ^ k).rotate_left(13).wrapping_mul(5).wrapping_add(0xe6546b64);
    }
    let rem = chunks.remainder();
    let mut k: u32 = 0;
    for (i, x) in rem.iter().enumerate() {
        k |= (*x as u32) << (8 * i);
    }
    if !rem.is_empty() {
        k = k.wrapping_mul(c1).rotate_left(15).wrapping_mul(c2);
        h ^= k;
    }
    h ^= b.len() as u32;
    h ^= h >> 16;
    h = h.wrapping_mul(0x85ebca6b);
    h ^= h >> 13;
    h = h.wrapping_mul(0xc2b2ae35);
    h ^ (h >> 16)
}
fn adler32(b: &[u8]) -> u32 {
    let (mut a, mut s) = (1u32, 0u32);
    for x in b {
        a = (a + *x as u32) % 65521;
        s = (s + a) % 65521;
    }
    (s << 16) | a
}
fn bytesum(b: &[u8]) -> u32 {
    b.iter().map(|x| *x as u32).sum()
}
fn xorbytes(b: &[u8]) -> u32 {
    b.iter().fold(b.len() as u32, |a, x| a.rotate_left(5) ^ (*x as u32))
}
fn fnv1a16(b: &[u8]) -> u32 {
    fnv1a32(b) & 0xffff
}
fn fnv1a24(b: &[u8]) -> u32 {
    fnv1a32(b) & 0xff_ffff
}
fn djb2_16(b: &[u8]) -> u32 {
    djb2(b) & 0xffff
}
fn first_last_len(b: &[u8]) -> u32 {
    ((b[0] as u32) << 16) | ((b[b.len() - 1] as u32) << 8) | (b.len() as u32 & 0xff)
}

pub const HASHES: &[(&str, fn(&[u8]) -> u32)] = &[
    ("fnv1a-32", fnv1a32),
    ("fnv1-32", fnv1_32),
    ("fnv1a-64-low32", fnv1a64_low),
    ("fnv1a-64-folded", fnv1a64_fold),
    ("djb2", djb2),
    ("djb2a", djb2a),
    ("sdbm", sdbm),
    ("poly-31", poly31),
    ("poly-37", poly37),
    ("poly-131", poly131),
    ("poly-257", poly257),
    ("poly-1000003", poly1000003),
    ("poly-64-high32", poly64_low),
    ("crc-32", crc32),
    ("murmur3-32", murmur3),
    ("adler-32", adler32),
    ("byte-sum", bytesum),
    ("rotate-xor", xorbytes),
    ("fnv1a-low16", fnv1a16),
    ("fnv1a-low24", fnv1a24),
    ("djb2-low16", djb2_16),
    ("first-last-length", first_last_len),
];

const KNOWN: &[(&str, &str, &str)] = &[
    ("fnv1a-32 (literature)", "costarring", "liquid"),
    ("fnv1a-32 (literature)", "declinate", "macallums"),
    ("fnv1a-32 (literature)", "altarage", "zinke"),
    ("fnv1a-32 (literature)", "altarages", "zinkes"),
    ("fnv1-32 (literature)", "creamwove", "quists"),
    ("java hashCode", "Aa", "BB"),
    ("java hashCode", "AaAa", "BBBB"),
    ("java hashCode", "AaBB", "BBAa"),
    ("java hashCode", "Ea", "FB"),
    ("djb2 (literature)", "hetairas", "mentioner"),
    ("djb2 (literature)", "heliotropes", "neurospora"),
    ("djb2 (literature)", "depravement", "serafins"),
    ("djb2 (literature)", "stylist", "subgenera"),
    ("djb2 (literature)", "joyful", "synaphea"),
    ("djb2 (literature)", "redescribed", "urites"),
    ("djb2 (literature)", "dram", "vivency"),
    ("djb2a (literature)", "playwright", "snush"),
    ("djb2a (literature)", "playwrighting", "snushing"),
    ("djb2a (literature)", "treponematoses", "waterbeds"),
    ("crc-32 (literature)", "plumless", "buckeroo"),
    ("crc-32 (literature)", "codding", "gnu"),
    ("crc-32 (literature)", "exhibiters", "schlager"),
    ("murmur2 (literature)", "cataract", "periti"),
    ("murmur2 (literature)", "roquette", "skivie"),
    ("murmur2 (literature)", "shawl", "stormbound"),
    ("murmur2 (literature)", "dowlases", "tramontane"),
    ("murmur2 (literature)", "cricketings", "twanger"),
    ("murmur2 (literature)", "longans", "whigs"),
    ("superfasthash (literature)", "dahabiah", "drapability"),
    ("superfasthash (literature)", "encharm", "enclave"),
    ("superfasthash (literature)", "grahams", "gramary"),
    ("sdbm (literature)", "appling", "bedaggle"),
    ("sdbm (literature)", "broadened", "kilohm"),
    ("fnv1a-32 (a seeded change's demonstration)", "kortwoord", "telplek"),
    ("fnv1a-32 (a seeded change's demonstration)", "cijfertekst", "fotouur"),
    ("fnv1a-32 (a seeded change's demonstration)", "baanclub", "nootkoek"),
    ("case-folding", "teller", "Teller"),
    ("case-folding", "som", "SOM"),
    ("prefix-of-8", "langenaam1", "langenaam2"),
    ("prefix-of-16", "eenheellangenaam_a", "eenheellangenaam_b"),
    ("prefix-of-31", "een_identifier_van_meer_dan_31_tekens_a", "een_identifier_van_meer_dan_31_tekens_b"),
    ("suffix", "a_teller", "b_teller"),
    ("anagram", "tak", "kat"),
    ("underscore", "_a", "a_"),
];

const SYL: &[&str] = &["ba", "be", "bo", "da", "de", "do", "fi", "ga", "ge", "ha", "he", "ka", "ke", "ko", "la", "le", "li", "lo", "ma", "me", "mi", "na", "ne", "no", "pa", "pe", "ra", "re", "ri", "ro", "sa", "se", "ta", "te", "ti", "to", "va", "ve", "wa", "we", "zo", "zu", "ui", "oe", "ij", "aa", "ee", "oo", "uu", "kl", "st", "nd", "rk", "ng", "cht"];

/// a word-like identifier (never a keyword, never a builtin)
pub fn word(r: &mut Rng) -> String {
    loop {
        let n = 2 + r.below(4);
        let mut w = String::new();
        for _ in 0..n {
            w.push_str(SYL[r.below(SYL.len() as u64) as usize]);
        }
        if r.chance(1, 8) {
            w.push_str(&format!("{}", r.below(100)));
        }
        if r.chance(1, 16) {
            w.insert(0, '_');
        }
        if !KEYWORDS.contains(&w.as_str()) {
            return w;
        }
    }
}

pub struct Pair {
    pub how: String,
    pub a: String,
    pub b: String,
}

/// colliding identifier pairs: searched for every hash of HASHES, plus the known ones
pub fn pairs() -> &'static Vec<Pair> {
    static P: OnceLock<Vec<Pair>> = OnceLock::new();
    P.get_or_init(|| {
        let mut out: Vec<Pair> = KNOWN.iter().map(|(h, a, b)| Pair { how: h.to_string(), a: a.to_string(), b: b.to_string() }).collect();
        // names (and, as literals, texts) that agree in their first N characters — or in all but one character somewhere —
        // for N around every length at which an implementation might stop looking
        for n in [7usize, 8, 15, 16, 31, 32, 63, 64, 127, 128, 255, 256, 1023, 1024, 4095, 4096, 65_535, 65_536, 70_000] {
            let stem: String = (0..n).map(|k| (b'a' + (k % 26) as u8) as char).collect();
            out.push(Pair { how: format!("equal-prefix-of-{}", n), a: format!("{}a", stem), b: format!("{}b", stem) });
            out.push(Pair { how: format!("equal-suffix-of-{}", n), a: format!("a{}", stem), b: format!("b{}", stem) });
            if n >= 15 {
                let mut m1: Vec<char> = stem.chars().collect();
                m1[n / 2] = 'X';
                out.push(Pair { how: format!("one-character-in-the-middle-of-{}", n), a: stem.clone(), b: m1.into_iter().collect() });
                out.push(Pair { how: format!("one-character-longer-than-{}", n), a: stem.clone(), b: format!("{}a", stem) });
            }
        }
        let mut r = Rng::new(0x5eed_c011);
        let mut words: Vec<String> = vec![];
        let mut seen = std::collections::HashSet::new();
        while words.len() < 400_000 {
            let w = word(&mut r);
            if seen.insert(w.clone()) {
                words.push(w);
            }
        }
        for (name, h) in HASHES {
            let mut first: HashMap<u32, u32> = HashMap::new();
            let mut found = 0;
            for (k, w) in words.iter().enumerate() {
                let v = h(w.as_bytes());
                if let Some(&j) = first.get(&v) {
                    out.push(Pair { how: name.to_string(), a: words[j as usize].clone(), b: w.clone() });
                    found += 1;
                    if found == 5 {
                        break;
                    }
                } else {
                    first.insert(v, k as u32);
                }
            }
        }
        out
    })
}

/// the Thue–Morse word of length 2^k over (x, y)
pub fn thue_morse(k: u32, x: char, y: char) -> String {
    (0..(1u32 << k)).map(|i| if i.count_ones() % 2 == 0 { x } else { y }).collect()
}

/// string pairs for literal pools: the identifier pairs, and Thue–Morse words with their complements
pub fn literal_pairs() -> Vec<(String, String, String)> {
    let mut v: Vec<(String, String, String)> = pairs().iter().map(|p| (p.how.clone(), p.a.clone(), p.b.clone())).collect();
    for k in [4u32, 6, 8, 10, 11, 12] {
        for (x, y) in [('a', 'b'), ('0', '1'), ('A', 'a')] {
            v.push((format!("thue-morse-2^{}", k), thue_morse(k, x, y), thue_morse(k, y, x)));
        }
    }
    // the same word with text in front of and behind it (a polynomial hash collides on the embedded words as well)
    v.push(("thue-morse-2^10-embedded".into(), format!("voor {} na", thue_morse(10, 'a', 'b')), format!("voor {} na", thue_morse(10, 'b', 'a'))));
    v
}

/// `n` distinct word-like names
pub fn distinct_names(r: &mut Rng, n: usize, style: u64) -> Vec<String> {
    let mut seen = std::collections::HashSet::new();
    let mut v = vec![];
    let letters: Vec<char> = "abcdefghijklmnopqrstuvwxyz".chars().collect();
    let mut k = 0u64;
    while v.len() < n {
        let w = match style {
            0 => word(r),
            1 => {
                // every short lowercase name in turn: a, b, …, z, aa, ab, …
                let mut x = k;
                k += 1;
                let mut s = String::new();
                loop {
                    s.insert(0, letters[(x % 26) as usize]);
                    if x < 26 {
                        break;
                    }
                    x = x / 26 - 1;
                }
                s
            }
            2 => {
                let len = 3 + r.below(10);
                let mut s = String::new();
                s.push(letters[r.below(26) as usize]);
                for _ in 0..len {
                    let c = r.below(38);
                    s.push(if c < 26 { letters[c as usize] } else if c < 36 { (b'0' + (c - 26) as u8) as char } else { '_' });
                }
                s
            }
            _ => {
                // letters beyond ASCII
                let pool: Vec<char> = "äëïöüéèêàçñøåßλπσωжюяあいう中文字".chars().collect();
                let len = 1 + r.below(5);
                let mut s: String = (0..len).map(|_| pool[r.below(pool.len() as u64) as usize]).collect();
                if r.chance(1, 2) {
                    s.push_str(&format!("{}", r.below(1000)));
                }
                s
            }
        };
        if !KEYWORDS.contains(&w.as_str()) && seen.insert(w.clone()) {
            v.push(w);
        }
    }
    v
}

// ------------------------------------------------------------------------------------------------------------------
// programs and their expectations

use crate::obs::{eval_observed, ObsCfg, Outcome};
use crate::val::ErrKind;
use crate::sup::Stats;
use crate::val::{same_val, Val};

pub enum Want {
    Value(Val),
    /// refused with a reference error before any output
    Reference,
}

fn ints(v: &[i64]) -> Val {
    Val::Array(v.iter().map(|x| Val::Int(*x)).collect())
}

/// the programs for one pair of names (a, b): each with what it must give
pub fn name_programs(a: &str, b: &str) -> Vec<(&'static str, String, Want, Vec<String>)> {
    let none: Vec<String> = vec![];
    vec![
        ("two-globals", format!("stel {a} = 1; stel {b} = 2; [{a}, {b}]", a = a, b = b), Want::Value(ints(&[1, 2])), none.clone()),
        ("undeclared-twin", format!("stel {a} = 1; print(\"x\"); {b}", a = a, b = b), Want::Reference, none.clone()),
        ("twin-in-inner-block", format!("stel {a} = 1; {{ stel {b} = 2; print({a}) }}; {a}", a = a, b = b), Want::Value(Val::Int(1)), vec!["1".to_string()]),
        ("parameter-and-local", format!("functie f({a}) {{ stel {b} = 5; {a} }} f(3)", a = a, b = b), Want::Value(Val::Int(3)), none.clone()),
        ("two-parameters", format!("functie f({a}, {b}) {{ [{a}, {b}] }} f(1, 2)", a = a, b = b), Want::Value(ints(&[1, 2])), none.clone()),
        ("undeclared-twin-in-function", format!("stel {a} = 1; print(\"x\"); functie f() {{ {b} }} 0", a = a, b = b), Want::Reference, none.clone()),
        ("two-functions", format!("functie {a}() {{ 1 }} functie {b}() {{ 2 }}; [{a}(), {b}()]", a = a, b = b), Want::Value(ints(&[1, 2])), none.clone()),
        ("assignment", format!("stel {a} = 1; stel {b} = 2; {a} = 3; [{a}, {b}]", a = a, b = b), Want::Value(ints(&[3, 2])), none.clone()),
        ("global-behind-local", format!("stel {b} = 7; functie f() {{ stel {a} = 1; {b} }} f()", a = a, b = b), Want::Value(Val::Int(7)), none.clone()),
        ("twin-out-of-scope", format!("{{ stel {a} = 1 }}; print(\"x\"); {b}", a = a, b = b), Want::Reference, none),
    ]
}

pub fn literal_programs(a: &str, b: &str) -> Vec<(&'static str, String, Want)> {
    let s = |x: &str| Val::Str(x.to_string());
    vec![
        ("both-in-an-array", format!("[\"{}\", \"{}\"]", a, b), Want::Value(Val::Array(vec![s(a), s(b)]))),
        ("second-after-first", format!("stel x = \"{}\"; stel y = \"{}\"; [x == y, y, x]", a, b), Want::Value(Val::Array(vec![Val::Bool(a == b), s(b), s(a)]))),
        ("first-as-statement", format!("\"{}\"; \"{}\"", a, b), Want::Value(s(b))),
        ("in-functions", format!("functie f() {{ \"{}\" }} functie g() {{ \"{}\" }}; [g(), f(), g()]", a, b), Want::Value(Val::Array(vec![s(b), s(a), s(b)]))),
        ("lengths", format!("stel t = [\"{}\", \"{}\"]; stel p = t[0]; stel q = t[1]; [lengte(q), q[0], p[0]]", a, b), Want::Value(Val::Array(vec![Val::Int(b.chars().count() as i64), s(&b.chars().take(1).collect::<String>()), s(&a.chars().take(1).collect::<String>())]))),
    ]
}

pub fn judge(fam: &str, shape: &str, how: &str, text: &str, want: &Want, lines: Option<&[String]>, cfg: &ObsCfg, st: &mut Stats) {
    let o = eval_observed(text, cfg);
    st.evaluations += 1;
    let how_short: String = how.split(' ').next().unwrap_or("").to_string();
    let bad = match (&o.outcome, want) {
        (Outcome::Value(v), Want::Value(w)) => {
            if !same_val(v, w) {
                Some("value")
            } else if lines.map(|l| l != o.output.as_slice()).unwrap_or(false) {
                Some("output")
            } else {
                None
            }
        }
        (Outcome::Error(ErrKind::Reference, _), Want::Reference) => {
            if o.output.is_empty() {
                None
            } else {
                Some("output-before-reference-error")
            }
        }
        (Outcome::Value(_), Want::Reference) => Some("undeclared-name-accepted"),
        (Outcome::Error(..), Want::Value(_)) => Some("error-instead-of-value"),
        (Outcome::Error(..), Want::Reference) => Some("other-error"),
        _ => Some("crash"),
    };
    if let Some(b) = bad {
        let wanted = match want {
            Want::Value(w) => crate::obs::clip(&crate::val::render_val(w), 200),
            Want::Reference => "a reference error before any output".to_string(),
        };
        st.violation(&format!("{}:{}:{}:{}", fam, how_short, shape, b), format!("expected {}, got {} (output {:?})", wanted, crate::obs::clip(&o.outcome.render(), 300), o.output.iter().take(3).collect::<Vec<_>>()), text);
    }
}

/// N distinct names, each declared with its number and all read back: as globals or as the locals of one function
pub fn many_names_program(names: &[String], locals: bool) -> (String, Val) {
    let mut t = String::with_capacity(names.len() * 24);
    if locals {
        t.push_str("functie f() { ");
    }
    for (k, n) in names.iter().enumerate() {
        t.push_str(&format!("stel {} = {}; ", n, k));
    }
    t.push('[');
    for (k, n) in names.iter().enumerate() {
        if k > 0 {
            t.push_str(", ");
        }
        t.push_str(n);
    }
    t.push(']');
    if locals {
        t.push_str(" } f()");
    }
    (t, Val::Array((0..names.len() as i64).map(Val::Int).collect()))
}

/// N distinct literals of one kind in an array: every one evaluates to itself
pub fn many_literals_program(r: &mut Rng, n: usize, kind: u64) -> (String, Val) {
    let mut seen = std::collections::HashSet::new();
    let mut vals: Vec<Val> = vec![];
    let mut t = String::from("[");
    while vals.len() < n {
        let (text, v) = match kind {
            0 => {
                let w = if r.chance(1, 2) { word(r) } else { distinct_names(r, 1, 2).pop().unwrap() };
                (format!("\"{}\"", w), Val::Str(w))
            }
            1 => {
                let x = if r.chance(1, 2) { r.range(0, 1 << 40) } else { super::random_int61(r).abs().min(super::MAX_INT) };
                (format!("{}", x), Val::Int(x))
            }
            _ => {
                let f = (r.below(1 << 40) as f64) / 8.0;
                let mut s = format!("{}", f);
                if !s.contains('.') {
                    s.push_str(".0");
                }
                (s, Val::Float(f))
            }
        };
        if seen.insert(text.clone()) {
            if vals.len() > 0 {
                t.push_str(", ");
            }
            t.push_str(&text);
            vals.push(v);
        }
    }
    t.push(']');
    (t, Val::Array(vals))
}
