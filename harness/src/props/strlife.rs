//! Life cycles of long strings, judged by what one run prints about them.
//!
//! Everything that is derived from a string and could be remembered next to it — its number of characters, a hash for
//! comparisons, the position of its last character — has to follow the string when it is changed in place, and must
//! not outlive it when its memory is handed to the next string. The programs here keep a few strings of 3 to 1 025
//! bytes (the lengths around 16, 24, 32, 64, 128, 256, 1 024 at which an implementation is most likely to switch
//! strategy), measure, index and compare them, change them in place (by a character of another width; by a text of
//! more than one character, which keeps the byte length and changes the count), make one equal to another in place,
//! replace them by fresh strings, and in between let temporaries of *equal byte length and different character
//! count* die in helper functions (a collection runs at every return, so the next temporary may land on the same
//! address). Every observation is printed together with the text it is about, so the oracle needs no model of what an
//! in-place change does: `lengte` must be the number of characters of the text printed next to it, the first and
//! last character must be those of that text, and the six comparisons must be those of the two texts printed next
//! to them. Where the harness knows the text (literals, copies of literals, one-character replacements) the
//! printed text is checked against that as well.
//!
//! Each program runs twice: with the plain allocator (freed addresses are reused at once) and under the quarantine
//! shadow heap with probes (a stale pointer is a monitor stop).

use crate::obs::{eval_observed, ObsCfg, Outcome};
use crate::rng::{hash_str, Rng};
use crate::sup::Stats;

const W1: &[&str] = &["a", "b", "c", "d", "e", "k", "m", "o", "r", "s", "t", "u", "z", "0", "7", " ", "-", ".", "A", "Z"];
const W2: &[&str] = &["é", "ü", "ß", "ñ", "ø", "ö", "Ä"];
const W3: &[&str] = &["€", "→", "あ", "‖", "中"];
const W4: &[&str] = &["💖", "😀", "𝄞"];
pub const BYTE_LENGTHS: &[usize] = &[3, 8, 15, 16, 17, 23, 24, 25, 31, 32, 33, 40, 47, 48, 63, 64, 65, 100, 127, 128, 129, 255, 256, 257, 511, 512, 1000, 1023, 1024, 1025];

#[derive(Clone, Copy, PartialEq)]
pub enum Focus {
    Measure,
    Builtins,
    Equality,
}

fn lit(s: &str) -> String {
    // (the alphabet has no quote, backslash, brace, bar or line end)
    format!("\"{}\"", s)
}

/// a text of exactly `bytes` bytes; `wide` in 0..=3 biases towards multi-byte characters
fn text_of(r: &mut Rng, bytes: usize, wide: u64) -> Vec<&'static str> {
    let mut v: Vec<&'static str> = vec![];
    let mut left = bytes;
    while left > 0 {
        let w = if r.below(4) < wide { 2 + r.below(3) as usize } else { 1 };
        let w = w.min(left);
        let c: &'static str = match w {
            1 => W1[r.below(W1.len() as u64) as usize],
            2 => W2[r.below(W2.len() as u64) as usize],
            3 => W3[r.below(W3.len() as u64) as usize],
            _ => W4[r.below(W4.len() as u64) as usize],
        };
        v.push(c);
        left -= c.len();
    }
    v
}

fn other_of_same_width(r: &mut Rng, c: &str) -> &'static str {
    let pool: &[&'static str] = match c.len() {
        1 => W1,
        2 => W2,
        3 => W3,
        _ => W4,
    };
    loop {
        let d = pool[r.below(pool.len() as u64) as usize];
        if d != c {
            return d;
        }
    }
}

enum Want {
    /// M|len|first|last|text — and the text itself when the harness knows it
    Measure(Option<String>),
    /// K|count|last — of a temporary whose text the harness knows
    Temp(String),
    /// E|a|b|== != < <= > >= — the texts when known
    Compare(Option<String>, Option<String>),
}

pub struct Life {
    pub text: String,
    wants: Vec<Want>,
}

pub fn generate(r: &mut Rng, focus: Focus) -> Life {
    let nvars = 2 + r.below(3) as usize;
    let mut prog = String::from("functie tel(x) { lengte(x) }; functie laatste(x) { x[-1] }; functie eerste(x) { x[0] }; functie bouw(x) { stel y = string(x); y }; ");
    // model: the characters of each variable, None once an unspecified change happened
    let mut model: Vec<Option<Vec<String>>> = vec![];
    let mut wants = vec![];
    let base_len = BYTE_LENGTHS[r.below(BYTE_LENGTHS.len() as u64) as usize];
    for v in 0..nvars {
        let len = if r.chance(2, 3) { base_len } else { BYTE_LENGTHS[r.below(BYTE_LENGTHS.len() as u64) as usize] };
        let wide = r.below(4);
        let t = text_of(r, len, wide);
        // (built at run time now and then, so that the variable does not hold a literal's copy)
        if r.chance(1, 3) {
            prog.push_str(&format!("stel s{} = string({}); ", v, lit(&t.concat())));
        } else {
            prog.push_str(&format!("stel s{} = {}; ", v, lit(&t.concat())));
        }
        model.push(Some(t.iter().map(|c| c.to_string()).collect()));
    }
    let measure = |prog: &mut String, wants: &mut Vec<Want>, model: &Vec<Option<Vec<String>>>, v: usize| {
        prog.push_str(&format!("print(\"M|{{}}|{{}}|{{}}|{{}}\", lengte(s{v}), s{v}[0], s{v}[-1], s{v}); ", v = v));
        wants.push(Want::Measure(model[v].as_ref().map(|m| m.concat())));
    };
    let compare = |prog: &mut String, wants: &mut Vec<Want>, model: &Vec<Option<Vec<String>>>, a: usize, b: usize| {
        prog.push_str(&format!("print(\"E|{{}}|{{}}|{{}} {{}} {{}} {{}} {{}} {{}}\", s{a}, s{b}, s{a} == s{b}, s{a} != s{b}, s{a} < s{b}, s{a} <= s{b}, s{a} > s{b}, s{a} >= s{b}); ", a = a, b = b));
        wants.push(Want::Compare(model[a].as_ref().map(|m| m.concat()), model[b].as_ref().map(|m| m.concat())));
    };
    let nops = 6 + r.below(14);
    for _ in 0..nops {
        let v = r.below(nvars as u64) as usize;
        let w = match focus {
            Focus::Measure => [5u32, 2, 4, 3, 2, 2, 4],
            Focus::Builtins => [6, 1, 3, 4, 1, 2, 4],
            Focus::Equality => [2, 6, 3, 2, 5, 2, 2],
        };
        match r.weighted(&w) {
            0 => measure(&mut prog, &mut wants, &model, v),
            1 => {
                let b = r.below(nvars as u64) as usize;
                compare(&mut prog, &mut wants, &model, v, b);
            }
            2 => {
                // one character replaced by one character of another (or the same) width: specified
                if let Some(m) = model[v].clone() {
                    let i = r.below(m.len() as u64) as usize;
                    let width = 1 + r.below(4) as usize;
                    let c: &str = match width {
                        1 => W1[r.below(W1.len() as u64) as usize],
                        2 => W2[r.below(W2.len() as u64) as usize],
                        3 => W3[r.below(W3.len() as u64) as usize],
                        _ => W4[r.below(W4.len() as u64) as usize],
                    };
                    let idx = if r.chance(1, 4) { i as i64 - m.len() as i64 } else { i as i64 };
                    prog.push_str(&format!("s{}[{}] = {}; ", v, idx, lit(c)));
                    let mut m = m;
                    m[i] = c.to_string();
                    model[v] = Some(m);
                    if r.chance(1, 2) {
                        measure(&mut prog, &mut wants, &model, v);
                    }
                }
            }
            3 => {
                // one multi-byte character replaced by as many one-byte characters as it has bytes: the byte length
                // stays, the number of characters does not (what exactly such an assignment does is not documented —
                // §4.3(7); the observations after it must still agree with each other)
                if let Some(m) = model[v].clone() {
                    let wide: Vec<usize> = (0..m.len()).filter(|&k| m[k].len() > 1).collect();
                    if !wide.is_empty() {
                        let i = wide[r.below(wide.len() as u64) as usize];
                        let repl: String = (0..m[i].len()).map(|_| W1[r.below(13) as usize]).collect();
                        measure(&mut prog, &mut wants, &model, v);
                        prog.push_str(&format!("s{}[{}] = {}; ", v, i, lit(&repl)));
                        model[v] = None;
                        measure(&mut prog, &mut wants, &model, v);
                    }
                }
            }
            4 => {
                // make s_v equal to a variant of itself held by another variable, in place
                if let Some(m) = model[v].clone() {
                    let b = (v + 1) % nvars;
                    let mut other = m.clone();
                    let k = 1 + r.below(3) as usize;
                    let mut changed = vec![];
                    for _ in 0..k {
                        let p = r.below(m.len() as u64) as usize;
                        other[p] = other_of_same_width(r, &m[p]).to_string();
                        changed.push(p);
                    }
                    prog.push_str(&format!("s{} = {}; ", b, lit(&other.concat())));
                    model[b] = Some(other.clone());
                    compare(&mut prog, &mut wants, &model, v, b);
                    let mut mv = m.clone();
                    for p in changed {
                        prog.push_str(&format!("s{}[{}] = {}; ", v, p, lit(&other[p])));
                        mv[p] = other[p].clone();
                    }
                    model[v] = Some(mv);
                    compare(&mut prog, &mut wants, &model, v, b);
                    compare(&mut prog, &mut wants, &model, b, v);
                    if r.chance(1, 2) {
                        // and against a fresh literal of the same text
                        prog.push_str(&format!("print(\"E|{{}}|{{}}|{{}} {{}} {{}} {{}} {{}} {{}}\", s{a}, {l}, s{a} == {l}, s{a} != {l}, s{a} < {l}, s{a} <= {l}, s{a} > {l}, s{a} >= {l}); ", a = v, l = lit(&other.concat())));
                        wants.push(Want::Compare(model[v].as_ref().map(|m| m.concat()), Some(other.concat())));
                    }
                }
            }
            5 => {
                // replaced by a fresh string (the old one becomes garbage)
                let len = if r.chance(1, 2) { base_len } else { BYTE_LENGTHS[r.below(BYTE_LENGTHS.len() as u64) as usize] };
                let wide = r.below(4);
        let t = text_of(r, len, wide);
                if r.chance(1, 2) {
                    prog.push_str(&format!("s{} = bouw({}); ", v, lit(&t.concat())));
                } else {
                    prog.push_str(&format!("s{} = {}; ", v, lit(&t.concat())));
                }
                model[v] = Some(t.iter().map(|c| c.to_string()).collect());
            }
            _ => {
                // temporaries of equal byte length and different character counts, dying one after the other
                let len = if r.chance(2, 3) { base_len.max(4) } else { BYTE_LENGTHS[1 + r.below(BYTE_LENGTHS.len() as u64 - 1) as usize] };
                let k = 2 + r.below(3);
                for j in 0..k {
                    let wide = (j + r.below(2)) % 4;
                    let t = text_of(r, len, wide);
                    let e = if r.chance(1, 3) { format!("string({})", lit(&t.concat())) } else { lit(&t.concat()) };
                    prog.push_str(&format!("print(\"K|{{}}|{{}}\", tel({e}), laatste({e})); ", e = e));
                    wants.push(Want::Temp(t.concat()));
                }
            }
        }
    }
    for v in 0..nvars {
        measure(&mut prog, &mut wants, &model, v);
    }
    prog.push_str("0");
    Life { text: prog, wants }
}

fn ja(b: bool) -> &'static str {
    if b {
        "ja"
    } else {
        "nee"
    }
}

/// None = every line agrees; Some((signature, detail))
fn judge(life: &Life, output: &[String]) -> Option<(String, String)> {
    if output.len() != life.wants.len() {
        return Some(("lines".into(), format!("{} lines printed, {} expected", output.len(), life.wants.len())));
    }
    for (k, (line, want)) in output.iter().zip(&life.wants).enumerate() {
        let parts: Vec<&str> = line.split('|').collect();
        match want {
            Want::Measure(known) => {
                if parts.len() != 5 || parts[0] != "M" {
                    return Some(("format".into(), format!("line {}: {}", k, line)));
                }
                let text = parts[4];
                let n = text.chars().count();
                if parts[1] != n.to_string() {
                    return Some(("lengte-disagrees-with-text".into(), format!("line {}: lengte says {}, the text printed next to it has {} characters ({} bytes): {}", k, parts[1], n, text.len(), crate::obs::clip(text, 80))));
                }
                let first: String = text.chars().take(1).collect();
                let last: String = text.chars().rev().take(1).collect();
                if parts[2] != first {
                    return Some(("first-character".into(), format!("line {}: s[0] is {:?}, the text starts with {:?}", k, parts[2], first)));
                }
                if parts[3] != last {
                    return Some(("last-character".into(), format!("line {}: s[-1] is {:?}, the text ends in {:?}", k, parts[3], last)));
                }
                if let Some(t) = known {
                    if t != text {
                        return Some(("text".into(), format!("line {}: the variable holds {:?}, expected {:?}", k, crate::obs::clip(text, 80), crate::obs::clip(t, 80))));
                    }
                }
            }
            Want::Temp(t) => {
                let n = t.chars().count();
                let last: String = t.chars().rev().take(1).collect();
                if parts.len() != 3 || parts[0] != "K" {
                    return Some(("format".into(), format!("line {}: {}", k, line)));
                }
                if parts[1] != n.to_string() {
                    return Some(("temporary-count".into(), format!("line {}: lengte of a temporary of {} characters ({} bytes) is {}", k, n, t.len(), parts[1])));
                }
                if parts[2] != last {
                    return Some(("temporary-last-character".into(), format!("line {}: x[-1] of a temporary ending in {:?} is {:?}", k, last, parts[2])));
                }
            }
            Want::Compare(ka, kb) => {
                if parts.len() != 4 || parts[0] != "E" {
                    return Some(("format".into(), format!("line {}: {}", k, line)));
                }
                let (a, b) = (parts[1], parts[2]);
                let want = format!("{} {} {} {} {} {}", ja(a == b), ja(a != b), ja(a < b), ja(a <= b), ja(a > b), ja(a >= b));
                if parts[3] != want {
                    return Some(("comparison-disagrees-with-texts".into(), format!("line {}: == != < <= > >= of the two texts printed are `{}`, expected `{}` (a: {} bytes, b: {} bytes, equal: {})", k, parts[3], want, a.len(), b.len(), a == b)));
                }
                for (known, got) in [(ka, a), (kb, b)] {
                    if let Some(t) = known {
                        if t != got {
                            return Some(("text".into(), format!("line {}: an operand holds {:?}, expected {:?}", k, crate::obs::clip(got, 80), crate::obs::clip(t, 80))));
                        }
                    }
                }
            }
        }
    }
    None
}

/// one case: generate, run under both heaps, judge
pub fn run_case(r: &mut Rng, focus: Focus, fam: &str, plain_only: bool, st: &mut Stats) {
    let life = generate(r, focus);
    st.distinct_hash(hash_str(&life.text));
    st.add("string-lifecycle:observations", life.wants.len() as u64);
    let mut cfgs = vec![("plain-allocator", ObsCfg::plain(3_000_000))];
    if !plain_only {
        cfgs.push(("quarantine", ObsCfg::default()));
    }
    for (tag, cfg) in cfgs {
        let o = eval_observed(&life.text, &cfg);
        st.evaluations += 1;
        st.count(&format!("string-lifecycle:runs:{}", tag));
        match &o.outcome {
            Outcome::Value(_) => match judge(&life, &o.output) {
                None => {}
                Some((sig, detail)) => st.violation(&format!("{}:{}:{}", fam, tag, sig), detail, &life.text),
            },
            other => st.violation(&format!("{}:{}:{}", fam, tag, other.class()), format!("the program is well-formed and every index is in range; got {}", other.render()), &life.text),
        }
    }
}
