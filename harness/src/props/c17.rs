//! C17 — a retained session behaves like one growing program.
//! A retained Compiler + VM pair is driven exactly like the interactive prompt does; every line can
//! be made to fail at parse time, at compile time, at run time, or be cut after k instructions.
//! Oracles: (1) metamorphic against eval() of the concatenated successful lines, (2) a reference
//! session model (one persistent reference interpreter), (3) carry-over state of the VM.

use super::Families;
use crate::ast::{self, Expr, Stmt};
use crate::obs::{self, kind_of, Outcome};
use crate::refsem::{static_check_with, Interp, RefOutcome};
use crate::rng::{hash_str, Rng};
use crate::sup::{Check, Ctx, Flavour, Stats, Summary, Tier};
use crate::val::{render_val, same_val, Val};
use nederlang::compiler::Compiler;
use nederlang::object::Object;
use nederlang::verif::{self, ShadowMode, VerifStop};
use nederlang::vm::VM;
use serde_json::json;
use std::panic::{catch_unwind, AssertUnwindSafe};

pub struct C17 {}

#[derive(Clone, Debug)]
pub struct Line {
    pub text: String,
    /// cut the run of this line after k instructions (the exit path a run-time error takes)
    pub budget: Option<u64>,
}

pub const ALPHABET: [&str; 14] = [
    "stel a = 1",
    "stel b = [1, 2]",
    "a = a + 1",
    "a += 10",
    "b[0] = a",
    "a",
    "[a, b[0]]",
    "stel i = 0; zolang i < 3 { i += 1; a += 1 }",
    "functie f(x) { x * 2 }; a = f(a)",
    "print(\"a={}\", a)",
    "stel s = \"tekst\"; s",
    "stel = 5",
    "print(\"x\"); a = a + 1; onbekend",
    "a = a + 1; b[9]; a = a + 100",
];

/// instruction bound of a session line that has no cut of its own
pub const RUNAWAY_BUDGET: u64 = 5_000_000;

#[derive(Clone, Debug)]
pub struct LineObs {
    pub outcome: Outcome,
    pub output: Vec<String>,
    pub stack_len: usize,
    pub frames: usize,
    pub count: u64,
    pub stage: &'static str,
}

/// Drive one session on the real code. Results are walked immediately and released at the end.
/// (answer, printed lines) of every line of a session on a retained compiler + machine; `threads`: each line runs on a
/// freshly started thread
pub fn session_answers(lines: &[Line], threads: bool) -> Vec<(String, Vec<String>)> {
    fn one(compiler: &mut Compiler, vm: &mut VM, text: &str) -> (String, Vec<String>) {
        verif::reset_all();
        verif::set_capture(true);
        verif::set_probes(false);
        verif::set_shadow(ShadowMode::Off);
        verif::set_budget(Some(RUNAWAY_BUDGET));
        let res = catch_unwind(AssertUnwindSafe(|| nederlang::parser::parse(text).and_then(|ast| compiler.compile_ast(&ast)).and_then(|code| vm.run(code))));
        let answer = match res {
            Ok(Ok(obj)) => match catch_unwind(AssertUnwindSafe(|| obs::walk(obj))) {
                Ok(v) => format!("value {}", render_val(&v)),
                Err(_) => {
                    let _ = obs::take_panic();
                    "panic while reading the result".to_string()
                }
            },
            Ok(Err(e)) => {
                if verif::budget_exhausted() {
                    "budget".to_string()
                } else {
                    format!("error {}", kind_of(&e).0.name())
                }
            }
            Err(_) => {
                let _ = obs::take_panic();
                "panic".to_string()
            }
        };
        (answer, verif::take_output())
    }
    let mut compiler = Compiler::new();
    let mut vm = VM::new();
    let mut out = vec![];
    for l in lines {
        let r = if threads {
            let (c, v, t) = (&mut compiler, &mut vm, l.text.as_str());
            std::thread::scope(|s| s.spawn(move || one(c, v, t)).join()).unwrap_or_else(|_| ("thread panicked".to_string(), vec![]))
        } else {
            one(&mut compiler, &mut vm, &l.text)
        };
        let fatal = r.0.starts_with("panic") || r.0 == "budget";
        out.push(r);
        if fatal {
            break;
        }
    }
    out
}

pub fn run_session_real(lines: &[Line], shadow: ShadowMode, probes: bool) -> (Vec<LineObs>, Vec<String>) {
    verif::reset_all();
    verif::set_capture(true);
    verif::set_probes(probes);
    verif::set_stop_on_event(true);
    verif::set_shadow(shadow);
    let mut out = vec![];
    let mut session_events: Vec<String> = vec![];
    let mut results: Vec<Object> = vec![];
    let r = catch_unwind(AssertUnwindSafe(|| {
        let mut compiler = Compiler::new();
        let mut vm = VM::new();
        for l in lines {
            verif::reset_run();
            // (a line without a cut still gets a bound: a generated line must not be able to hang a session)
            verif::set_budget(l.budget.or(Some(RUNAWAY_BUDGET)));
            let step = catch_unwind(AssertUnwindSafe(|| {
                let ast = match nederlang::parser::parse(&l.text) {
                    Ok(a) => a,
                    Err(e) => return ("parse", Err(e)),
                };
                let code = match compiler.compile_ast(&ast) {
                    Ok(c) => c,
                    Err(e) => return ("compile", Err(e)),
                };
                ("run", vm.run(code))
            }));
            let count = verif::instruction_count();
            let budget_hit = verif::budget_exhausted();
            let (stage, outcome) = match step {
                Ok((stage, Ok(obj))) => {
                    let w = catch_unwind(AssertUnwindSafe(|| obs::walk(obj)));
                    results.push(obj);
                    match w {
                        Ok(v) => (stage, Outcome::Value(v)),
                        Err(p) => (stage, if p.is::<VerifStop>() { Outcome::Stop } else { let (a, b) = obs::take_panic(); Outcome::Panic(a, b) }),
                    }
                }
                Ok((stage, Err(e))) => {
                    if budget_hit {
                        (stage, Outcome::Budget)
                    } else {
                        let (k, m) = kind_of(&e);
                        (stage, Outcome::Error(k, m))
                    }
                }
                Err(p) => ("run", if p.is::<VerifStop>() { Outcome::Stop } else { let (a, b) = obs::take_panic(); Outcome::Panic(a, b) }),
            };
            for e in verif::take_events() {
                session_events.push(obs::event_class(&e));
            }
            let (stack_len, frames, _) = vm.verif_state();
            let fatal = matches!(outcome, Outcome::Stop | Outcome::Panic(..));
            out.push(LineObs {
                outcome,
                output: verif::take_output(),
                stack_len,
                frames,
                count,
                stage,
            });
            if fatal {
                break;
            }
        }
        drop(vm);
        drop(compiler);
    }));
    if r.is_err() {
        session_events.push("panic-outside-line".to_string());
        let _ = obs::take_panic();
    }
    for e in verif::take_events() {
        session_events.push(obs::event_class(&e));
    }
    // results handed out by the lines are not released here: who owns a result that is also still
    // referenced by a global is not specified, and leaks are C04's business. The ledger is dropped.
    let _ = &results;
    if shadow != ShadowMode::Off {
        verif::clear_ledger();
    }
    (out, session_events)
}

fn mentions(b: &[Stmt], names: &[String]) -> bool {
    fn ex(e: &Expr, names: &[String]) -> bool {
        match e {
            Expr::Ident(n) => names.contains(n),
            Expr::Infix { left, right, .. } | Expr::Assign { left, right } => ex(left, names) || ex(right, names),
            Expr::Index { left, index } => ex(left, names) || ex(index, names),
            Expr::Prefix { right, .. } => ex(right, names),
            Expr::If { cond, cons, alt } => ex(cond, names) || mentions(cons, names) || alt.as_ref().map(|a| mentions(a, names)).unwrap_or(false),
            Expr::Function { body, .. } => mentions(body, names),
            Expr::Call { left, args } => ex(left, names) || args.iter().any(|a| ex(a, names)),
            Expr::Array(xs) => xs.iter().any(|a| ex(a, names)),
            Expr::While { cond, body } => ex(cond, names) || mentions(body, names),
            _ => false,
        }
    }
    b.iter().any(|s| match s {
        Stmt::Let(n, e) => names.contains(n) || ex(e, names),
        Stmt::Return(e) | Stmt::Expr(e) => ex(e, names),
        Stmt::Block(b) => mentions(b, names),
        _ => false,
    })
}

fn declared_toplevel(b: &[Stmt]) -> Vec<String> {
    let mut v = vec![];
    for s in b {
        match s {
            Stmt::Let(n, _) => v.push(n.clone()),
            Stmt::Expr(Expr::Function { name, .. }) if !name.is_empty() => v.push(name.clone()),
            _ => {}
        }
    }
    v
}

fn function_names(b: &[Stmt]) -> Vec<String> {
    let mut v = vec![];
    for s in b {
        match s {
            Stmt::Let(n, Expr::Function { .. }) => v.push(n.clone()),
            Stmt::Expr(Expr::Function { name, .. }) if !name.is_empty() => v.push(name.clone()),
            _ => {}
        }
    }
    v
}

/// What the reference session model says about each line, given how many assignments each cut line completed.
struct ModelRun {
    /// per line: None = not judged (unspecified from here on)
    lines: Vec<Option<(RefOutcome, Vec<String>, bool)>>,
    stopped_at: Option<(usize, String)>,
    interp: Interp,
}

fn run_model(trees: &[Option<Vec<Stmt>>], limits: &[Option<u64>], functions_across_lines_ok: bool) -> ModelRun {
    let mut it = Interp::new(200_000);
    let mut lines = vec![];
    let mut poisoned: Vec<String> = vec![]; // names declared by lines that failed at run time (§4.3(16))
    let mut fn_names: Vec<String> = vec![];
    let mut stopped_at = None;
    for (i, t) in trees.iter().enumerate() {
        let tree = match t {
            None => {
                // parse error: no tree, no effect; the implementation must report a syntax/type error
                lines.push(Some((RefOutcome::Error(crate::val::Kinds::of(&[crate::val::ErrKind::Syntax, crate::val::ErrKind::Type])), vec![], true)));
                continue;
            }
            Some(t) => t,
        };
        if mentions(tree, &poisoned) {
            stopped_at = Some((i, "4.3(16): refers to a name declared by a line that failed at run time".to_string()));
            break;
        }
        if !functions_across_lines_ok && mentions(tree, &fn_names) {
            stopped_at = Some((i, "4.3(16): refers to a function value created by an earlier line".to_string()));
            break;
        }
        let info = static_check_with(tree, &it.global_names());
        if let Some(u) = info.unspecified {
            stopped_at = Some((i, u));
            break;
        }
        if let Some(k) = info.errors {
            // rejected before anything runs: no effect at all
            lines.push(Some((RefOutcome::Error(k), vec![], true)));
            continue;
        }
        it.assignments = 0;
        it.assignment_limit = limits[i];
        let before = it.output.len();
        let (outcome, value_specified) = it.run_toplevel(tree);
        let output: Vec<String> = it.output[before..].to_vec();
        match &outcome {
            RefOutcome::Unspecified(why) if why != "cut" => {
                stopped_at = Some((i, why.clone()));
                break;
            }
            RefOutcome::OutOfSteps => {
                stopped_at = Some((i, "reference out of steps".to_string()));
                break;
            }
            RefOutcome::Error(_) | RefOutcome::Unspecified(_) => {
                // failed at run time (or cut): its declarations are poisoned
                poisoned.extend(declared_toplevel(tree));
            }
            RefOutcome::Value(_) => {
                fn_names.extend(function_names(tree));
            }
        }
        lines.push(Some((outcome, output, value_specified)));
    }
    while lines.len() < trees.len() {
        lines.push(None);
    }
    ModelRun { lines, stopped_at, interp: it }
}

impl C17 {
    pub fn new() -> Self {
        C17 {}
    }

    fn fams(&self, ctx: &Ctx) -> Families {
        let rnd = match (ctx.flavour, ctx.tier) {
            (Flavour::Rel, Tier::Quick) => 8_000,
            (Flavour::Rel, Tier::Thorough) => 400_000,
            (_, Tier::Quick) => 500,
            _ => 5_000,
        };
        let n = ALPHABET.len() as u64;
        if ctx.flavour == Flavour::Miri {
            return Families::new(vec![("directed", directed().len() as u64), ("len-1", n), ("len-2", 40), ("len-3", 40), ("cuts", 4), ("random", 40), ("valgrind-prompt", 0), ("prompt-binary", 0), ("prompt-on-a-terminal", 0), ("interrupt-at-the-prompt", 0), ("stdout-closes-early", 0), ("a-thread-per-line", 10)]);
        }
        let (l3, cuts) = match (ctx.flavour, ctx.tier) {
            (Flavour::Rel, Tier::Quick) => (n * n * n, 600),
            (Flavour::Rel, Tier::Thorough) => (n * n * n, n + n * n + n * n * n),
            _ => (200, 50),
        };
        let vg = if ctx.flavour == Flavour::Rel { directed().len() as u64 + ctx.tier.pick(0, 200) } else { 0 };
        let pb = if ctx.flavour == Flavour::Rel { directed().len() as u64 + n + n * n + ctx.tier.pick(400, 20_000) } else { 0 };
        Families::new(vec![("directed", directed().len() as u64), ("len-1", n), ("len-2", n * n), ("len-3", l3), ("cuts", cuts), ("random", rnd), ("valgrind-prompt", vg), ("prompt-binary", pb), ("prompt-on-a-terminal", if ctx.flavour == Flavour::Rel { directed().len() as u64 + ctx.tier.pick(120, 3_000) } else { 0 }), ("interrupt-at-the-prompt", if ctx.flavour == Flavour::Rel { ctx.tier.pick(60, 1_500) } else { 0 }), ("stdout-closes-early", if ctx.flavour == Flavour::Rel { ctx.tier.pick(120, 3_000) } else { 0 }), ("a-thread-per-line", match (ctx.flavour, ctx.tier) { (Flavour::Rel, Tier::Quick) => 1_500, (Flavour::Rel, Tier::Thorough) => 60_000, _ => 200 })])
    }

    fn alphabet_session(i: u64, len: usize) -> Vec<Line> {
        let n = ALPHABET.len() as u64;
        let mut v = vec![];
        let mut k = i;
        for _ in 0..len {
            v.push(Line { text: ALPHABET[(k % n) as usize].to_string(), budget: None });
            k /= n;
        }
        v
    }

    /// sessions of the cuts family: index into (all alphabet sessions of length 1..3)
    fn session(&self, ctx: &Ctx, idx: u64) -> (&'static str, Vec<Line>) {
        let (f, name, i) = self.fams(ctx).locate(idx);
        let n = ALPHABET.len() as u64;
        let mut r = Rng::for_case(ctx.seed, 1700 + f as u64, i);
        let s = match name {
            // (interpreted by Miri, the sessions with tens of kilobytes of code would take hours)
            "directed" if ctx.flavour == Flavour::Miri && (directed()[i as usize].1.len() > 2_000 || directed()[i as usize].1.iter().any(|t| t.len() > 5_000)) => vec![Line { text: "1".to_string(), budget: None }],
            "directed" => directed()[i as usize].1.iter().map(|t| Line { text: t.to_string(), budget: None }).collect(),
            "len-1" => Self::alphabet_session(i, 1),
            "len-2" => Self::alphabet_session(i, 2),
            "len-3" => {
                let total = n * n * n;
                let fam_n = self.fams(ctx).fams[3].1;
                let stride = total / fam_n;
                Self::alphabet_session((i * stride + ctx.seed % stride.max(1)) % total, 3)
            }
            "cuts" => {
                let total = n + n * n + n * n * n;
                let fam_n = self.fams(ctx).fams[4].1;
                let stride = total / fam_n;
                let j = (i * stride + ctx.seed % stride.max(1)) % total;
                if j < n {
                    Self::alphabet_session(j, 1)
                } else if j < n + n * n {
                    Self::alphabet_session(j - n, 2)
                } else {
                    Self::alphabet_session(j - n - n * n, 3)
                }
            }
            "valgrind-prompt" => {
                let d = directed();
                if (i as usize) < d.len() {
                    d[i as usize].1.iter().map(|t| Line { text: t.to_string(), budget: None }).collect()
                } else {
                    random_session(&mut r).into_iter().map(|l| Line { text: l.text, budget: None }).collect()
                }
            }
            "a-thread-per-line" => {
                let d = directed();
                if (i as usize) < d.len() {
                    d[i as usize].1.iter().map(|t| Line { text: t.to_string(), budget: None }).collect()
                } else {
                    random_session(&mut r).into_iter().map(|l| Line { text: l.text, budget: None }).collect()
                }
            }
            "interrupt-at-the-prompt" | "stdout-closes-early" => {
                let d = directed();
                if i < 30 {
                    d[(i as usize * 7) % d.len()].1.iter().map(|t| Line { text: t.to_string(), budget: None }).collect()
                } else {
                    random_session(&mut r).into_iter().map(|l| Line { text: l.text, budget: None }).collect()
                }
            }
            "prompt-on-a-terminal" => {
                let d = directed();
                if (i as usize) < d.len() {
                    d[i as usize].1.iter().map(|t| Line { text: t.to_string(), budget: None }).collect()
                } else {
                    random_session(&mut r).into_iter().map(|l| Line { text: l.text, budget: None }).collect()
                }
            }
            "prompt-binary" => {
                let d = directed();
                let dl = d.len() as u64;
                if i < dl {
                    d[i as usize].1.iter().map(|t| Line { text: t.to_string(), budget: None }).collect()
                } else if i < dl + n {
                    Self::alphabet_session(i - dl, 1)
                } else if i < dl + n + n * n {
                    Self::alphabet_session(i - dl - n, 2)
                } else {
                    random_session(&mut r).into_iter().map(|l| Line { text: l.text, budget: None }).collect()
                }
            }
            _ => random_session(&mut r),
        };
        (name, s)
    }
}

/// what the prompt prints for a result (Display of the value); None: not modelled (cycles, non-finite floats)
pub fn display_val(v: &Val, out: &mut String) -> Option<()> {
    match v {
        Val::Null => {}
        Val::Bool(b) => out.push_str(if *b { "ja" } else { "nee" }),
        Val::Int(i) => out.push_str(&i.to_string()),
        Val::Float(f) => {
            if !f.is_finite() {
                return None;
            }
            out.push_str(&format!("{}", f));
        }
        Val::Str(s) => out.push_str(s),
        Val::Func => out.push_str("functie"),
        Val::Array(xs) => {
            out.push('[');
            for (i, x) in xs.iter().enumerate() {
                if i > 0 {
                    out.push_str(", ");
                }
                display_val(x, out)?;
            }
            out.push(']');
        }
        Val::Cycle(_) | Val::TooDeep => return None,
    }
    Some(())
}

impl C17 {
    /// The session typed into the interactive prompt of the shipped (hook-free) binary: what it prints after every
    /// prompt and the errors it reports must be exactly what the retained Compiler + VM pair of this harness — the
    /// thing every other family judges — yields line by line. (The prompt is the user-facing form of this property;
    /// a defect in src/bin/nederlang.rs itself is visible only here.)
    /// The session typed at the prompt of the shipped binary sitting on a pseudo-terminal (stdin, stdout and stderr are
    /// terminals), against the same session piped in: the bytes written must be the same. (What the prompt prints is
    /// judged by `prompt_binary`; this one is about the prompt behaving differently when a person sits in front of it.)
    fn prompt_on_terminal(&self, lines: &[Line], st: &mut Stats) {
        let bin_s = format!("{}/harness/target-repo/release/nederlang", crate::sup::root());
        let helper = format!("{}/tools/pty_session.py", crate::sup::root());
        if !std::path::Path::new(&bin_s).exists() || !std::path::Path::new(&helper).exists() {
            st.inconclusive(format!("{} or {} is missing", bin_s, helper));
            return;
        }
        // a terminal hands over at most 4 095 bytes per line; endless loops have no budget at the prompt
        if lines.iter().any(|l| l.text.len() > 2_000 || l.text.contains("zolang ja") || l.text.contains('\r') || l.text.contains('\n') || l.text.contains('\u{4}')) {
            st.count("prompt-on-a-terminal:skipped-long-or-endless-line");
            return;
        }
        let (obs_lines, events) = run_session_real(lines, ShadowMode::Off, false);
        if obs_lines.len() != lines.len() || !events.is_empty() || obs_lines.iter().any(|o| !matches!(o.outcome, Outcome::Value(_) | Outcome::Error(..))) {
            st.count("prompt-on-a-terminal:skipped-in-process-anomaly");
            return;
        }
        let path = format!("{}/pty-{}-{}.txt", crate::sup::scratch_dir(), std::process::id(), crate::rng::hash_str(&session_text(lines)));
        let mut body = String::new();
        for l in lines {
            body.push_str(&l.text);
            body.push('\n');
        }
        if std::fs::write(&path, &body).is_err() {
            return;
        }
        let piped = std::process::Command::new("bash").arg("-c").arg("ulimit -S -t 20; ulimit -H -t 30; exec timeout 600 \"$0\" < \"$1\" 2>&1").arg(&bin_s).arg(&path).stdin(std::process::Stdio::null()).output();
        let typed = std::process::Command::new("bash").arg("-c").arg("ulimit -S -t 20; ulimit -H -t 30; exec timeout 600 python3 \"$0\" \"$1\" \"$2\"").arg(&helper).arg(&bin_s).arg(&path).stdin(std::process::Stdio::null()).output();
        let _ = std::fs::remove_file(&path);
        st.evaluations += 2;
        let (piped, typed) = match (piped, typed) {
            (Ok(a), Ok(b)) => (a, b),
            _ => {
                st.inconclusive("the prompt or the terminal helper could not be started".to_string());
                return;
            }
        };
        let status = String::from_utf8_lossy(&typed.stderr).lines().last().unwrap_or("").to_string();
        if status == "status=timeout" || typed.status.code() == Some(124) || piped.status.code() == Some(124) {
            // (a wall-clock limit decides nothing: inconclusive, and visible as such)
            st.inconclusive(format!("a session typed at a terminal did not end within the helper's 60 s (piped run: {:?}): {}", piped.status.code(), crate::obs::clip(&session_text(lines), 200)));
            return;
        }
        if !status.starts_with("status=") {
            st.inconclusive(format!("the terminal helper failed: {}", crate::obs::clip(&String::from_utf8_lossy(&typed.stderr), 200)));
            return;
        }
        st.count("prompt-on-a-terminal:sessions");
        st.add("prompt-on-a-terminal:lines", lines.len() as u64);
        if piped.status.code() != Some(0) {
            // (the piped prompt ending abnormally is prompt_binary's finding)
            st.count("prompt-on-a-terminal:skipped-piped-run-abnormal");
            return;
        }
        if status != "status=0" {
            st.violation("prompt-on-a-terminal:abnormal-end", format!("typed at a terminal, the prompt ended with {} (piped: normally); it wrote\n{}", status, crate::obs::clip(&String::from_utf8_lossy(&typed.stdout), 500)), &session_text(lines));
        } else if typed.stdout != piped.stdout {
            st.violation("prompt-on-a-terminal:differs-from-the-pipe", format!("typed at a terminal the prompt wrote\n{}\npiped in (stdout and stderr together) it wrote\n{}", crate::obs::clip(&String::from_utf8_lossy(&typed.stdout), 500), crate::obs::clip(&String::from_utf8_lossy(&piped.stdout), 500)), &session_text(lines));
        }
    }

    /// sessions fit for the shipped prompt: short lines, no endless loop, sane in process
    fn fit_for_the_prompt(lines: &[Line]) -> bool {
        if lines.iter().any(|l| l.text.len() > 2_000 || l.text.contains("zolang ja") || l.text.contains('\r') || l.text.contains('\n') || l.text.contains('\u{4}') || l.text.contains('\u{3}')) {
            return false;
        }
        let (obs_lines, events) = run_session_real(lines, ShadowMode::Off, false);
        obs_lines.len() == lines.len() && events.is_empty() && obs_lines.iter().all(|o| matches!(o.outcome, Outcome::Value(_) | Outcome::Error(..)))
    }

    /// The interrupt key pressed while the prompt waits for a line (no program is running). Either that ends the
    /// interpreter — what it does today — or the session goes on; then every later line has to answer what it answers
    /// without the key press (an interrupt nobody was there to receive must not hit a later program).
    fn interrupt_at_the_prompt(&self, lines: &[Line], r: &mut Rng, st: &mut Stats) {
        let bin_s = format!("{}/harness/target-repo/release/nederlang", crate::sup::root());
        let helper = format!("{}/tools/pty_session.py", crate::sup::root());
        if !std::path::Path::new(&bin_s).exists() || !std::path::Path::new(&helper).exists() {
            st.inconclusive(format!("{} or {} is missing", bin_s, helper));
            return;
        }
        if lines.is_empty() || !Self::fit_for_the_prompt(lines) {
            st.count("interrupt-at-the-prompt:skipped");
            return;
        }
        let at = r.below(lines.len() as u64) as usize;
        let twice = r.chance(1, 3);
        let (mut plain, mut keyed) = (String::new(), String::new());
        for (k, l) in lines.iter().enumerate() {
            if k == at {
                keyed.push_str("^C\n");
                if twice {
                    keyed.push_str("^C\n");
                }
            }
            plain.push_str(&l.text);
            plain.push('\n');
            keyed.push_str(&l.text);
            keyed.push('\n');
        }
        let base = format!("{}/int-{}-{}", crate::sup::scratch_dir(), std::process::id(), crate::rng::hash_str(&keyed));
        let (p_plain, p_keyed) = (format!("{}-plain.txt", base), format!("{}-keyed.txt", base));
        if std::fs::write(&p_plain, &plain).is_err() || std::fs::write(&p_keyed, &keyed).is_err() {
            return;
        }
        let run = |path: &str| std::process::Command::new("bash").arg("-c").arg("ulimit -S -t 20; ulimit -H -t 30; exec timeout 600 python3 \"$0\" \"$1\" \"$2\"").arg(&helper).arg(&bin_s).arg(path).stdin(std::process::Stdio::null()).output();
        let (a, b) = (run(&p_plain), run(&p_keyed));
        let _ = std::fs::remove_file(&p_plain);
        let _ = std::fs::remove_file(&p_keyed);
        st.evaluations += 2;
        let (a, b) = match (a, b) {
            (Ok(a), Ok(b)) => (a, b),
            _ => {
                st.inconclusive("the terminal helper could not be started".to_string());
                return;
            }
        };
        let status = |o: &std::process::Output| String::from_utf8_lossy(&o.stderr).lines().last().unwrap_or("").to_string();
        let (sa, sb) = (status(&a), status(&b));
        if sa != "status=0" || !sb.starts_with("status=") || sb == "status=timeout" {
            st.count("case-inconclusive:terminal-helper");
            return;
        }
        // the answers: what was written, without prompts and blank lines
        let answers = |o: &std::process::Output| -> Vec<String> { String::from_utf8_lossy(&o.stdout).replace(">>> ", "\n").replace("^C", "\n").lines().map(|l| l.trim().to_string()).filter(|l| !l.is_empty()).collect() };
        let (want, got) = (answers(&a), answers(&b));
        st.count("interrupt-at-the-prompt:sessions");
        if sb == "status=-2" || sb == "status=130" {
            st.count("interrupt-at-the-prompt:the-interpreter-ended");
            if !want.starts_with(&got) {
                st.violation("interrupt-at-the-prompt:answers-before-the-key-differ", format!("answers before the interrupt key: {:?}, without it: {:?}", got, want), &keyed);
            }
        } else if sb != "status=0" {
            st.violation("interrupt-at-the-prompt:abnormal-end", format!("after the interrupt key the prompt ended with {}", sb), &keyed);
        } else if got != want {
            st.count("interrupt-at-the-prompt:the-session-went-on");
            st.violation("interrupt-at-the-prompt:later-lines-answer-differently", format!("the interrupt key was pressed at the idle prompt before line {}; answers with it {:?}, without it {:?}", at + 1, got, want), &keyed);
        } else {
            st.count("interrupt-at-the-prompt:the-session-went-on");
        }
    }

    /// Whoever reads the interpreter's standard output goes away after a few bytes (`nederlang < script | head -c N`).
    /// Printing then fails; today that ends the interpreter with a Rust panic message and status 101 (an observation of
    /// DESIGN §13, not judged here). What must not happen is memory damage on the way out: death by SIGSEGV / SIGABRT.
    fn stdout_closes_early(&self, lines: &[Line], r: &mut Rng, st: &mut Stats) {
        let bin_s = format!("{}/harness/target-repo/release/nederlang", crate::sup::root());
        if !std::path::Path::new(&bin_s).exists() {
            st.inconclusive(format!("{} is missing", bin_s));
            return;
        }
        if lines.is_empty() || !Self::fit_for_the_prompt(lines) {
            st.count("stdout-closes-early:skipped");
            return;
        }
        // heap values first, then lines that print, so that something is alive when printing fails
        let mut body = String::from("stel bewaard = [1.5, \"tekst\", [2.5, \"diep\"]]\nstel f = functie(x) { [x, 0.25] }\nstel g = f(\"g\")\n");
        for l in lines {
            body.push_str(&l.text);
            body.push('\n');
            if r.chance(1, 3) {
                body.push_str("print(\"{} {}\", bewaard, g)\n");
            }
        }
        body.push_str("print(\"{}\", f(bewaard))\nbewaard\n");
        let file_mode = r.chance(1, 4);
        let path = format!("{}/sce-{}-{}.txt", crate::sup::scratch_dir(), std::process::id(), crate::rng::hash_str(&body));
        if std::fs::write(&path, if file_mode { body.replace('\n', ";\n") } else { body.clone() }).is_err() {
            return;
        }
        let n = [0u64, 1, 3, 4, 5, 8, 16, 40, 100, 1000][r.below(10) as usize];
        let script = if file_mode { "ulimit -S -t 20; \"$0\" \"$1\" 2>/dev/null | head -c \"$2\" >/dev/null; echo ${PIPESTATUS[0]}" } else { "ulimit -S -t 20; \"$0\" < \"$1\" 2>/dev/null | head -c \"$2\" >/dev/null; echo ${PIPESTATUS[0]}" };
        let out = std::process::Command::new("bash").arg("-c").arg(script).arg(&bin_s).arg(&path).arg(n.to_string()).stdin(std::process::Stdio::null()).output();
        let _ = std::fs::remove_file(&path);
        st.evaluations += 1;
        if let Ok(o) = out {
            let status = String::from_utf8_lossy(&o.stdout).trim().to_string();
            st.count(&format!("stdout-closes-early:status:{}", status));
            // 0 = it finished before anyone noticed; 101 = the panic of println!; 141 = SIGPIPE
            if !matches!(status.as_str(), "0" | "101" | "141") {
                st.violation(&format!("stdout-closes-early:status-{}", status), format!("the reader of standard output went away after {} bytes; the interpreter ended with status {} (128 + signal)", n, status), &body);
            }
        }
    }

    fn prompt_binary(&self, lines: &[Line], st: &mut Stats) {
        let bin_s = format!("{}/harness/target-repo/release/nederlang", crate::sup::root());
        if !std::path::Path::new(&bin_s).exists() {
            st.inconclusive(format!("{} not built", bin_s));
            return;
        }
        // the prompt reads line by line; endless loops have no budget there
        if lines.iter().any(|l| l.text.contains("zolang ja") || l.text.contains('\r')) {
            st.count("prompt-binary:skipped-endless-loop");
            return;
        }
        let lines: Vec<Line> = lines.iter().map(|l| Line { text: l.text.replace('\n', " "), budget: None }).collect();
        if lines.iter().any(|l| l.text.trim().is_empty()) {
            return;
        }
        let (obs_lines, events) = run_session_real(&lines, ShadowMode::Off, false);
        if obs_lines.len() != lines.len() || !events.is_empty() || obs_lines.iter().any(|o| !matches!(o.outcome, Outcome::Value(_) | Outcome::Error(..))) {
            // judged by the other families
            st.count("prompt-binary:skipped-in-process-anomaly");
            return;
        }
        // expected transcript
        let mut want_out = String::new();
        let mut want_err: Vec<String> = vec![];
        for o in &obs_lines {
            want_out.push_str(">>> ");
            for l in &o.output {
                want_out.push_str(l);
                want_out.push('\n');
            }
            match &o.outcome {
                Outcome::Value(v) => {
                    if !matches!(v, Val::Null) {
                        let mut s = String::new();
                        if display_val(v, &mut s).is_none() {
                            st.count("prompt-binary:skipped-unmodelled-rendering");
                            return;
                        }
                        want_out.push_str(&s);
                        want_out.push('\n');
                    }
                }
                Outcome::Error(k, _) => want_err.push(k.name().to_string()),
                _ => unreachable!(),
            }
        }
        want_out.push_str(">>> ");
        use std::io::Write;
        let child = std::process::Command::new("bash")
            .arg("-c")
            .arg("ulimit -S -t 20; ulimit -H -t 30; exec timeout 600 \"$0\"")
            .arg(&bin_s)
            .stdin(std::process::Stdio::piped())
            .stdout(std::process::Stdio::piped())
            .stderr(std::process::Stdio::piped())
            .spawn();
        let mut child = match child {
            Ok(c) => c,
            Err(e) => {
                st.inconclusive(format!("the prompt could not be started: {}", e));
                return;
            }
        };
        if let Some(mut inp) = child.stdin.take() {
            for l in &lines {
                let _ = writeln!(inp, "{}", l.text);
            }
        }
        st.evaluations += 1;
        let o = match child.wait_with_output() {
            Ok(o) => o,
            Err(_) => return,
        };
        st.count("prompt-binary:sessions");
        st.add("prompt-binary:lines", lines.len() as u64);
        use std::os::unix::process::ExitStatusExt;
        if o.status.code() == Some(124) {
            st.count("case-inconclusive:prompt-watchdog");
            return;
        }
        let got_out = String::from_utf8_lossy(&o.stdout).to_string();
        let got_err_text = String::from_utf8_lossy(&o.stderr).to_string();
        if o.status.code() != Some(0) {
            st.violation("prompt-binary:abnormal-end", format!("the prompt ended with {:?} (signal {:?}); stderr: {}", o.status.code(), o.status.signal(), crate::obs::clip(&got_err_text, 400)), &session_text(&lines));
            return;
        }
        // errors are printed with {:?}: `TypeError("…")` — the kind is the part before the parenthesis
        let got_err: Vec<String> = got_err_text.lines().filter_map(|l| l.split('(').next()).map(|k| k.trim_end_matches("Error").to_string()).collect();
        if got_out != want_out {
            st.violation("prompt-binary:output", format!("the prompt printed\n{}\nexpected (what the retained compiler + VM of the harness yields line by line)\n{}", crate::obs::clip(&got_out, 600), crate::obs::clip(&want_out, 600)), &session_text(&lines));
        } else if got_err != want_err {
            st.violation("prompt-binary:errors", format!("the prompt reported {:?}, expected {:?}", got_err, want_err), &session_text(&lines));
        }
    }
}

/// (built once per process: it is asked for several times per case, and one of its sessions has 65 000 lines)
pub fn directed() -> &'static Vec<(&'static str, Vec<&'static str>)> {
    static D: std::sync::OnceLock<Vec<(&'static str, Vec<&'static str>)>> = std::sync::OnceLock::new();
    D.get_or_init(directed_sessions)
}

fn directed_sessions() -> Vec<(&'static str, Vec<&'static str>)> {
    vec![
        ("retained-int", vec!["stel a = 100", "a"]),
        ("function-replaced-by-a-line-without-declarations", vec!["stel f = functie(x) { x + 1 }", "stel g = functie(x) { x - 1 }", "f = functie(x) { x * 2 }", "g(21)", "f(21)", "stel h = functie(x) { x * x }", "[f(3), g(3), h(3)]"]),
        ("function-stored-into-array-by-a-line-without-declarations", vec!["stel fs = [0, 0]", "fs[0] = functie(x) { x + 100 }", "1 + 1", "stel k = fs[0]", "k(1)"]),
        ("function-passed-and-kept-by-an-earlier-function", vec!["stel bewaar = [0]", "functie houd(f) { bewaar[0] = f; 0 }", "houd(functie(x) { x + 7 })", "2 + 2", "stel terug = bewaar[0]", "terug(1)"]),
        ("blank-and-comment-lines-between", vec!["stel s = \"hallo \" + \"wereld\"", "stel l = [1.5, \"twee\", [3.5]]", "// niets", "{}", "s", "l", "   ", "[s, l]"]),
        ("heap-stored-then-runtime-failure", vec!["stel a = [0, 0]", "stel b = 0", "a[0] = 2.5 * 1.0; b = \"x\" + \"y\"; [1][5]; b = 0", "[a, b]", "stel c = 0.75", "[a, b, c]"]),
        ("empty-block-value-then-failure", vec!["stel a = 1", "als ja { }", "stel b = 2", "onbekend", "b", "stel c = 3", "[a, b, c]"]),
        ("empty-else-value-then-failure", vec!["stel r = als nee { 1 } anders { }", "stel b = 2", "stop", "[r, b]"]),
        ("empty-loop-then-failure", vec!["zolang nee { }", "stel b = 2", "{ stel c = 3; onbekend }", "b", "stel b = 4", "b"]),
        ("retained-function", vec!["functie f() { 7 }", "f()"]),
        ("retained-function-var", vec!["stel dubbel = functie(x) { x * 2 }", "dubbel(21)", "dubbel(dubbel(1))"]),
        ("heap-global-array", vec!["stel a = [1.5, \"tekst\", [2]]", "a", "a[1]", "functie g() { 1 } g(); a"]),
        ("heap-stored-into-echoed-array", vec!["stel namen = [\"piet\", \"klaas\"]", "namen", "stel f = functie(x) { x + 1 }", "namen[0] = \"marie\"; 0", "f(1)", "namen", "f(2)", "stel ander = \"zomaar iets\"", "namen"]),
        ("heap-nested-stored-later", vec!["stel m = [[1.5], \"x\"]", "m", "m[1] = [2.5, \"nieuw\"]; 0", "functie g() { [3.5] }; g(); g()", "m", "g()", "m[1]"]),
        ("heap-global-overwritten", vec!["stel a = [1.5, \"een\"]", "a = [2.5, \"twee\"]", "functie g() { 0 }; g()", "a", "stel a = \"drie\"", "g()", "a"]),
        ("heap-global-string", vec!["stel s = \"hallo\"", "s[0] = \"j\"", "s"]),
        ("heap-global-float", vec!["stel x = 1.5", "x * 2.0", "x"]),
        ("string-constant-reuse", vec!["\"abc\"", "\"abc\"", "stel t = \"abc\"; t"]),
        ("float-constant-reuse", vec!["1.5", "1.5 + 1.5", "stel u = 1.5; u"]),
        ("compile-error-then-ok", vec!["stel a = 1", "print(\"x\"); a = a + 1; onbekend", "a"]),
        ("compile-error-in-block", vec!["stel a = 1", "{ stel q = 2; onbekend }", "stel r = 3; [a, r]"]),
        ("compile-error-in-function", vec!["stel a = 1", "functie h(p) { stel l = p; onbekend }", "stel r = 3; [a, r]"]),
        ("compile-error-in-loop", vec!["stel a = 1", "zolang a < 3 { a += 1; onbekend }", "stop", "a"]),
        ("compile-error-in-block-shadowing", vec!["stel a = 1", "als a == 1 { stel a = 50; onbekend }", "a", "a + 1", "functie f() { a * 10 }", "f()"]),
        ("compile-error-in-block-new-name", vec!["stel a = 1", "{ stel nieuw = 2; onbekend }", "nieuw"]),
        ("compile-error-after-declaration", vec!["stel a = 1", "stel b = 2; onbekend", "b", "stel c = 3; [a, c]"]),
        ("compile-error-in-nested-function", vec!["stel a = 1", "functie buiten() { functie binnen(q) { stel a = 2; onbekend } }", "a", "functie g(x) { x + a }; g(1)"]),
        ("misplaced-stop-after-declaration", vec!["stel a = 1", "stel d = 4; stop", "d", "a"]),
        ("parse-error-then-ok", vec!["stel a = 1", "stel = 5", "a + 1"]),
        ("unclosed-block", vec!["stel a = 1", "{ stel a = 2", "a"]),
        ("runtime-error-then-ok", vec!["stel a = 1; stel b = [1, 2]", "a = a + 1; b[9]; a = a + 100", "[a, b]"]),
        ("runtime-error-in-call", vec!["stel a = 1", "functie k(x) { a = 5; x / 0 }; k(1); a = 9", "a", "functie m() { 3 }; m()"]),
        ("runtime-error-pending-operands", vec!["stel a = 1", "[1, 2, [3, 4, 1 / 0]]", "a", "[a]"]),
        ("error-with-heap-result", vec!["stel a = [1.5]", "a[0] = 2.5; a[9]", "a"]),
        ("redeclare-across-lines", vec!["stel a = 1", "stel a = \"twee\"", "a"]),
        ("many-lines", vec!["stel n = 0", "n += 1", "n += 1", "n += 1", "n += 1", "n += 1", "n += 1", "n += 1", "n += 1", "n += 1", "n"]),
        ("print-across", vec!["stel a = 1", "print(\"a={}\", a)", "a = 2; print(\"a={}\", a)", "a"]),
        // functions made inside a top-level block that use a name of that block (or their own), kept in an earlier global
        ("function-from-a-block-kept-in-an-earlier-global", vec!["stel uit = 0", "als ja { functie fac(n) { als n < 2 { 1 } anders { n * fac(n - 1) } } uit = fac }", "uit(5)", "stel g = 0", "{ stel t = 7; g = functie() { t } }", "g()", "1 + 1", "[uit(3), g()]"]),
        ("function-from-a-loop-body-kept-in-an-array", vec!["stel fs = [0, 0, 0]", "stel i = 0", "zolang i < 3 { stel stap = i * 10; functie plus(x) { x + 1 } fs[i] = plus; i += 1 }", "stel f = fs[2]", "f(4)", "stel nieuw = 5", "f(nieuw)"]),
        // a line typed again after it was refused: the same function literal at the same place
        ("retyped-after-a-compile-error-then-much-code", vec!["stel f = functie() { 1 }; onbekend", "stel g = functie() { 42 }", bulk_array(), "stel x = 7", "g()", "[x, g(), lengte(groot)]"]),
        ("retyped-after-a-run-time-error-then-much-code", vec!["stel f = functie() { 1 }; [1][5]", "stel g = functie() { 42 }", bulk_statements(), "stel x = 7", "g()", "f()", "[x, g(), f()]"]),
        // more code than a 16-bit offset can address, in one session
        ("calls-behind-64k-of-code", vec!["functie som(a, b) { a + b }", bulk_statements(), bulk_statements(), "som(20, 1)", "stel i = 0; zolang i < 3 { i += 1 }; i", "functie laat(x) { als x > 1 { antwoord x * 2 }; x }", "[laat(1), laat(2), som(1, 2)]", bulk_array(), "stel j = 0; stel n = 0; zolang j < 4 { j += 1; als j == 2 { volgende }; als j == 4 { stop }; n += 1 }; [j, n, laat(5)]"]),
        // tens of thousands of refused lines, each with a literal of its own: they leave nothing behind (the constant pool
        // holds 65 535 entries)
        ("many-refused-lines", many_refused_lines()),
        // brackets that are not structure: inside strings and comments, and closers without an opener
        ("brackets-inside-strings-and-comments", vec!["stel s = \":)\"", "1 + 1", "print(\"}\")", "// ) ] }", "stel t = \"(\"", "lengte(t)", "stel u = \"[{\" // ((", "u", ")", "2 + 2", "]", "}", "3 + 3"]),
        ("prompt-commands-are-lines-like-any-other", vec!["stel teller = 0", "stel verhoog = functie() { teller = teller + 1 }", "verhoog()", ":wis", "stel a = 10", "stel b = b", "b()", "a", ":reset", "verhoog()", "teller", ":q"]),
        // (known finding: the code of a line that fails while running stays in the session)
        ("run-time-failures-leave-their-code", vec!["stel a = 1", bulk_statements_failing(), bulk_statements_failing(), "a", "als a == 1 { 2 } anders { 3 }", "a + 1"]),
        ("functions-on-both-sides-of-much-code", vec!["stel a = functie(x) { x + 1 }", bulk_statements(), "stel b = functie(x) { a(x) * 2 }", bulk_statements(), "stel c = functie(x) { b(x) - 1 }", bulk_statements(), "[a(1), b(1), c(1)]", "a = functie(x) { x + 100 }", "[a(1), b(1), c(1)]"]),
    ]
}

fn many_refused_lines() -> Vec<&'static str> {
    static S: std::sync::OnceLock<Vec<String>> = std::sync::OnceLock::new();
    let v = S.get_or_init(|| {
        let mut v = vec!["stel a = 70001".to_string(), "stel t = \"tekst\"".to_string()];
        // (interpreted by Miri, building 65 000 lines takes minutes per process; the session is not run there anyway)
        let n = if std::env::var("NLV_FLAVOUR").map(|f| f == "miri").unwrap_or(false) { 30 } else { 65_600 };
        for i in 0..n {
            v.push(match i % 3 {
                0 => format!("{} + bestaatniet", 100_000 + i),
                1 => format!("\"tekst {}\" + bestaatniet", i),
                _ => format!("{}.25 + bestaatniet", i),
            });
        }
        v.push("stel c = 70002".to_string());
        v.push("[a + 1, c, t, \"nieuw\", 0.75]".to_string());
        v
    });
    v.iter().map(|s| s.as_str()).collect()
}

/// one line of 9 000 statements (36 KB of code) / one declaration of an 11 000-element array literal (33 KB of code)
fn bulk_statements() -> &'static str {
    static S: std::sync::OnceLock<String> = std::sync::OnceLock::new();
    S.get_or_init(|| format!("{}8", "0; ".repeat(9_000))).as_str()
}
fn bulk_statements_failing() -> &'static str {
    static S: std::sync::OnceLock<String> = std::sync::OnceLock::new();
    S.get_or_init(|| format!("{}[1][5]", "0; ".repeat(9_000))).as_str()
}
fn bulk_array() -> &'static str {
    static S: std::sync::OnceLock<String> = std::sync::OnceLock::new();
    S.get_or_init(|| format!("stel groot = [{}0]", "1, ".repeat(10_999))).as_str()
}

fn random_session(r: &mut Rng) -> Vec<Line> {
    let n = r.range(4, 12);
    let mut lines = vec![];
    let mut ints: Vec<String> = vec![];
    let mut arrs: Vec<String> = vec![];
    let mut strs: Vec<String> = vec![];
    let mut fns: Vec<String> = vec![];
    let mut lines_text: Vec<String> = vec![];
    let mut fresh = 0;
    let mut pending_probe: Option<String> = None;
    for _ in 0..n {
        let pick_int = |r: &mut Rng, ints: &Vec<String>| -> String {
            if ints.is_empty() {
                format!("{}", r.range(0, 9))
            } else {
                ints[r.below(ints.len() as u64) as usize].clone()
            }
        };
        let k = r.below(52);
        let text = match k {
            // what people type at a prompt that is not the language: it is a line like any other (refused, or a name)
            50 | 51 => (*r.pick(&[":wis", ":hulp", ":stop", ":help", ":quit", ":q", ":reset", ":clear", ".exit", ".help", "\\q", "?", "help", "exit", "quit", "clear", "wis", "hulp", "#reset", "%reset", "!!", "exit()", "help()"])).to_string(),
            // a line that is refused (compile time) or fails (run time) after a function literal, then typed again
            46 => {
                fresh += 1;
                let name = format!("fn{}", fresh);
                let body = r.range(1, 9);
                let bad = if r.chance(1, 2) { format!("stel {} = functie(x) {{ x + {} }}; onbekend_{}", name, body, fresh) } else { format!("stel {} = functie(x) {{ x + {} }}; [1][7]", name, body) };
                lines_text.push(bad.clone());
                lines.push(Line { text: bad, budget: None });
                fresh += 1;
                let name2 = if r.chance(1, 2) { name.clone() } else { format!("fn{}", fresh) };
                let t = format!("stel {} = functie(x) {{ x + {} }}", name2, if r.chance(1, 2) { body } else { r.range(1, 9) });
                fns.push(name2);
                t
            }
            // much code in one line (the session's code grows past 32 KiB, 64 KiB, …)
            47 => {
                if r.chance(1, 2) {
                    bulk_statements().to_string()
                } else {
                    fresh += 1;
                    format!("stel bulk{} = [{}0]; lengte(bulk{})", fresh, "1, ".repeat(10_999), fresh)
                }
            }
            // a function made inside a top-level block, using a name of that block, kept in an earlier global
            48 | 49 => {
                fresh += 1;
                let name = format!("fn{}", fresh);
                let decl = format!("stel {} = 0", name);
                lines_text.push(decl.clone());
                lines.push(Line { text: decl, budget: None });
                fns.push(name.clone());
                if k == 48 {
                    format!("{{ stel erbij{} = {}; {} = functie(x) {{ x + erbij{} }} }}", fresh, r.range(1, 9), name, fresh)
                } else {
                    format!("als ja {{ functie hulp{}(n) {{ als n < 1 {{ 0 }} anders {{ n + hulp{}(n - 1) }} }} {} = hulp{} }}", fresh, fresh, name, fresh)
                }
            }
            // functions held by globals: declared, replaced by a line that declares nothing, stored into an array, called later
            37 => {
                fresh += 1;
                let name = format!("fn{}", fresh);
                let t = format!("stel {} = functie(x) {{ x + {} }}", name, r.range(1, 9));
                fns.push(name);
                t
            }
            38 if !fns.is_empty() => format!("{} = functie(x) {{ x * {} }}", fns[r.below(fns.len() as u64) as usize], r.range(2, 9)),
            39 if !fns.is_empty() && !arrs.is_empty() => format!("{}[0] = functie(y) {{ y - {} }}; {} = {}[0]; 0", arrs[r.below(arrs.len() as u64) as usize], r.range(1, 9), fns[r.below(fns.len() as u64) as usize], arrs[r.below(arrs.len() as u64) as usize]),
            40 | 41 if !fns.is_empty() => format!("{}({})", fns[r.below(fns.len() as u64) as usize], r.range(0, 20)),
            // lines that compile to nothing
            42 => (*r.pick(&["// alleen commentaar", "{}", "{ }", "   ", "// één 💖"])).to_string(),
            // a line that stores fresh heap values into globals and then fails at run time (what it stored stays stored)
            43 if !arrs.is_empty() => {
                let a = &arrs[r.below(arrs.len() as u64) as usize];
                fresh += 1;
                format!("{}[0] = [{}.5 * 2.0, \"vers\" + \"{}\"]; stel vers{} = string({}) + \"!\"; [1][5]; {}[1] = 0", a, r.range(0, 9), fresh, fresh, r.range(10, 99), a)
            }
            44 if !ints.is_empty() => {
                fresh += 1;
                format!("stel h{} = [{} * 1.5, string({})]; {} = {} / 0", fresh, pick_int(r, &ints), pick_int(r, &ints), pick_int(r, &ints), pick_int(r, &ints))
            }
            45 => {
                // read back what lines of kind 43 / 44 stored
                let mut items: Vec<String> = arrs.iter().take(3).cloned().collect();
                for k in 1..=fresh {
                    if lines_text.iter().any(|t: &String| t.contains(&format!("stel h{} =", k))) {
                        items.push(format!("h{}", k));
                    }
                }
                format!("[{}]", items.join(", "))
            }
            // a global string: written through (successfully, and in ways that must fail and change nothing), read back
            33 => {
                fresh += 1;
                let name = format!("s{}", fresh);
                let t = format!("stel {} = \"{}\"", name, *r.pick(&["hello", "aé€💖", "z", "tekst met spaties"]));
                strs.push(name);
                t
            }
            34 if !strs.is_empty() => {
                let s = &strs[r.below(strs.len() as u64) as usize];
                match r.below(5) {
                    0 => format!("{}[{}] = \"x\"", s, r.range(20, 40)),
                    1 => format!("{}[0] = {}", s, r.range(0, 9)),
                    2 => format!("{}[ja] = \"x\"", s),
                    3 => format!("{}[0 - 30] = \"x\"", s),
                    _ => format!("{}[0] = [\"x\"]", s),
                }
            }
            35 if !strs.is_empty() => format!("{}[0] = \"{}\"", strs[r.below(strs.len() as u64) as usize], *r.pick(&["T", "é", "💖"])),
            36 if !strs.is_empty() => {
                let s = &strs[r.below(strs.len() as u64) as usize];
                format!("[{}, lengte({}), {}[0], {}[-1]]", s, s, s, s)
            }
            // a whole generated program as one line (every construct of the language, in the global context of the
            // session: its declarations become globals of the session, its blocks open and close scopes there)
            27..=30 => {
                let profile = crate::gen::PROFILES[r.below(crate::gen::PROFILES.len() as u64) as usize];
                let (p, _) = crate::gen::random_program(r, profile);
                crate::print::to_text(&p).replace('\n', " ")
            }
            // empty blocks, as statements and in value position
            31 | 32 => {
                fresh += 1;
                match r.below(7) {
                    0 => "als ja { }".to_string(),
                    1 => format!("stel leeg{} = als nee {{ }} anders {{ }}", fresh),
                    2 => "zolang nee { }".to_string(),
                    3 => "{ }".to_string(),
                    4 => "als nee { 1 } anders { }".to_string(),
                    5 => format!("functie niks{}() {{ }}; niks{}()", fresh, fresh),
                    _ => "[als ja { }, 1]".to_string(),
                }
            }
            0 | 1 => {
                fresh += 1;
                let name = format!("g{}", fresh);
                let t = format!("stel {} = {}", name, r.range(-5, 50));
                ints.push(name);
                t
            }
            2 => {
                fresh += 1;
                let name = format!("l{}", fresh);
                let t = format!("stel {} = [{}, {}, \"s\", 2.5]", name, r.range(0, 9), pick_int(r, &ints));
                arrs.push(name);
                t
            }
            3 | 4 if !ints.is_empty() => format!("{} = {} + {}", pick_int(r, &ints), pick_int(r, &ints), r.range(1, 9)),
            5 if !ints.is_empty() => format!("{} {}= {}", pick_int(r, &ints), r.pick(&["+", "-", "*"]), r.range(1, 5)),
            6 if !arrs.is_empty() => format!("{}[{}] = {}", arrs[r.below(arrs.len() as u64) as usize], r.range(-2, 1), pick_int(r, &ints)),
            7 => {
                let mut items: Vec<String> = ints.iter().take(4).cloned().collect();
                items.extend(arrs.iter().take(2).cloned());
                format!("[{}]", items.join(", "))
            }
            8 if !ints.is_empty() => {
                let g = pick_int(r, &ints);
                format!("stel i = 0; zolang i < {} {{ i += 1; {} += i }}", r.range(0, 4), g)
            }
            9 if !ints.is_empty() => {
                let g = pick_int(r, &ints);
                format!("functie h(x) {{ x * 2 + 1 }}; {} = h({})", g, g)
            }
            10 => format!("print(\"v={{}} {{}}\", {}, {})", pick_int(r, &ints), r.range(0, 9)),
            11 => "stel = 5".to_string(),
            12 => format!("print(\"voor\"); {} ; onbekend_{}", if ints.is_empty() { "1".to_string() } else { format!("{} = 77", pick_int(r, &ints)) }, fresh),
            13 if !ints.is_empty() => {
                let g = pick_int(r, &ints);
                format!("{} = {} + 1; [1][5]; {} = {} + 1000", g, g, g, g)
            }
            14 if !ints.is_empty() => {
                let g = pick_int(r, &ints);
                format!("print(\"deel\"); {} = 3; {} = {} / 0; {} = 4", g, g, g, g)
            }
            // compile errors inside an open block / branch / loop / function, after a declaration that shadows a
            // global or introduces a new name: nothing of it may stay visible
            16 => {
                fresh += 1;
                let shadow = if ints.is_empty() || r.chance(1, 3) { format!("z{}", fresh) } else { pick_int(r, &ints) };
                pending_probe = Some(shadow.clone());
                match r.below(4) {
                    0 => format!("{{ stel {} = 99; onbekend_{} }}", shadow, fresh),
                    1 => format!("als ja {{ stel {} = 98; {{ onbekend_{} }} }}", shadow, fresh),
                    2 => format!("stel teller = 0; zolang teller < 1 {{ teller += 1; stel {} = 97; onbekend_{} }}", shadow, fresh),
                    _ => format!("functie kapot(p) {{ stel {} = 96; onbekend_{} }}", shadow, fresh),
                }
            }
            17 | 18 => match pending_probe.take() {
                // read the name a failed line tried to declare / shadow
                Some(n) => n,
                None => format!("{} + 1", pick_int(r, &ints)),
            },
            19 => format!("stel v{} = 5; stop", fresh),
            // heap values across lines: echo a global array (its result is handed out), store fresh heap values
            // into it, make the collector run, read it again
            21 if !arrs.is_empty() => arrs[r.below(arrs.len() as u64) as usize].clone(),
            22 if !arrs.is_empty() => format!("{}[{}] = \"tekst{}\"; 0", arrs[r.below(arrs.len() as u64) as usize], r.range(0, 3), fresh),
            23 if !arrs.is_empty() => format!("{}[{}] = [{}.5, \"in\"]; 0", arrs[r.below(arrs.len() as u64) as usize], r.range(0, 3), r.range(0, 9)),
            24 => format!("functie g{}(x) {{ stel t = [x, \"tijdelijk\"]; x + 1 }}; g{}({})", fresh, fresh, r.range(0, 9)),
            25 if !arrs.is_empty() => {
                let a = &arrs[r.below(arrs.len() as u64) as usize];
                format!("[{}, lengte({}), {}[0]]", a, a, a)
            }
            26 => {
                fresh += 1;
                let name = format!("l{}", fresh);
                let t = format!("stel {} = [\"a{}\", {}.25, [\"diep\"], 0]", name, fresh, r.range(0, 9));
                arrs.push(name);
                t
            }
            20 => "stel teller = 0; zolang teller < 2 { teller += 1; als teller > 5 { stel q = [ } }".to_string(),
            _ => format!("{} + 1", pick_int(r, &ints)),
        };
        // now and then cut the line after k instructions
        let budget = if r.chance(1, 6) { Some(r.below(40)) } else { None };
        lines_text.push(text.clone());
        lines.push(Line { text, budget });
    }
    lines
}

fn session_text(lines: &[Line]) -> String {
    lines
        .iter()
        .map(|l| match l.budget {
            Some(k) => format!("{}    // cut after {} instructions", l.text, k),
            None => l.text.clone(),
        })
        .collect::<Vec<_>>()
        .join("\n")
}

impl C17 {
    /// judge one session (with the given budgets); returns false when a violation was recorded
    fn judge(&self, lines: &[Line], fam: &str, ctx: &Ctx, st: &mut Stats) -> bool {
        let text = session_text(lines);
        let (shadow, probes) = match ctx.flavour {
            Flavour::Asan | Flavour::Miri => (ShadowMode::Off, false),
            _ => (ShadowMode::Quarantine, true),
        };
        let (mut obs_lines, events) = run_session_real(lines, shadow, probes);
        st.evaluations += 1;
        st.add("lines", obs_lines.len() as u64);
        // Jump operands are 16-bit positions in the session's code: once a session holds more than 64 KiB of code, a line
        // with a branch or a loop is refused with the documented limit error (`programma is te groot`) — exactly as it
        // would be as the last line of the one program. The session is judged up to the first such line.
        let mut lines = lines;
        if let Some(l) = obs_lines.iter().position(|o| matches!(&o.outcome, Outcome::Error(crate::val::ErrKind::Syntax, m) if m.contains("programma is te groot"))) {
            // … provided the one program made of the successful lines and this one really is too big
            let mut program = String::new();
            for (k, o) in obs_lines[..l].iter().enumerate() {
                if matches!(o.outcome, Outcome::Value(_)) && !lines[k].text.trim().is_empty() {
                    program.push_str(&lines[k].text);
                    program.push_str(";\n");
                }
            }
            program.push_str(&lines[l].text);
            let whole = obs::eval_observed(&program, &obs::ObsCfg::plain(RUNAWAY_BUDGET));
            if matches!(&whole.outcome, Outcome::Error(crate::val::ErrKind::Syntax, m) if m.contains("programma is te groot")) {
                st.count("sessions-judged-up-to-the-code-size-limit");
                lines = &lines[..l];
                obs_lines.truncate(l);
            } else {
                // (two different causes: what refused lines left behind — nothing, since fix e380644 — and the code of lines
                //  that were accepted and then failed while running, which stays: known finding, DESIGN §13)
                let after_run_time_failures = obs_lines[..l].iter().any(|o| o.stage == "run" && !matches!(o.outcome, Outcome::Value(_)));
                st.violation(
                    &format!("{}:size-limit-although-the-one-program-is-small:{}", fam, if after_run_time_failures { "after-lines-that-failed-while-running" } else { "after-refused-lines-only" }),
                    format!("line {} was refused with {}; the one program made of the {} successful lines before it and this line gives {}", l + 1, obs_lines[l].outcome.render(), obs_lines[..l].iter().filter(|o| matches!(o.outcome, Outcome::Value(_))).count(), crate::obs::clip(&whole.outcome.render(), 200)),
                    &crate::obs::clip(&text, 2_000),
                );
                return false;
            }
        }
        // a line without a cut that ran into the runaway bound: a generated loop that does not end — not a session to judge
        if obs_lines.iter().zip(lines.iter()).any(|(o, l)| l.budget.is_none() && matches!(o.outcome, Outcome::Budget)) {
            st.count("sessions-not-judged:runaway-line");
            return true;
        }
        let mut ok = true;
        // (3a) monitor events anywhere in the session
        if !events.is_empty() {
            st.violation(&format!("{}:monitor:{}", fam, events[0]), format!("monitor events during the session: {:?}", events), &text);
            return false;
        }
        for (i, o) in obs_lines.iter().enumerate() {
            st.count(&format!("line-outcome:{}", o.outcome.class().split('@').next().unwrap_or("")));
            match &o.outcome {
                Outcome::Panic(l, m) => {
                    st.violation(&format!("{}:panic@{}", fam, obs::short_loc(l)), format!("line {} panicked: {}", i + 1, obs::clip(m, 200)), &text);
                    return false;
                }
                Outcome::Stop => {
                    st.violation(&format!("{}:monitor-stop", fam), format!("line {} stopped by a monitor", i + 1), &text);
                    return false;
                }
                _ => {}
            }
            // (3b) carry-over: after a line that completed the operand stack is empty and only the top-level frame exists
            if matches!(o.outcome, Outcome::Value(_)) && (o.stack_len != 0 || o.frames != 1) {
                st.violation(&format!("{}:carry-over", fam), format!("after line {} the VM holds {} stack slots and {} frames", i + 1, o.stack_len, o.frames), &text);
                return false;
            }
        }
        // trees as the real parser sees them
        let trees: Vec<Option<Vec<Stmt>>> = lines.iter().map(|l| ast::parse_real(&l.text).ok()).collect();

        // (2) session model; cut lines: find the number of completed assignments that explains what later lines observe
        let mut limits: Vec<Option<u64>> = vec![None; lines.len()];
        let cut_lines: Vec<usize> = obs_lines.iter().enumerate().filter(|(_, o)| matches!(o.outcome, Outcome::Budget)).map(|(i, _)| i).collect();
        // depth-first search over the cut lines: how many assignments did each of them complete?
        let mut explained = true;
        if !cut_lines.is_empty() {
            let mut runs = 0u32;
            let found = self.search_cuts(&trees, &obs_lines, &cut_lines, 0, &mut limits, &mut runs);
            match found {
                Some(true) => st.add("cuts-explained-by-a-prefix", cut_lines.len() as u64),
                Some(false) => {
                    st.violation(
                        &format!("{}:cut-state-not-a-prefix", fam),
                        format!("lines {:?} were cut (budgets {:?}); no choice of completed-assignment prefixes explains what the following lines observed", cut_lines.iter().map(|c| c + 1).collect::<Vec<_>>(), cut_lines.iter().map(|c| lines[*c].budget).collect::<Vec<_>>()),
                        &text,
                    );
                    ok = false;
                }
                None => {
                    st.count("case-inconclusive:cut-search-budget");
                    explained = false;
                }
            }
        }
        if ok && explained {
            let m = run_model(&trees, &limits, FUNCTIONS_ACROSS_LINES);
            if let Some((i, why)) = &m.stopped_at {
                st.count(&format!("model-stops:{}", why.split(':').next().unwrap_or("")));
                let _ = i;
            }
            if let Some((i, d)) = self.compare_range(&m, &obs_lines, 0, obs_lines.len(), false) {
                st.violation(&format!("{}:model:{}", fam, d.0), format!("line {}: {}", i + 1, d.1), &text);
                ok = false;
            } else {
                st.add("lines-agreeing-with-model", m.lines.iter().filter(|l| l.is_some()).count() as u64);
            }
        }
        // (1) metamorphic: no run-time failure, no cut -> each successful line equals the last line of the concatenation
        // (a line that fails at run time is compared as well — as the last line of the one program it must fail alike — and
        //  ends the comparison: what it assigned before failing is the model's business)
        if ok && cut_lines.is_empty() {
            let mut program = String::new();
            let mut printed = 0usize;
            for (i, o) in obs_lines.iter().enumerate() {
                let failed_at_run_time = o.stage == "run" && matches!(o.outcome, Outcome::Error(..));
                if failed_at_run_time {
                    let whole = obs::eval_observed(&format!("{}{}", program, lines[i].text), &obs::ObsCfg::default());
                    st.count("metamorphic-comparisons:failing-line");
                    let new_out: Vec<String> = whole.output.iter().skip(printed).cloned().collect();
                    let same = match (&whole.outcome, &o.outcome) {
                        (Outcome::Error(a, _), Outcome::Error(b, _)) => a == b && new_out == o.output,
                        _ => false,
                    };
                    if !same {
                        st.violation(
                            &format!("{}:failing-line-differs-from-one-program", fam),
                            format!("line {} gave {} with output {:?}; as the last line of one program made of the successful lines it gives {} with new output {:?}", i + 1, o.outcome.render(), o.output, whole.outcome.render(), new_out),
                            &text,
                        );
                        ok = false;
                    }
                    break;
                }
                if !matches!(o.outcome, Outcome::Value(_)) {
                    continue;
                }
                // (a line of nothing but blanks adds nothing to the one program; a separator on its own would be an empty
                //  statement, which the grammar does not have)
                if !lines[i].text.trim().is_empty() {
                    program.push_str(&lines[i].text);
                    program.push_str(";\n");
                }
                let whole = obs::eval_observed(&program, &obs::ObsCfg::default());
                st.count("metamorphic-comparisons");
                let new_out: Vec<String> = whole.output.iter().skip(printed).cloned().collect();
                printed = whole.output.len();
                let same = match (&whole.outcome, &o.outcome) {
                    (Outcome::Value(a), Outcome::Value(b)) => {
                        // the value of a line that does not end in an expression statement is unspecified (§4.3(9))
                        let ends_in_expr = matches!(trees[i].as_ref().and_then(|t| t.last()), Some(Stmt::Expr(_)));
                        (!ends_in_expr || same_val(a, b)) && new_out == o.output
                    }
                    _ => false,
                };
                if !same {
                    st.violation(
                        &format!("{}:differs-from-one-program", fam),
                        format!("line {} gave {} with output {:?}; as the last line of one program made of the successful lines it gives {} with new output {:?}", i + 1, o.outcome.render(), o.output, whole.outcome.render(), new_out),
                        &text,
                    );
                    ok = false;
                    break;
                }
            }
        }
        ok
    }

    /// Some(true): limits found (left in `limits`); Some(false): no combination explains the observations; None: gave up
    fn search_cuts(&self, trees: &[Option<Vec<Stmt>>], obs_lines: &[LineObs], cut_lines: &[usize], ci: usize, limits: &mut Vec<Option<u64>>, runs: &mut u32) -> Option<bool> {
        if ci == cut_lines.len() {
            return Some(true);
        }
        let cl = cut_lines[ci];
        let upto = cut_lines.get(ci + 1).copied().unwrap_or(obs_lines.len());
        for j in 0..80u64 {
            *runs += 1;
            if *runs > 4000 {
                return None;
            }
            limits[cl] = Some(j);
            let m = run_model(trees, limits, FUNCTIONS_ACROSS_LINES);
            if m.stopped_at.as_ref().map(|s| s.0 <= cl).unwrap_or(false) {
                // the model has no opinion on this line or an earlier one: nothing left to explain
                return Some(true);
            }
            let was_cut = matches!(m.lines[cl], Some((RefOutcome::Unspecified(_), _, _)));
            if self.compare_range(&m, obs_lines, cl, upto, true).is_none() {
                match self.search_cuts(trees, obs_lines, cut_lines, ci + 1, limits, runs) {
                    Some(true) => return Some(true),
                    None => return None,
                    Some(false) => {}
                }
            }
            if !was_cut {
                break;
            }
        }
        limits[cl] = None;
        Some(false)
    }

    /// compare model and observation on lines [from, to); None = agree. `skip_first_value`: the first line is a cut line
    fn compare_range(&self, m: &ModelRun, obs_lines: &[LineObs], from: usize, to: usize, first_is_cut: bool) -> Option<(usize, (String, String))> {
        let _ = &m.interp;
        for i in from..to.min(obs_lines.len()) {
            let o = &obs_lines[i];
            let (want, wout, vspec) = match &m.lines[i] {
                Some(x) => x,
                None => return None, // model has no opinion from here on
            };
            if first_is_cut && i == from {
                // a cut line: its output must be a prefix of what the model printed up to the cut
                // the model stops before an assignment, the implementation at an instruction: one output
                // must be a prefix of the other
                let common = o.output.iter().zip(wout.iter()).all(|(a, b)| a == b);
                if !common {
                    return Some((i, ("cut-output".to_string(), format!("cut line printed {:?}, model printed {:?}", o.output, wout))));
                }
                continue;
            }
            match (&o.outcome, want) {
                (Outcome::Budget, _) => continue,
                (Outcome::Value(v), RefOutcome::Value(w)) => {
                    if &o.output != wout {
                        return Some((i, ("output".to_string(), format!("printed {:?}, expected {:?}", o.output, wout))));
                    }
                    if *vspec && !same_val(v, w) {
                        return Some((i, ("value".to_string(), format!("result {}, expected {}", render_val(v), render_val(w)))));
                    }
                }
                (Outcome::Error(k, msg), RefOutcome::Error(ks)) => {
                    if &o.output != wout {
                        return Some((i, ("output-before-error".to_string(), format!("printed {:?} before the error, expected {:?}", o.output, wout))));
                    }
                    if !ks.has(*k) {
                        return Some((i, ("error-kind".to_string(), format!("error {} ({}), expected one of {}", k.name(), msg, ks.render()))));
                    }
                }
                (got, RefOutcome::Value(w)) => return Some((i, ("error-instead-of-value".to_string(), format!("got {}, expected Value({})", got.render(), render_val(w))))),
                (got, RefOutcome::Error(ks)) => return Some((i, ("value-instead-of-error".to_string(), format!("got {}, expected Err{}", got.render(), ks.render())))),
                (_, RefOutcome::Unspecified(_)) | (_, RefOutcome::OutOfSteps) => return None,
            }
        }
        None
    }
}

/// false while functions defined by one line cannot be called from a later line (known finding); see DESIGN §8 (27)
pub const FUNCTIONS_ACROSS_LINES: bool = true;

impl Check for C17 {
    fn id(&self) -> &'static str {
        "C17"
    }
    fn level(&self) -> &'static str {
        "fault_enumeration"
    }
    fn total_cases(&self, ctx: &Ctx) -> u64 {
        self.fams(ctx).total()
    }
    fn chunk_size(&self, _ctx: &Ctx) -> u64 {
        20
    }
    fn describe_case(&mut self, ctx: &Ctx, idx: u64) -> String {
        session_text(&self.session(ctx, idx).1)
    }

    fn run_case(&mut self, ctx: &Ctx, idx: u64, st: &mut Stats) {
        let (fam, lines) = self.session(ctx, idx);
        st.count(&format!("sessions:{}", fam));
        st.distinct_hash(hash_str(&session_text(&lines)));
        if idx % 997 == 0 {
            st.sample(&session_text(&lines));
        }
        if fam == "directed" {
            let (_, _, i) = self.fams(ctx).locate(idx);
            let name = directed()[i as usize].0;
            self.judge(&lines, &format!("directed:{}", name), ctx, st);
            return;
        }
        if lines.len() > 2_000 && fam != "directed" {
            // (in process only: under valgrind or typed at a terminal a session of 65 000 lines takes minutes)
            st.count("sessions-skipped-in-this-family:too-many-lines");
            return;
        }
        if fam == "prompt-on-a-terminal" {
            self.prompt_on_terminal(&lines, st);
            return;
        }
        if fam == "a-thread-per-line" {
            // the lines of one session one after the other, each on a thread of its own (compiler and machine are handed
            // from thread to thread; nothing runs at the same time): the answers are those of the session on one thread
            if lines.len() > 200 || lines.iter().any(|l| l.text.len() > 5_000) {
                st.count("a-thread-per-line:skipped-big-session");
                return;
            }
            let here = session_answers(&lines, false);
            let there = session_answers(&lines, true);
            st.evaluations += 2;
            st.count("a-thread-per-line:sessions");
            st.add("a-thread-per-line:lines", lines.len() as u64);
            if let Some(k) = (0..here.len().min(there.len())).find(|&k| here[k] != there[k]) {
                st.violation("a-thread-per-line:differs", format!("line {}: on one thread {:?}; with a thread per line {:?}", k + 1, here[k], there[k]), &session_text(&lines));
            } else if here.len() != there.len() {
                st.violation("a-thread-per-line:differs", format!("{} lines answered on one thread, {} with a thread per line", here.len(), there.len()), &session_text(&lines));
            }
            return;
        }
        if fam == "interrupt-at-the-prompt" {
            let mut r = Rng::for_case(ctx.seed, 1790, idx);
            self.interrupt_at_the_prompt(&lines, &mut r, st);
            return;
        }
        if fam == "stdout-closes-early" {
            let mut r = Rng::for_case(ctx.seed, 1791, idx);
            self.stdout_closes_early(&lines, &mut r, st);
            return;
        }
        if fam == "prompt-binary" {
            self.prompt_binary(&lines, st);
            return;
        }
        if fam == "valgrind-prompt" {
            // the session through the interactive prompt of the hook-free release binary, under valgrind memcheck
            let bin_s = format!("{}/harness/target-repo/release/nederlang", crate::sup::root());
            if !std::path::Path::new(&bin_s).exists() {
                st.inconclusive(format!("{} not built", bin_s));
                return;
            }
            // skip sessions with a genuine endless loop
            if lines.iter().any(|l| l.text.contains("zolang ja")) {
                return;
            }
            use std::io::Write;
            let child = std::process::Command::new("timeout")
                .args(["120", "valgrind", "-q", "--error-exitcode=99", "--leak-check=no", bin_s.as_str()])
                .stdin(std::process::Stdio::piped())
                .stdout(std::process::Stdio::null())
                .stderr(std::process::Stdio::piped())
                .spawn();
            let mut child = match child {
                Ok(c) => c,
                Err(e) => {
                    st.inconclusive(format!("valgrind could not be started: {}", e));
                    return;
                }
            };
            if let Some(mut inp) = child.stdin.take() {
                for l in &lines {
                    let _ = writeln!(inp, "{}", l.text.replace('\n', " "));
                }
            }
            st.evaluations += 1;
            if let Ok(o) = child.wait_with_output() {
                st.count("valgrind:prompt-sessions");
                let err = String::from_utf8_lossy(&o.stderr).to_string();
                match o.status.code() {
                    Some(99) => {
                        let class = if err.contains("Invalid read") { "invalid-read" } else if err.contains("Invalid write") { "invalid-write" } else if err.contains("Invalid free") { "invalid-free" } else { "error" };
                        let k = err.find("==").unwrap_or(0);
                        st.violation(&format!("valgrind-prompt:{}", class), crate::obs::clip(&err[k..], 1500), &session_text(&lines));
                    }
                    Some(124) => st.count("case-inconclusive:valgrind-timeout"),
                    None => st.violation("valgrind-prompt:killed-by-signal", crate::obs::clip(&err, 600), &session_text(&lines)),
                    Some(101) => st.violation("valgrind-prompt:panic", crate::obs::clip(&err, 600), &session_text(&lines)),
                    _ => {}
                }
            }
            return;
        }
        if fam == "cuts" {
            // fault enumeration: every line of the session cut after every k
            let (base, _) = run_session_real(&lines, ShadowMode::Off, false);
            for (li, o) in base.iter().enumerate() {
                let n = o.count.min(80);
                for k in 0..n {
                    let mut l2 = lines.clone();
                    l2[li].budget = Some(k);
                    // a probe line after the session so that the state left by the cut is observed
                    l2.push(Line { text: "a".to_string(), budget: None });
                    l2.push(Line { text: "b".to_string(), budget: None });
                    st.count("budget-cuts");
                    if !self.judge(&l2, "cuts", ctx, st) {
                        return;
                    }
                }
            }
            return;
        }
        self.judge(&lines, fam, ctx, st);
    }

    fn summarize(&self, ctx: &Ctx, merged: &Stats) -> Summary {
        let fams = self.fams(ctx);
        let mut inconclusive = vec![];
        if merged.counters.get("budget-cuts").copied().unwrap_or(0) == 0 && ctx.flavour == Flavour::Rel {
            inconclusive.push("no budget cut was exercised".to_string());
        }
        if merged.counters.get("metamorphic-comparisons").copied().unwrap_or(0) == 0 {
            inconclusive.push("no metamorphic comparison was made".to_string());
        }
        Summary {
            rule: "case = one session on a retained Compiler + VM pair, driven like the prompt (parse, compile_ast, run per line). Sessions: all sessions of <= 3 lines over the 14-line alphabet of DESIGN Appendix C (length 3 strided in the quick tier), random sessions of 4-12 lines with failing lines and random cuts, directed sessions; fault enumeration: every line of an alphabet session is cut after every k instructions (k < 80) and the state is probed by following lines. Oracles: reference session model (a statically failing line has no effect; a line failing at run time keeps a prefix of its assignments), eval() of the concatenated successful lines, empty stack / single frame after every line, no shadow-heap or probe event across lines. distinct = distinct sessions".to_string(),
            exhaustive: Some(ctx.tier == Tier::Thorough),
            extra: json!({
                "exhaustive_parts": ["all sessions of 1 and 2 lines over the alphabet", "all sessions of 3 lines (thorough tier)", "every budget cut k < min(80, instructions of the line) of every line of the sessions in the cuts family"],
                "families": fams.fams.iter().map(|f| json!({"name": f.0, "cases": f.1})).collect::<Vec<_>>(),
                "functions_across_lines_checked": FUNCTIONS_ACROSS_LINES,
            }),
            assumptions: vec!["results handed out by a line are released by the harness only after the session ended".to_string(), "referring to a name declared by a line that failed at run time is unspecified (DESIGN §4.3(16))".to_string()],
            inconclusive,
        }
    }
    fn post(&mut self, ctx: &Ctx, merged: &mut Stats) {
        if ctx.flavour == Flavour::Rel && ctx.tier == Tier::Thorough {
            crate::sup::run_sub_flavour("C17", ctx, Flavour::Asan, merged);
            // heap values surviving from one run to the next, under Miri with the shadow heap off
            let mctx = Ctx { seed: ctx.seed, tier: ctx.tier, flavour: Flavour::Miri };
            let n = self.fams(&mctx).total();
            crate::sup::run_miri("C17", ctx, 0, n, 16, merged);
        }
    }
}
