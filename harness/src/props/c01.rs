//! C01 — a program yields what its source denotes. Reference interpreter vs. the real pipeline.

use super::Families;
use crate::ast::{infix, shape_hash, Expr, Op, Stmt};
use crate::diff::{differential, missing_opcodes, Verdict};
use crate::enumerate::Enumerator;
use crate::gen::{random_program, PROFILES};
use crate::obs::{eval_observed, ObsCfg, Outcome};
use crate::print::to_text;
use crate::rng::Rng;
use crate::sup::{Check, Ctx, Flavour, Stats, Summary, Tier};
use crate::val::{render_val, same_val, Val};
use serde_json::json;

pub struct C01 {
    enumerated: Option<Vec<Vec<Stmt>>>,
    corpus: Vec<CorpusCase>,
    /// (slot, construct) edges already reported by this worker
    seen_edges: std::collections::HashSet<(u8, u8)>,
    /// the scale programs (built once: some of the texts are half a megabyte)
    scale: Option<Vec<(String, String)>>,
}

pub struct CorpusCase {
    pub name: &'static str,
    pub text: String,
    pub value: Option<Val>,
    pub output: Vec<String>,
}

fn juffen_lines() -> Vec<String> {
    (1..100)
        .map(|n: i64| if n % 7 == 0 || n.to_string().contains('7') { "Juf!".to_string() } else { n.to_string() })
        .collect()
}

pub fn corpus() -> Vec<CorpusCase> {
    let ex = |f: &str| std::fs::read_to_string(format!("/repo/examples/{}", f)).unwrap_or_default();
    let mut v = vec![
        CorpusCase { name: "examples/fib-loop.nl", text: ex("fib-loop.nl"), value: Some(Val::Int(9227465)), output: vec![] },
        CorpusCase { name: "examples/fib-recursive.nl", text: ex("fib-recursive.nl"), value: Some(Val::Int(46368)), output: vec![] },
        CorpusCase { name: "examples/project-euler-1.nl", text: ex("project-euler-1.nl"), value: Some(Val::Int(233168)), output: vec![] },
        CorpusCase { name: "examples/juffen.nl", text: ex("juffen.nl"), value: None, output: juffen_lines() },
        CorpusCase { name: "examples/selectie-sorteer.nl", text: ex("selectie-sorteer.nl"), value: Some(Val::Null), output: vec!["[1, 2, 3, 4, 5, 6, 7, 8, 9, 10]".into()] },
        CorpusCase {
            name: "examples/voorbeeld.nl",
            text: ex("voorbeeld.nl"),
            value: Some(Val::Null),
            output: vec!["Ja, 2 is een even getal!".into(), "b = 1".into(), "🇳🇱🏆".into(), "[3, 2, 3]".into()],
        },
    ];
    let snippets: Vec<(&'static str, &str, Val, Vec<&str>)> = vec![
        ("readme/expr-1", "1 + 1 * 2 - 3 / 3 % 2", Val::Int(2), vec![]),
        ("readme/expr-2", "!ja", Val::Bool(false), vec![]),
        ("readme/expr-3", "1 > 5", Val::Bool(false), vec![]),
        ("readme/expr-4", "1 > 5 || 5 > 1", Val::Bool(true), vec![]),
        ("readme/expr-5", "(1 > 2 && 2 > 1) || ja", Val::Bool(true), vec![]),
        ("readme/scope", "stel x = 100\n{\n stel y = 100\n y + x\n}\nx", Val::Int(100), vec![]),
        ("readme/assign", "stel x = 1\nx = 2\nx", Val::Int(2), vec![]),
        ("readme/sugar", "stel a = 1\na += 5\na *= 100\na", Val::Int(600), vec![]),
        ("readme/functie-1", "functie optellen(a, b) {\n a + b\n}\noptellen(2, 3)", Val::Int(5), vec![]),
        ("readme/functie-2", "stel optellen = functie(a, b) { a + b }\noptellen(2, 3)", Val::Int(5), vec![]),
        ("readme/fib", "functie fibonacci(n) {\n als n < 2 {\n antwoord n\n }\n\n fibonacci(n - 1) + fibonacci(n - 2)\n}\nfibonacci(15)", Val::Int(610), vec![]),
        ("readme/hogere-orde", "functie opteller(a, b) {\n a + b\n}\nfunctie bereken(f, a, b) {\n f(a, b)\n}\nbereken(opteller, 2, 3)", Val::Int(5), vec![]),
        ("readme/als", "als 1 + 1 == 2 {\n print(\"Ja, 1 + 1 is echt 2!\")\n} anders {\n print(\"Mijn hele leven blijkt een grote leugen.\")\n}", Val::Null, vec!["Ja, 1 + 1 is echt 2!"]),
        ("readme/lus", "stel aantal = 5\nzolang aantal > 0 {\n aantal -= 1\n}\naantal", Val::Int(0), vec![]),
        ("readme/stop", "stel aantal = 1\nzolang ja {\n aantal += 1\n\n als aantal == 100 {\n stop\n }\n}\naantal", Val::Int(100), vec![]),
        ("readme/print", "print(\"Hey {}. Je bent nummer {} die dit echt leest.\", \"jij\", 1337)", Val::Null, vec!["Hey jij. Je bent nummer 1337 die dit echt leest."]),
        ("readme/bool", "bool(1)", Val::Bool(true), vec![]),
        ("readme/int", "int(\"15\")", Val::Int(15), vec![]),
        ("readme/float", "float(\"3.1415\")", Val::Float(3.1415), vec![]),
        ("readme/string", "string(1)", Val::Str("1".into()), vec![]),
        ("readme/lijst-1", "stel a = [1, 2, 3]\na[0]", Val::Int(1), vec![]),
        ("readme/lijst-2", "stel a = [1, 2, 3]\na[0] = 100\na", Val::Array(vec![Val::Int(100), Val::Int(2), Val::Int(3)]), vec![]),
        ("readme/lijst-3", "stel a = [1, 2, 3]\na[-1]", Val::Int(3), vec![]),
    ];
    for (name, text, value, out) in snippets {
        v.push(CorpusCase {
            name,
            text: text.to_string(),
            value: Some(value),
            output: out.into_iter().map(|s| s.to_string()).collect(),
        });
    }
    v
}

impl C01 {
    pub fn new() -> Self {
        C01 { enumerated: None, corpus: corpus(), seen_edges: Default::default(), scale: None }
    }

    fn enum_budget(ctx: &Ctx) -> usize {
        match (ctx.flavour, ctx.tier) {
            (Flavour::Rel, Tier::Quick) => 4,
            (Flavour::Rel, Tier::Thorough) => 5,
            _ => 3,
        }
    }

    fn scale(&mut self, ctx: &Ctx) -> &Vec<(String, String)> {
        if self.scale.is_none() {
            self.scale = Some(crate::scale::programs_for(ctx.flavour, ctx.tier));
        }
        self.scale.as_ref().unwrap()
    }

    fn enumerated(&mut self, ctx: &Ctx) -> &Vec<Vec<Stmt>> {
        if self.enumerated.is_none() {
            self.enumerated = Some(Enumerator::new().programs(Self::enum_budget(ctx)));
        }
        self.enumerated.as_ref().unwrap()
    }

    fn fams(&mut self, ctx: &Ctx) -> Families {
        let n_enum = self.enumerated(ctx).len() as u64;
        let per_profile = match (ctx.flavour, ctx.tier) {
            (Flavour::Rel, Tier::Quick) => 25_000,
            (Flavour::Rel, Tier::Thorough) => 800_000,
            (_, Tier::Quick) => 1_500,
            (_, Tier::Thorough) => 30_000,
        };
        let mut f = vec![("corpus", self.corpus.len() as u64), ("enumerated", n_enum)];
        for p in PROFILES {
            f.push((p.name(), per_profile));
        }
        f.push(("operator-grouping", if ctx.flavour == Flavour::Rel { GROUPING_TOTAL } else { 2_000 }));
        f.push(("wild", per_profile * 2));
        f.push(("scale", self.scale(ctx).len() as u64));
        f.push(("binary-file", if ctx.flavour == Flavour::Rel { ctx.tier.pick(160, 4_000) } else { 0 }));
        Families::new(f)
    }
}

/// programs for the binary's file mode: the bytes of the file (line ends inside string literals, a byte-order mark, no
/// final newline, only a comment, nothing at all) and the amount and shape of the output
fn binary_file_specials() -> Vec<String> {
    let long = "x".repeat(1500);
    vec![
        "stel s = \"ab\r\ncd\"; print(\"{} {} {}\", lengte(s), s[2] == \"\n\", s[3] == \"\n\"); s".to_string(),
        "stel s = \"regel een\r\nregel twee\r\n\"; [lengte(s), s[-1], s[-2] == s[-1]]".to_string(),
        "// alleen commentaar".to_string(),
        "".to_string(),
        "\r\n\r\n1 + 1\r\n".to_string(),
        "1 + 1".to_string(),
        "#!/usr/bin/env nederlang\n1 + 1".to_string(),
        format!("print(\"kop\\n{{}}\", \"{}\"); 1", long),
        format!("print(\"{}\"); print(\"a\\nb\\n{{}}|einde\", \"{}\"); 2", long, long),
        "stel i = 0; zolang i < 3000 { i += 1; print(\"regel {} van de uitvoer\", i) }; i".to_string(),
        format!("stel l = [{}]; print(\"lijst:\\n{{}} |einde\", l); lengte(l)", (0..400).map(|k| k.to_string()).collect::<Vec<_>>().join(", ")),
        "print(\"\"); print(\"\\n\"); print(\"\\n\\n\"); 3".to_string(),
        "stel m = 0.5; [m, m]".to_string(),
        "stel a = [\"x\"]; [a, a, [a]]".to_string(),
    ]
}

const G_OPS: [Op; 13] = [Op::Add, Op::Subtract, Op::Multiply, Op::Divide, Op::Modulo, Op::Lt, Op::Lte, Op::Gt, Op::Gte, Op::Eq, Op::Neq, Op::And, Op::Or];
const GROUPING_TOTAL: u64 = 13 * 13 * 2 * 216;

fn g_atom(k: u64) -> Expr {
    match k {
        0 => Expr::Int(7),
        1 => Expr::Int(2),
        2 => Expr::Bool(true),
        3 => Expr::Bool(false),
        4 => Expr::Float(1.5),
        _ => Expr::Str("ab".to_string()),
    }
}

/// `(x op1 y) op2 z` or `x op1 (y op2 z)` over every pair of binary operators and every operand triple of a pool
/// of six atoms. The tree is the HARNESS's: the reference evaluates it as built, the text is printed with the
/// parentheses the specified precedence table requires and no others. (The random families evaluate the tree the
/// real parser returned, so they cannot see a wrong grouping; this family — like C07 at tree level — can, at the
/// level of the result.)
fn grouping_case(i: u64) -> Vec<Stmt> {
    let (mut k, c) = (i / 6, i % 6);
    let b = k % 6;
    k /= 6;
    let a = k % 6;
    k /= 6;
    let right_nested = k % 2 == 1;
    k /= 2;
    let op2 = G_OPS[(k % 13) as usize];
    let op1 = G_OPS[((k / 13) % 13) as usize];
    let e = if right_nested { infix(g_atom(a), op1, infix(g_atom(b), op2, g_atom(c))) } else { infix(infix(g_atom(a), op1, g_atom(b)), op2, g_atom(c)) };
    vec![Stmt::Expr(e)]
}

pub fn default_cfg(ctx: &Ctx) -> ObsCfg {
    match ctx.flavour {
        // under ASan the raw accesses must execute: probes and shadow heap off
        Flavour::Asan | Flavour::Miri => ObsCfg::plain(2_000_000),
        _ => ObsCfg::default(),
    }
}

impl Check for C01 {
    fn id(&self) -> &'static str {
        "C01"
    }
    fn total_cases(&self, ctx: &Ctx) -> u64 {
        let mut me = C01::new();
        me.fams(ctx).total()
    }
    fn chunk_size(&self, _ctx: &Ctx) -> u64 {
        400
    }
    // the scale programs around 65 536 of something take seconds each (more under the monitors)
    fn chunk_timeout_s(&self, _ctx: &Ctx) -> u64 {
        1800
    }
    fn case_timeout_s(&self, _ctx: &Ctx) -> u64 {
        240
    }
    fn describe_case(&mut self, ctx: &Ctx, idx: u64) -> String {
        self.case_text(ctx, idx).1
    }

    fn run_case(&mut self, ctx: &Ctx, idx: u64, st: &mut Stats) {
        let (fam, text) = self.case_text(ctx, idx);
        let cfg = default_cfg(ctx);
        if fam == "corpus" {
            let (_, _, i) = self.fams(ctx).locate(idx);
            let c = &self.corpus[i as usize];
            let mut cc = cfg.clone();
            cc.budget = Some(200_000_000);
            let o = eval_observed(&c.text, &cc);
            st.evaluations += 1;
            crate::diff::record_opcodes(st);
            st.count("corpus");
            st.distinct_hash(crate::rng::hash_str(&c.text));
            let ok_val = match (&o.outcome, &c.value) {
                (Outcome::Value(v), Some(w)) => same_val(v, w),
                (Outcome::Value(_), None) => true,
                _ => false,
            };
            if !ok_val || o.output != c.output {
                st.violation(
                    &format!("corpus:{}", c.name),
                    format!(
                        "documented result {:?} with {} output lines (first: {:?}); got {} with {} lines (first: {:?}); events {:?}",
                        c.value.as_ref().map(render_val),
                        c.output.len(),
                        c.output.first(),
                        o.outcome.render(),
                        o.output.len(),
                        o.output.first(),
                        o.events
                    ),
                    &c.text,
                );
            }
            // cross-check of the reference itself against the documented outputs
            if let Ok(tree) = crate::ast::parse_real(&c.text) {
                let r = crate::refsem::run_program(&tree, 50_000_000);
                match &r.outcome {
                    crate::refsem::RefOutcome::Value(v) => {
                        let okv = match &c.value {
                            Some(w) => !r.value_specified || same_val(v, w),
                            None => true,
                        };
                        st.count("reference-selfcheck");
                        if !okv || r.output != c.output {
                            st.inconclusive(format!("reference interpreter disagrees with the documented output of {}", c.name));
                        }
                    }
                    crate::refsem::RefOutcome::Unspecified(_) => st.count("reference-selfcheck-unspecified"),
                    _ => st.inconclusive(format!("reference interpreter fails on {}", c.name)),
                }
            }
            return;
        }
        if fam == "binary-file" {
            self.binary_file(&text, st);
            return;
        }
        if fam == "scale" {
            // programs that are ordinary in everything but size (scale.rs); bigger budgets on both sides
            let (_, _, i) = self.fams(ctx).locate(idx);
            let name = self.scale(ctx)[i as usize].0.clone();
            let mut cc = cfg.clone();
            cc.budget = Some(60_000_000);
            let d = differential(&text, &cc, 200_000_000, st);
            st.count("programs:scale");
            match d.verdict {
                Verdict::Agree { .. } => {
                    st.distinct_hash(crate::rng::hash_str(&name));
                    st.set_insert("scale-programs-judged", &name);
                }
                Verdict::Skip(_) | Verdict::Inconclusive(_) => st.count("scale:not-judged"),
                Verdict::Mismatch { sig, detail } => {
                    // at the documented limits of the implementation a syntax error is admissible
                    let limit_error = matches!(d.obs.as_ref().map(|o| &o.outcome), Some(Outcome::Error(crate::val::ErrKind::Syntax, _))) || sig == "parser-rejects:Syntax";
                    if crate::scale::may_hit_limit(&name) && limit_error {
                        st.count("scale:rejected-at-a-documented-limit");
                        st.set_insert("scale-programs-judged", &name);
                    } else {
                        st.violation(&format!("scale:{}:{}", name.rsplitn(2, '-').nth(1).unwrap_or(&name), sig), format!("{} — {}", name, detail), &crate::obs::clip(&text, 2000));
                    }
                }
            }
            return;
        }
        if fam == "operator-grouping" {
            let (_, _, i) = self.fams(ctx).locate(idx);
            let i = if ctx.flavour == Flavour::Rel { i } else { (i * 7919 + ctx.seed) % GROUPING_TOTAL };
            let tree = grouping_case(i);
            let r = crate::refsem::run_program(&tree, 10_000);
            let o = eval_observed(&text, &cfg);
            st.evaluations += 1;
            st.count("programs:operator-grouping");
            if matches!(r.outcome, crate::refsem::RefOutcome::Value(_)) {
                st.count("operator-grouping:with-a-value");
                st.distinct_hash(crate::rng::hash_str(&text));
            }
            if let Some((sig, detail)) = crate::diff::compare(&o, &r) {
                st.violation(&format!("operator-grouping:{}", sig), detail, &text);
            }
            return;
        }
        let d = differential(&text, &cfg, 300_000, st);
        st.count(&format!("programs:{}", fam));
        match d.verdict {
            Verdict::Agree { nontrivial } => {
                if nontrivial {
                    if let Some(t) = &d.tree {
                        st.distinct_hash(shape_hash(t));
                    }
                }
                // structural coverage of the corpus that was actually judged: (slot, construct) edges of the tree
                if let Some(t) = &d.tree {
                    for e in crate::ast::edges_program(t) {
                        if self.seen_edges.insert(e) {
                            st.set_insert("ast-edges", &format!("{} <- {}", crate::ast::slot_name(e.0), crate::ast::KIND_NAMES[e.1 as usize]));
                        }
                    }
                }
                if idx % 5003 == 0 {
                    st.sample(&format!("[{}] {}", fam, text));
                }
            }
            Verdict::Skip(_) | Verdict::Inconclusive(_) => {}
            Verdict::Mismatch { sig, detail } => {
                st.violation(&format!("{}:{}", if fam == "enumerated" { "enumerated" } else { "random" }, sig), detail, &text);
            }
        }
    }

    fn summarize(&self, ctx: &Ctx, merged: &Stats) -> Summary {
        let mut inconclusive = vec![];
        let missing = missing_opcodes(merged);
        if !missing.is_empty() && ctx.flavour == Flavour::Rel {
            inconclusive.push(format!("opcodes never dispatched in this run: {:?}", missing));
        }
        let mut me = C01::new();
        let fams = me.fams(ctx);
        // structural coverage: which (slot <- construct) combinations of the grammar did no judged program contain?
        let observed: std::collections::HashSet<String> = merged.sets.get("ast-edges").map(|s| s.iter().cloned().collect()).unwrap_or_default();
        let exprs = ["Infix", "Prefix", "Int", "Float", "Bool", "If", "Ident", "Function", "Call", "Assign", "Str", "Array", "Index", "While"];
        let stmts = ["Infix", "Prefix", "Int", "Float", "Bool", "If", "Ident", "Function", "Call", "Assign", "Str", "Array", "Index", "While", "Let", "Return", "Block", "Break", "Continue"];
        let mut universe: Vec<String> = vec![];
        for slot in ["program", "block", "if.cons", "if.alt", "while.body", "function.body"] {
            for k in stmts {
                // antwoord outside a function and stop / volgende outside a loop are rejected or unspecified at top level
                if slot == "program" && matches!(k, "Return" | "Break" | "Continue") {
                    continue;
                }
                universe.push(format!("{}.item <- {}", slot, k));
                universe.push(format!("{}.last <- {}", slot, k));
            }
            if slot != "program" {
                universe.push(format!("{}.last <- (empty)", slot));
            }
        }
        for slot in ["let.value", "return.value", "infix.left", "infix.right", "prefix.operand", "assign.value", "if.cond", "while.cond", "call.arg", "array.item", "index.index"] {
            for k in exprs {
                // a function literal as the left operand of an operator is refused by the parser (DESIGN 4.3(2))
                if slot == "infix.left" && k == "Function" {
                    continue;
                }
                universe.push(format!("{} <- {}", slot, k));
            }
        }
        for e in ["assign.target <- Ident", "assign.target <- Index", "call.callee <- Ident", "call.callee <- Function", "index.base <- Ident", "index.base <- Array", "index.base <- Str"] {
            universe.push(e.to_string());
        }
        let not_generated: Vec<String> = universe.iter().filter(|e| !observed.contains(*e)).cloned().collect();
        let skipped: u64 = merged.counters.iter().filter(|(k, _)| k.starts_with("skipped-unspecified")).map(|(_, v)| *v).sum();
        Summary {
            rule: "case = one program text (directed corpus with documented outputs; bounded-exhaustive enumeration over a small vocabulary; every pair of binary operators in both nestings over every operand triple of six atoms, built as a harness tree and printed with only the parentheses the specified precedence table requires; seeded type-directed random programs in six profiles, 15 % with one injected fault; seeded structure-first programs that put any construct into any slot the grammar allows). The real parser's tree is evaluated by the definitional interpreter of DESIGN.md §4 and value, captured output and error kind are compared with eval() under probes + quarantine shadow heap. distinct_nontrivial = distinct tree shapes (names and literals blanked) with a specified reference outcome that dispatched >= 20 instructions".to_string(),
            exhaustive: Some(true),
            extra: json!({
                "exhaustive_parts": [format!("all programs of the enumerator up to node budget {} ({} programs)", C01::enum_budget(ctx), fams.fams[1].1)],
                "families": fams.fams.iter().map(|f| json!({"name": f.0, "cases": f.1})).collect::<Vec<_>>(),
                "skipped_unspecified_total": skipped,
                "opcodes_never_dispatched": missing,
                "ast_edges": {"universe": universe.len(), "in_judged_programs": universe.len() - not_generated.len(), "never_in_a_judged_program": not_generated},
            }),
            assumptions: vec![
                "the reference interpreter (harness/src/refsem.rs) is the definition; it is cross-checked against the documented outputs of examples/*.nl and the README snippets in every run".to_string(),
                "behaviours listed in DESIGN.md §4.3 are skipped and counted".to_string(),
            ],
            inconclusive,
        }
    }

    fn post(&mut self, ctx: &Ctx, merged: &mut Stats) {
        if ctx.flavour == Flavour::Rel && ctx.tier == Tier::Thorough {
            crate::sup::run_sub_flavour("C01", ctx, Flavour::Asan, merged);
        }
    }
}

impl C01 {
    fn binary_file(&self, text: &str, st: &mut Stats) {
        super::binfile::compare_with_binary(text, "binary-file", st);
    }

    /// (family, program text) of a case
    pub fn case_text(&mut self, ctx: &Ctx, idx: u64) -> (&'static str, String) {
        let (f, name, i) = self.fams(ctx).locate(idx);
        match name {
            "corpus" => (name, self.corpus[i as usize].text.clone()),
            "enumerated" => {
                let p = self.enumerated(ctx)[i as usize].clone();
                (name, to_text(&p))
            }
            "operator-grouping" => {
                let i = if ctx.flavour == Flavour::Rel { i } else { (i * 7919 + ctx.seed) % GROUPING_TOTAL };
                (name, to_text(&grouping_case(i)))
            }
            "scale" => (name, self.scale(ctx)[i as usize].1.clone()),
            "binary-file" => {
                // corpus first, then what only file mode can get wrong (how the file is read, how much output gets out),
                // then generated programs of every kind
                let special = binary_file_specials();
                if (i as usize) < self.corpus.len() {
                    (name, self.corpus[i as usize].text.clone())
                } else if (i as usize) < self.corpus.len() + special.len() {
                    (name, special[i as usize - self.corpus.len()].clone())
                } else if i % 4 == 1 {
                    // a generated program behind a line that measures a text with raw CR LF, CR, LF, TAB and NEL in it, the
                    // statements separated by CR LF
                    let mut r = Rng::for_case(ctx.seed, 195, i);
                    let p = random_program(&mut r, PROFILES[(i % 6) as usize]).0;
                    (name, format!("stel ruw = \"a\r\nb\rc\nd\te\u{85}f\"; print(\"{{}} {{}}\", lengte(ruw), ruw);\r\n{}", to_text(&p).replace("; ", ";\r\n")))
                } else {
                    let mut r = Rng::for_case(ctx.seed, 195, i);
                    let p = if i % 3 == 0 { crate::wild::wild_program(&mut r) } else { random_program(&mut r, PROFILES[(i % 6) as usize]).0 };
                    (name, to_text(&p))
                }
            }
            "wild" => {
                let mut r = Rng::for_case(ctx.seed, 190, i);
                (name, to_text(&crate::wild::wild_program(&mut r)))
            }
            _ => {
                let mut r = Rng::for_case(ctx.seed, 100 + f as u64, i);
                let profile = PROFILES[(f - 2).min(PROFILES.len() - 1)];
                let (p, _) = random_program(&mut r, profile);
                (name, to_text(&p))
            }
        }
    }
}
