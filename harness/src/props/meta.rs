//! C09 — lexical name resolution (reference scoping model + metamorphic variants);
//! C10 — compilation strategy is unobservable (metamorphic only, no reference interpreter).

use super::Families;
use crate::ast::Stmt;
use crate::diff::{differential, record_opcodes, Verdict};
use crate::gen::{random_program, Profile};
use crate::obs::{eval_observed, Obs, ObsCfg, Outcome};
use crate::print::to_text;
use crate::refsem::static_check;
use crate::rng::{hash_str, Rng};
use crate::sup::{Check, Ctx, Flavour, Stats, Summary, Tier};
use crate::val::{same_val, ErrKind};
use crate::xform;
use serde_json::json;

#[derive(Clone, Copy, PartialEq, Eq)]
pub enum Which {
    C09,
    C10,
}

pub struct Meta {
    which: Which,
}

/// same value, output and error kind
fn same_outcome(a: &Obs, b: &Obs) -> bool {
    if a.output != b.output {
        return false;
    }
    match (&a.outcome, &b.outcome) {
        (Outcome::Value(x), Outcome::Value(y)) => same_val(x, y),
        (Outcome::Error(k1, _), Outcome::Error(k2, _)) => k1 == k2,
        (Outcome::Budget, Outcome::Budget) => true,
        _ => false,
    }
}

fn describe(o: &Obs) -> String {
    format!("{} with output {:?}", o.outcome.render(), o.output.iter().take(6).collect::<Vec<_>>())
}

pub fn c09_directed() -> Vec<(&'static str, &'static str)> {
    vec![
        ("redeclare-same-block", "stel a = 1; stel a = 2; a"),
        ("redeclare-after-use", "stel a = 1; stel b = a; stel a = 2; [a, b]"),
        ("redeclare-in-function", "functie f() { stel x = 1; stel x = x + 1; x } f()"),
        ("inner-shadow-leaves-outer", "stel a = 1; { stel a = 2; a = 3 }; a"),
        ("block-variable-ends", "stel x = 100; { stel y = 100; y + x }; y"),
        ("slot-reuse-siblings", "stel r = 0; { stel p = 1; r = r + p }; { stel q = 10; r = r + q }; { stel p = 100; stel q = 1000; r = r + p + q }; r"),
        ("function-sees-globals-not-callers-locals", "stel g = 1; functie binnen() { g } functie buiten() { stel g = 2; binnen() } buiten()"),
        ("function-does-not-see-callers-locals", "functie binnen() { lokaal } functie buiten() { stel lokaal = 2; binnen() } buiten()"),
        ("parameter-shadows-global", "stel n = 5; functie f(n) { n = n + 1; n }; [f(1), n]"),
        ("local-shadows-global-after-use", "stel n = 5; functie f() { stel a = n; stel n = 7; [a, n] }; [f(), n]"),
        ("enclosing-local-is-not-visible-global-is", "stel teller = 100; functie buiten(teller) { functie binnen(a) { teller + a + 3 }; binnen(5) }; print(\"start\"); buiten(10)"),
        ("enclosing-local-is-not-visible-undeclared", "functie buiten(b) { functie binnen(a) { a + b }; binnen(5) }; print(\"start\"); buiten(10)"),
        ("enclosing-local-three-levels", "stel x = 1; functie a1(x) { functie a2(y) { functie a3(z) { x + z }; a3(y) }; a2(x + 10) }; a1(50)"),
        ("undeclared-after-print", "print(\"eerst\"); onbekend"),
        ("undeclared-in-uncalled-function", "print(\"eerst\"); functie nooit() { onbekend }; 1"),
        ("undeclared-in-dead-branch", "print(\"eerst\"); als nee { onbekend }; 1"),
        ("undeclared-assignment-target", "print(\"eerst\"); onbekend = 1"),
        ("undeclared-after-antwoord", "print(\"eerst\"); functie f(a) { als a > 1 { antwoord a; onbekend }; antwoord 0; nog_onbekender }; f(2)"),
        ("undeclared-after-stop", "print(\"eerst\"); stel i = 0; zolang i < 3 { i += 1; als i == 2 { stop; onbekend }; volgende; print(ook_onbekend) }; i"),
        ("undeclared-after-antwoord-in-block", "functie f() { { antwoord 1; stel x = onbekend } }; print(\"eerst\"); f()"),
        ("use-before-declaration", "print(\"eerst\"); x; stel x = 1"),
        ("named-literal-in-subexpression-ends-with-its-block", "print(\"eerst\"); { print(functie hulp() { 1 }()) }; hulp"),
        ("named-literal-in-subexpression-does-not-replace-outer", "stel hulp = 5; { stel r = [functie hulp() { 1 }, 2]; print(lengte(r)) }; als ja { print(functie hulp() { 2 }()) }; hulp"),
        ("named-literal-in-argument-of-loop-body", "stel f = 10; stel i = 0; zolang i < 2 { i += 1; print(type(functie f() { 0 })) }; f + i"),
        ("value-block-ending-in-antwoord-closes-its-scope", "functie f(n) { stel a = 1; stel i = 0; zolang i < n { i += 1; stel a = a + 10; stel r = als i > 100 { antwoord a } anders { 0 } }; a }; [f(0), f(1), f(3)]"),
        ("nested-blocks-ending-in-antwoord-close-their-scopes", "functie g(x) { stel t = \"buiten\"; { stel t = \"binnen\"; als x > 5 { { antwoord t } } }; t }; [g(1), g(9)]"),
        ("local-function-shadows-global-function", "functie hulp() { 1 } functie buiten() { functie hulp() { 2 }; hulp() }; stel eerst = hulp(); [buiten(), hulp(), eerst]"),
        ("local-function-shadows-global-variable", "stel teller = 10; functie buiten() { functie teller() { 7 }; teller() }; [buiten(), teller, buiten(), teller + 1]"),
        ("block-function-shadows-global-function", "functie f() { 1 } { functie f() { 2 }; print(f()) }; f()"),
        ("use-before-function-of-same-name", "stel f = \"buiten\"; { print(f); functie f() { \"binnen\" }; print(f()) }; print(f)"),
        ("use-before-function-of-same-name-in-loop", "stel f = \"buiten\"; stel i = 0; zolang i < 2 { i += 1; print(f); functie f() { \"binnen\" }; print(f()) }; f"),
        ("use-before-function-of-same-name-in-function", "stel g = 5; functie buiten() { stel r = g + 1; functie g() { 100 }; [r, g()] }; [buiten(), g]"),
        ("use-before-function-declaration-undeclared", "print(\"eerst\"); { g; functie g() { 1 } }"),
        ("call-before-function-declaration-undeclared", "print(\"eerst\"); functie a() { b() }; a(); functie b() { 1 }"),
        ("declared-in-sibling-block", "{ stel a = 1 }; { a }"),
        ("loop-body-scope", "stel i = 0; zolang i < 2 { i += 1; stel t = i }; t"),
        ("if-branch-scope", "als ja { stel t = 1 }; t"),
        ("recursion-global-name", "stel fac = functie(n) { als n < 2 { 1 } anders { n * fac(n - 1) } }; fac(5)"),
        ("nested-blocks-depth-5", "stel a = 1; { stel b = a + 1; { stel c = b + 1; { stel a = c + 1; { stel b = a + 1; { [a, b, c] } } } } }"),
        ("function-in-block", "{ functie lokaal(x) { x + 1 }; lokaal(1) }"),
        ("function-in-block-ends", "{ functie lokaal(x) { x + 1 } }; lokaal(1)"),
        ("many-locals-order", "functie f(a, b) { stel c = a + b; stel d = c * 2; { stel e = d + 1; stel c = e + 1; [a, b, c, d, e] } } f(1, 2)"),
    ]
}

pub fn c10_directed() -> Vec<(&'static str, &'static str)> {
    static CACHE: std::sync::OnceLock<Vec<(&'static str, &'static str)>> = std::sync::OnceLock::new();
    CACHE.get_or_init(c10_directed_build).clone()
}

fn c10_directed_build() -> Vec<(&'static str, &'static str)> {
    let mut v = c10_directed_fixed();
    // many variables: moved into a function (T1) the last of N globals becomes local slot N - 1, and every operator with a
    // literal is then compiled to its specialised instruction with that slot number as operand
    for n in [2usize, 63, 64, 65, 127, 128, 129, 254, 255, 256, 257, 258, 300, 1000] {
        let decls: String = (0..n).map(|k| format!("stel g{} = {}; ", k, k)).collect();
        let (l, m, p) = (n - 1, n / 2, n.saturating_sub(2));
        let text = format!(
            "{}[g{l} + 1, 1 + g{l}, g{l} - 1, 7 - g{l}, g{l} * 2, g{l} / 2, g{l} % 7, g{l} < 5, g{l} <= 5, g{l} > 5, g{l} >= 5, g{l} == {l}, g{l} != 3, g{m} + 1, g0 + 1, g{p} * 3, 3 > g{p}]",
            decls,
            l = l,
            m = m,
            p = p
        );
        let name: &'static str = Box::leak(format!("many-variables-ops-{}", n).into_boxed_str());
        let text: &'static str = Box::leak(text.into_boxed_str());
        v.push((name, text));
    }
    v
}

fn c10_directed_fixed() -> Vec<(&'static str, &'static str)> {
    vec![
        ("sub-literal-left", "stel n = 3; [10 - n, n - 10, 10 / n, n / 10, 10 % n, n % 10]"),
        ("cmp-literal-left", "stel n = 3; [10 < n, 10 <= n, 10 > n, 10 >= n, 10 == n, 10 != n, n < 10, 3 <= n, 3 >= n]"),
        ("fused-negative-values", "stel n = 0 - 7; [n + 1, n - 1, n * 2, n / 2, n % 2, n < 0, n <= 0, n > 0, n >= 0, n == 0, n != 0]"),
        ("fused-zero", "stel n = 0; [n + 0, n - 0, n * 0, n < 0, n <= 0, n == 0, 0 - n, 0 < n]"),
        ("same-literal-many-types", "stel a = 1; stel b = 1.0; stel c = \"1\"; [a + 1, b + 1.0, c == \"1\", 1, 1.0, \"1\"]"),
        ("string-literal-mutated-elsewhere", "stel s = \"abc\"; s[0] = \"x\"; stel t = \"abc\"; [s, t, \"abc\"]"),
        ("float-constants-shared", "stel x = 1.5; stel y = 1.5; x = x + 1.5; [x, y, 1.5]"),
        ("loop-counter-fused", "stel i = 0; stel som = 0; zolang i < 10 { i += 1; som = som + i * 2 - 1 }; [i, som]"),
        ("division-truncation", "stel n = 0 - 7; [n / 2, n % 2, 7 / n, 7 % n, n / -2]"),
        ("overflow-both-ways", "stel n = 1152921504606846975; n + 1"),
        ("literal-through-builtin-then-modified", "stel s = string(\"ab\"); s[0] = \"x\"; stel t = string(\"ab\"); [s, t, \"ab\", string(\"ab\")]"),
        ("literal-through-builtin-in-function", "functie f() { stel s = string(\"ab\"); s[0] = \"x\"; s }; [f(), f(), string(\"ab\"), \"ab\"]"),
        ("redeclaration-reads-the-name", "stel x = 1; stel x = x + 1; x"),
        ("redeclaration-reads-the-name-2", "stel x = 1; stel y = 2; stel x = [x, y]; stel y = x; [x, y]"),
        ("inner-declaration-reads-the-outer-name", "stel a = 5; { stel a = a; a }"),
        ("redeclaration-in-loop", "stel i = 0; stel uit = 0; zolang i < 3 { i += 1; stel t = 10; stel t = t; uit = [uit, t] }; uit"),
    ]
}

impl Meta {
    pub fn new(which: Which) -> Self {
        Meta { which }
    }

    fn fams(&self, ctx: &Ctx) -> Families {
        let n = match (ctx.flavour, ctx.tier) {
            (Flavour::Rel, Tier::Quick) => 12_000,
            (Flavour::Rel, Tier::Thorough) => 600_000,
            (_, Tier::Quick) => 800,
            _ => 10_000,
        };
        match self.which {
            Which::C09 => Families::new(vec![
                ("directed", c09_directed().len() as u64),
                ("scopes-reference", n),
                ("scopes-variants", n),
                // names that collide under standard hash functions, and tens of thousands of distinct names in one scope
                // (props/collide.rs)
                ("colliding-names", if ctx.flavour == Flavour::Rel { super::collide::pairs().len() as u64 * 2 } else { 0 }),
                ("many-names", match (ctx.flavour, ctx.tier) { (Flavour::Rel, Tier::Quick) => MANY.len() as u64, (Flavour::Rel, Tier::Thorough) => MANY.len() as u64 + 24, _ => 0 }),
            ]),
            Which::C10 => Families::new(vec![
                ("directed", c10_directed().len() as u64),
                ("fusable-variants", n),
                ("general-variants", n / 2),
                ("colliding-literals", if ctx.flavour == Flavour::Rel { super::collide::literal_pairs().len() as u64 * 2 } else { 0 }),
                ("many-literals", match (ctx.flavour, ctx.tier) { (Flavour::Rel, Tier::Quick) => 9, (Flavour::Rel, Tier::Thorough) => 60, _ => 0 }),
                // a constant pool filled to the brim, then one more small literal next to a variable — written as a literal
                // and held in a variable: the same value, or the same limit error
                ("full-pool", if ctx.flavour == Flavour::Rel { 6 } else { 0 }),
            ]),
        }
    }

    fn collisions(&self, ctx: &Ctx, name: &'static str, i: u64, st: &mut Stats) {
        use super::collide;
        let mut cfg = ObsCfg::default();
        cfg.budget = Some(3_000_000);
        let mut r = Rng::for_case(ctx.seed, 990, i + if name.starts_with("many") { 7_000 } else { 0 });
        st.count(&format!("programs:{}", name));
        match name {
            "colliding-names" => {
                let p = &collide::pairs()[(i / 2) as usize];
                let (a, b) = if i % 2 == 0 { (&p.a, &p.b) } else { (&p.b, &p.a) };
                st.set_insert("collision-kinds", &p.how);
                for (shape, text, want, lines) in collide::name_programs(a, b) {
                    st.distinct_hash(hash_str(&text));
                    let l = if lines.is_empty() { None } else { Some(lines.as_slice()) };
                    collide::judge(name, shape, &p.how, &text, &want, l, &cfg, st);
                }
            }
            "colliding-literals" => {
                let all = collide::literal_pairs();
                let (how, a, b) = &all[(i / 2) as usize];
                let (a, b) = if i % 2 == 0 { (a, b) } else { (b, a) };
                st.set_insert("collision-kinds", how);
                for (shape, text, want) in collide::literal_programs(a, b) {
                    st.distinct_hash(hash_str(&text));
                    collide::judge(name, shape, how, &text, &want, None, &cfg, st);
                }
            }
            "full-pool" => {
                // 1 + n distinct integer constants (the pool holds 65 536), then the expression
                let n = [65_534u64, 65_535, 65_536][(i / 2) as usize];
                let tail_lit = if i % 2 == 0 { "x + 7" } else { "7 + x" };
                let tail_var = if i % 2 == 0 { "stel t = 7; x + t" } else { "stel t = 7; t + x" };
                let mut body = String::with_capacity(n as usize * 7);
                body.push_str("stel x = 1000; ");
                for k in 0..n {
                    body.push_str(&format!("{}; ", 1001 + k));
                }
                let cfg = ObsCfg::plain(50_000_000);
                let a = eval_observed(&format!("{}{}", body, tail_lit), &cfg);
                let b = eval_observed(&format!("{}{}", body, tail_var), &cfg);
                st.evaluations += 2;
                st.count(&format!("full-pool:{}:{}", n, a.outcome.class()));
                let limit = |o: &Outcome| matches!(o, Outcome::Error(ErrKind::Syntax, m) if m.contains("te groot"));
                let value = |o: &Outcome| matches!(o, Outcome::Value(crate::val::Val::Int(1007)));
                let text = format!("stel x = 1000; 1001; 1002; … {}; {}   //  against: … {}", 1000 + n, tail_lit, tail_var);
                if !(limit(&a.outcome) || value(&a.outcome)) || !(limit(&b.outcome) || value(&b.outcome)) {
                    st.violation("full-pool:neither-the-value-nor-the-limit", format!("with the literal: {}; with the variable: {} (1007 or the documented limit error are the two answers)", a.outcome.render(), b.outcome.render()), &text);
                }
            }
            "many-names" => {
                let (n, style, locals) = if (i as usize) < MANY.len() { MANY[i as usize] } else { if i % 5 == 0 { (5_000, (i % 2) * 2, true) } else { (60_000, (i % 2) * 2, false) } };
                let names = collide::distinct_names(&mut r, n, style);
                let (text, want) = collide::many_names_program(&names, locals);
                st.add("many-names:names-declared-and-read-back", n as u64);
                st.distinct_hash(hash_str(&text));
                if n > 20_000 {
                    cfg = ObsCfg::plain(50_000_000);
                }
                cfg.budget = Some(50_000_000);
                collide::judge(name, if locals { "locals" } else { "globals" }, &format!("style{}-{}", style, n), &text, &collide::Want::Value(want), None, &cfg, st);
            }
            _ => {
                let kind = i % 3;
                let n = if i < 3 { 2_000 } else if kind == 0 { 30_000 } else { 60_000 };
                let (text, want) = collide::many_literals_program(&mut r, n, kind);
                st.add("many-literals:literals-read-back", n as u64);
                st.distinct_hash(hash_str(&text));
                if n > 20_000 {
                    // (the plain interpreter: under the shadow heap a pool of 60 000 heap constants costs minutes)
                    cfg = ObsCfg::plain(50_000_000);
                }
                cfg.budget = Some(50_000_000);
                collide::judge(name, ["strings", "integers", "floats"][kind as usize], &format!("{}", n), &text, &collide::Want::Value(want), None, &cfg, st);
            }
        }
    }

    fn base_program(&self, ctx: &Ctx, idx: u64) -> (&'static str, Vec<Stmt>) {
        let (f, name, i) = self.fams(ctx).locate(idx);
        let mut r = Rng::for_case(ctx.seed, 900 + f as u64 + if self.which == Which::C10 { 50 } else { 0 }, i);
        let p = match name {
            "directed" => {
                let t = match self.which {
                    Which::C09 => c09_directed()[i as usize].1,
                    Which::C10 => c10_directed()[i as usize].1,
                };
                crate::ast::parse_real(t).unwrap_or_default()
            }
            "scopes-reference" | "scopes-variants" => random_program(&mut r, if i % 5 == 4 { Profile::Calls } else { Profile::Scopes }).0,
            "fusable-variants" => random_program(&mut r, Profile::Fusable).0,
            _ => random_program(&mut r, if i % 2 == 0 { Profile::General } else { Profile::Control }).0,
        };
        (name, p)
    }

    fn variant_check(&self, base: &Obs, base_text: &str, variant: &[Stmt], kind: &str, fam: &str, cfg: &ObsCfg, st: &mut Stats) -> bool {
        let vt = to_text(variant);
        let o = eval_observed(&vt, cfg);
        st.evaluations += 1;
        st.count(&format!("variants:{}", kind));
        record_opcodes(st);
        if matches!(o.outcome, Outcome::Panic(..) | Outcome::Stop) || !same_outcome(base, &o) {
            st.violation(
                &format!("{}:{}:outcome-differs", fam, kind),
                format!("original gives {}; the {} variant gives {}\nvariant: {}", describe(base), kind, describe(&o), crate::obs::clip(&vt, 700)),
                base_text,
            );
            return false;
        }
        true
    }
}

/// (names, style, as locals of one function) of the many-names programs of the quick tier
const MANY: &[(usize, u64, bool)] = &[(1_000, 0, false), (1_000, 3, true), (18_278, 1, false), (5_000, 2, true), (60_000, 0, false), (60_000, 2, false), (5_000, 0, true), (30_000, 3, false)];

impl Check for Meta {
    fn id(&self) -> &'static str {
        match self.which {
            Which::C09 => "C09",
            Which::C10 => "C10",
        }
    }
    fn total_cases(&self, ctx: &Ctx) -> u64 {
        self.fams(ctx).total()
    }
    fn chunk_size(&self, _ctx: &Ctx) -> u64 {
        200
    }
    fn describe_case(&mut self, ctx: &Ctx, idx: u64) -> String {
        let (_, name, i) = self.fams(ctx).locate(idx);
        if matches!(name, "colliding-names" | "many-names" | "colliding-literals" | "many-literals" | "full-pool") {
            return format!("{} #{}", name, i);
        }
        to_text(&self.base_program(ctx, idx).1)
    }

    fn run_case(&mut self, ctx: &Ctx, idx: u64, st: &mut Stats) {
        {
            let (_, name, i) = self.fams(ctx).locate(idx);
            if matches!(name, "colliding-names" | "many-names" | "colliding-literals" | "many-literals" | "full-pool") {
                self.collisions(ctx, name, i, st);
                return;
            }
        }
        let (fam, prog) = self.base_program(ctx, idx);
        let text = to_text(&prog);
        if fam == "directed" && prog.is_empty() {
            // (a directed text that the parser refuses would silently become the empty program)
            st.inconclusive(format!("directed case #{} of {} does not parse", idx, self.id()));
            return;
        }
        let mut cfg = ObsCfg::default();
        cfg.budget = Some(300_000);
        let mut r = Rng::for_case(ctx.seed, 950, idx);
        st.count(&format!("programs:{}", fam));

        // reference scoping model (C09) — directed cases and the reference family
        // (C10's directed cases are judged by the reference as well: a representation effect that shows in a program and
        //  in all of its variants alike is invisible to the metamorphic comparison)
        if (self.which == Which::C09 && (fam == "directed" || fam == "scopes-reference")) || (self.which == Which::C10 && fam == "directed") {
            let d = differential(&text, &cfg, 200_000, st);
            if let Some(t) = &d.tree {
                let info = static_check(t);
                if self.which == Which::C09 {
                    st.max("max-block-nesting", info.max_block_depth as u64);
                }
                st.add("shadowing-declarations", info.shadowings as u64);
                st.add("redeclarations-in-same-block", info.redeclarations as u64);
                st.add("nested-functions", info.nested_functions as u64);
            }
            match d.verdict {
                Verdict::Agree { nontrivial } => {
                    if nontrivial || fam == "directed" {
                        st.distinct_hash(hash_str(&text));
                    }
                }
                Verdict::Mismatch { sig, detail } => {
                    st.violation(&format!("{}:reference:{}", fam, sig), detail, &text);
                    return;
                }
                _ => {}
            }
            if fam == "scopes-reference" {
                return;
            }
        }

        // metamorphic variants against the program's own outcome
        let base = eval_observed(&text, &cfg);
        st.evaluations += 1;
        record_opcodes(st);
        if matches!(base.outcome, Outcome::Panic(..) | Outcome::Stop) {
            st.violation(&format!("{}:base:{}", fam, base.outcome.class()), describe(&base), &text);
            return;
        }
        if matches!(base.outcome, Outcome::Budget) {
            st.count("case-inconclusive:budget");
            return;
        }
        // programs whose meaning the documentation does not fix are not transformed (closures, self-initialisers, …)
        if let Ok(tree) = crate::ast::parse_real(&text) {
            let info = static_check(&tree);
            if info.unspecified.is_some() {
                st.count("skipped-unspecified-static");
                return;
            }
            // the reference is used as a filter only: programs that run into a behaviour the documentation does
            // not fix (reading a variable inside its own initialiser, …) have no meaning to preserve
            let r = crate::refsem::run_program(&tree, 200_000);
            // (C10 keeps the programs that read a variable inside its own initialiser, 4.3(3): what such a read yields is
            //  not documented, but C10 says that it cannot depend on whether the variable is a global or a local, on how
            //  a literal is written or on what else is in the constant pool — the variants must still agree)
            let self_init_only = self.which == Which::C10 && matches!(&r.outcome, crate::refsem::RefOutcome::Unspecified(why) if why.starts_with("4.3(3)"));
            if self_init_only {
                st.count("kept-although-unspecified:4.3(3)");
            } else if matches!(r.outcome, crate::refsem::RefOutcome::Unspecified(_) | crate::refsem::RefOutcome::OutOfSteps) {
                st.count("skipped-unspecified-dynamic");
                return;
            }
        }
        st.distinct_hash(hash_str(&text));
        if idx % 2003 == 0 {
            st.sample(&format!("[{}] {}", fam, text));
        }
        match self.which {
            Which::C09 => {
                let (uses, decls) = xform::resolve_uses(&prog);
                // α-renaming of up to three declarations
                if !decls.is_empty() {
                    for _ in 0..3 {
                        let d = r.below(decls.len() as u64) as usize;
                        if crate::refsem::BUILTINS.contains(&decls[d].as_str()) {
                            continue;
                        }
                        let v = xform::alpha_rename(&prog, d, &format!("hernoemd_{}", d));
                        if !self.variant_check(&base, &text, &v, "rename", fam, &cfg, st) {
                            return;
                        }
                    }
                }
                // padding of up to three inner blocks, with a fresh and with a shadowing name
                let nb = xform::count_blocks(&prog);
                if nb > 0 {
                    for k in 0..3 {
                        let b = r.below(nb as u64) as usize;
                        if let Some(v) = xform::pad_block(&prog, b, &mut r, k % 2 == 1) {
                            // a shadowing pad may hide a variable that a later reader inside the block needs only if the
                            // block mentions it — pad_block only picks names the block never mentions
                            if !self.variant_check(&base, &text, &v, if k % 2 == 1 { "pad-shadowing" } else { "pad-fresh" }, fam, &cfg, st) {
                                return;
                            }
                        }
                    }
                }
                // injection of an undeclared name at up to three use positions: rejected before any output
                let bound: Vec<usize> = uses.iter().enumerate().filter(|(_, u)| u.is_some()).map(|(i, _)| i).collect();
                if !bound.is_empty() && !matches!(base.outcome, Outcome::Error(ErrKind::Reference, _) | Outcome::Error(ErrKind::Syntax, _)) {
                    for _ in 0..3 {
                        let u = bound[r.below(bound.len() as u64) as usize];
                        let v = xform::inject_undeclared(&prog, u, "nergens_gedeclareerd");
                        let vt = to_text(&v);
                        let o = eval_observed(&vt, &cfg);
                        st.evaluations += 1;
                        st.count("variants:inject-undeclared");
                        let ok = matches!(o.outcome, Outcome::Error(ErrKind::Reference, _)) && o.output.is_empty();
                        if !ok {
                            st.violation(
                                &format!("{}:inject-undeclared:{}", fam, if o.output.is_empty() { o.outcome.class() } else { "output-before-rejection".to_string() }),
                                format!("use #{} replaced by an undeclared name; expected a reference error before any output, got {}\nvariant: {}", u, describe(&o), crate::obs::clip(&vt, 700)),
                                &text,
                            );
                            return;
                        }
                    }
                }
            }
            Which::C10 => {
                // T1: globals become locals
                if let Some(v) = xform::globals_to_locals(&prog) {
                    // the value of a program that does not end in an expression statement is unspecified either way
                    let ends_in_expr = matches!(prog.last(), Some(Stmt::Expr(_)));
                    if ends_in_expr {
                        if !self.variant_check(&base, &text, &v, "T1-into-function", fam, &cfg, st) {
                            return;
                        }
                    }
                }
                // T2: literal operand -> variable
                let n_int = xform::count_int_operands(&prog);
                for _ in 0..3.min(n_int) {
                    let k = r.below(n_int as u64) as usize;
                    if let Some(v) = xform::literal_to_variable(&prog, k) {
                        if !self.variant_check(&base, &text, &v, "T2-literal-to-variable", fam, &cfg, st) {
                            return;
                        }
                    }
                }
                // T3: mirror c op x <-> x op' c
                let n_m = xform::count_mirrorable(&prog);
                for _ in 0..3.min(n_m) {
                    let k = r.below(n_m as u64) as usize;
                    let v = xform::mirror(&prog, k);
                    if !self.variant_check(&base, &text, &v, "T3-mirror", fam, &cfg, st) {
                        return;
                    }
                }
                // T4: constant pool perturbation
                for _ in 0..2 {
                    let v = xform::perturb_constants(&prog, &mut r);
                    if !self.variant_check(&base, &text, &v, "T4-constant-pool", fam, &cfg, st) {
                        return;
                    }
                }
            }
        }
    }

    fn summarize(&self, ctx: &Ctx, merged: &Stats) -> Summary {
        let fams = self.fams(ctx);
        let mut inconclusive = vec![];
        match self.which {
            Which::C09 => {
                for k in ["variants:rename", "variants:pad-fresh", "variants:pad-shadowing", "variants:inject-undeclared"] {
                    if merged.counters.get(k).copied().unwrap_or(0) == 0 {
                        inconclusive.push(format!("no {} was tried", k));
                    }
                }
            }
            Which::C10 => {
                for k in ["variants:T1-into-function", "variants:T2-literal-to-variable", "variants:T3-mirror", "variants:T4-constant-pool"] {
                    if merged.counters.get(k).copied().unwrap_or(0) == 0 {
                        inconclusive.push(format!("no {} was tried", k));
                    }
                }
                if ctx.flavour == Flavour::Rel {
                    for op in crate::diff::opcode_names() {
                        if op.ends_with("LocalConst") && merged.counters.get(&format!("op:{}", op)).copied().unwrap_or(0) == 0 {
                            inconclusive.push(format!("fused opcode {} never dispatched", op));
                        }
                    }
                }
            }
        }
        let rule = match self.which {
            Which::C09 => "directed scoping cases and scopes-profile random programs (nested blocks, shadowing at every depth, re-declaration in the same block, functions in blocks and functions, slot reuse) are checked against the reference scoping model; each program is also compared with its own variants: α-renaming of one declaration and the uses bound to it, insertion of an unused (fresh or shadowing) declaration at the start of an inner block, and replacement of one identifier use by an undeclared name (must be a reference error before any output). distinct = distinct base programs",
            Which::C10 => "each closed program is compared with its own variants, no reference interpreter involved: T1 top-level code moved into a function body (globals become locals, generic opcodes become fused ones), T2 an integer literal operand replaced by a variable holding it, T3 `c op x` mirrored to `x op' c`, T4 statements mentioning the same and other literals prepended (shifts and merges constant-pool entries). distinct = distinct base programs",
        };
        Summary {
            rule: rule.to_string(),
            exhaustive: None,
            extra: json!({ "families": fams.fams.iter().map(|f| json!({"name": f.0, "cases": f.1})).collect::<Vec<_>>() }),
            assumptions: vec!["programs the reference's static phase classes as unspecified (closures, self-initialisers, names of builtins) are not transformed".to_string()],
            inconclusive,
        }
    }
}
