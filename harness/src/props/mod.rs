use crate::sup::{Check, Ctx};

pub mod binfile;
pub mod strlife;
pub mod collide;
pub mod unisweep;
pub mod jumps;
pub mod c01;
pub mod c02;
pub mod flow;
pub mod heap;
pub mod meta;
pub mod c05;
pub mod c06;
pub mod c07;
pub mod c08;
pub mod c13;
pub mod c14;
pub mod c15;
pub mod c16;
pub mod c17;

pub fn make(id: &str) -> Option<Box<dyn Check>> {
    match id {
        "C01" => Some(Box::new(c01::C01::new())),
        "C02" => Some(Box::new(c02::C02::new())),
        "C03" => Some(Box::new(heap::Heap::new(heap::Which::C03))),
        "C04" => Some(Box::new(heap::Heap::new(heap::Which::C04))),
        "C05" => Some(Box::new(c05::C05::new())),
        "C06" => Some(Box::new(c06::C06::new())),
        "C07" => Some(Box::new(c07::C07::new())),
        "C08" => Some(Box::new(c08::C08::new())),
        "C09" => Some(Box::new(meta::Meta::new(meta::Which::C09))),
        "C10" => Some(Box::new(meta::Meta::new(meta::Which::C10))),
        "C11" => Some(Box::new(flow::Flow::new(flow::Which::C11))),
        "C12" => Some(Box::new(flow::Flow::new(flow::Which::C12))),
        "C13" => Some(Box::new(c13::C13::new())),
        "C14" => Some(Box::new(c14::C14::new())),
        "C15" => Some(Box::new(c15::C15::new())),
        "C16" => Some(Box::new(c16::C16::new())),
        "C17" => Some(Box::new(c17::C17::new())),
        _ => None,
    }
}

/// Maps a global case index onto (family, local index)
pub struct Families {
    pub fams: Vec<(&'static str, u64)>,
}

impl Families {
    pub fn new(fams: Vec<(&'static str, u64)>) -> Self {
        Families { fams }
    }
    pub fn total(&self) -> u64 {
        self.fams.iter().map(|f| f.1).sum()
    }
    pub fn locate(&self, mut idx: u64) -> (usize, &'static str, u64) {
        for (i, (name, n)) in self.fams.iter().enumerate() {
            if idx < *n {
                return (i, name, idx);
            }
            idx -= *n;
        }
        panic!("case index out of range");
    }
}

pub const MAX_INT: i64 = (1i64 << 60) - 1;
pub const MIN_INT: i64 = -(1i64 << 60);

/// Boundary lattice of C06/C15: 0, ±1, ±2, ±7, ±2^k, ±(2^k ± 1) for k ≤ 60, clipped to the 61-bit range, both range ends
pub fn int_lattice() -> Vec<i64> {
    let mut v: Vec<i128> = vec![0, 1, -1, 2, -2, 7, -7];
    for k in 1..=60 {
        let p: i128 = 1i128 << k;
        for d in [-1i128, 0, 1] {
            v.push(p + d);
            v.push(-(p + d));
        }
    }
    v.push(MAX_INT as i128);
    v.push(MIN_INT as i128);
    let mut out: Vec<i64> = v
        .into_iter()
        .filter(|x| *x >= MIN_INT as i128 && *x <= MAX_INT as i128)
        .map(|x| x as i64)
        .collect();
    out.sort();
    out.dedup();
    out
}

pub fn random_int61(r: &mut crate::rng::Rng) -> i64 {
    match r.below(6) {
        0 => r.range(-1000, 1000),
        1 => {
            // near a power of two
            let k = r.range(1, 60);
            let p = 1i128 << k;
            let d = r.range(-3, 3) as i128;
            let s = if r.chance(1, 2) { 1 } else { -1 };
            let x = s * (p + d);
            x.clamp(MIN_INT as i128, MAX_INT as i128) as i64
        }
        2 => {
            // random magnitude
            let k = r.range(1, 60) as u32;
            let m = (r.next() >> (64 - k)) as i64;
            if r.chance(1, 2) {
                m
            } else {
                -m
            }
        }
        _ => ((r.next() as i64) >> 3).clamp(MIN_INT, MAX_INT),
    }
}
