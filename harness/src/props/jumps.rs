//! Jump operands of every size.
//!
//! A loop's `stop` and `volgende`, the jump over the branch of an `als` and the back edge of a `zolang` are all encoded
//! with a 16-bit operand that the compiler fills in afterwards. A placeholder value, a sentinel or a chain threaded
//! through the operands is invisible until some real operand happens to equal it. One program holds all of these
//! jumps around a filler of F bytes of code (statements of two different sizes, measured by compiling them, so that
//! every F is reached exactly), at top level and inside a function; F sweeps over every value of a window (quick:
//! 0-4 300 and the neighbourhoods of the usual magic numbers; thorough: every F up to the 64 KiB limit). What the
//! program gives is known by construction.

use crate::obs::{eval_observed, ObsCfg, Outcome};
use crate::sup::Stats;
use crate::val::{same_val, Val};
use std::sync::OnceLock;

fn program(filler: &str, in_fn: bool) -> String {
    let body = format!(
        "stel t = 0; stel i = 0; stel n = 0; stel m = 0; zolang i < 4 {{ i += 1; als i == 2 {{ volgende }}; als i == 3 {{ stop }}; {f} als i == 9 {{ volgende }}; als i == 9 {{ stop }}; n += 1 }}; stel j = 0; zolang j < 3 {{ j += 1; als j == 2 {{ {f} m += 10 }} anders {{ m += 1 }} }}; stel k = 0; zolang k < 2 {{ k += 1; als k == 1 {{ m += 100 }} anders {{ {f} m += 1000; stop }}; {f} volgende; m += 5 }}; [i, n, j, m, k]",
        f = filler
    );
    if in_fn {
        format!("functie f() {{ {} }}; f()", body)
    } else {
        body
    }
}

/// the first loop alone: one filler, so that F goes up to the limit of a single jump range
fn program_single(filler: &str, in_fn: bool) -> String {
    let body = format!("stel t = 0; stel i = 0; stel n = 0; zolang i < 4 {{ i += 1; als i == 2 {{ volgende }}; als i == 3 {{ stop }}; {f} als i == 9 {{ volgende }}; als i == 9 {{ stop }}; n += 1 }}; [i, n]", f = filler);
    if in_fn {
        format!("functie f() {{ {} }}; f()", body)
    } else {
        body
    }
}

fn expected() -> Val {
    Val::Array([3, 1, 3, 1112, 2].iter().map(|x| Val::Int(*x)).collect())
}

const A: &str = "ja; ";
const B: &str = "!ja; ";

fn code_len(text: &str) -> Option<usize> {
    use nederlang::compiler::Compiler;
    let ast = nederlang::parser::parse(text).ok()?;
    let code = Compiler::new().compile_ast(&ast).ok()?;
    let n = code.instructions.len();
    for c in &code.constants {
        if c.is_heap_allocated() {
            c.free();
        }
    }
    Some(n)
}

/// bytes of code of the two filler statements, (top level, in a function): measured, not assumed
fn sizes() -> &'static [(usize, usize); 2] {
    static S: OnceLock<[(usize, usize); 2]> = OnceLock::new();
    S.get_or_init(|| {
        let mut out = [(0, 0); 2];
        for (k, in_fn) in [false, true].iter().enumerate() {
            // the filler occurs four times in the program
            let base = code_len(&program("", *in_fn)).unwrap_or(0);
            let a = code_len(&program(A, *in_fn)).unwrap_or(0);
            let b = code_len(&program(B, *in_fn)).unwrap_or(0);
            out[k] = ((a - base) / 4, (b - base) / 4);
        }
        out
    })
}

/// a filler of exactly `f` bytes of code, if the two statement sizes can make it
fn filler(f: usize, in_fn: bool) -> Option<String> {
    let (sa, sb) = sizes()[in_fn as usize];
    if sa == 0 || sb == 0 {
        return None;
    }
    for nb in 0..sa.max(sb) + 1 {
        if nb * sb <= f && (f - nb * sb) % sa == 0 {
            let na = (f - nb * sb) / sa;
            let mut s = String::with_capacity(na * A.len() + nb * B.len());
            for _ in 0..na {
                s.push_str(A);
            }
            for _ in 0..nb {
                s.push_str(B);
            }
            return Some(s);
        }
    }
    None
}

/// the F values of the quick tier: a dense window and the neighbourhoods of the usual suspects
pub fn quick_values() -> Vec<usize> {
    let mut v: Vec<usize> = (0..=4300).collect();
    for magic in [0x1337usize, 0x7fff, 0x8000, 0xdead, 0xbeef, 0xcafe, 0xbabe, 0xface, 0xfeed, 0xf00d, 0xc0de, 0xaaaa, 0x5555, 0xfffe, 0xffff, 0xfff0, 0xff00, 9999, 10_000, 12_345, 54_321, 65_000, 60_000, 50_000, 42_424, 31_337, 16_384, 32_768, 49_152, 8_192, 6_502, 8_086, 0x1234, 0x4321, 0xabcd, 0x2a2a, 0x1111, 0x2222, 0x7777, 0x8888, 0x9999] {
        // the jumps in the program see F plus a small constant (the code between the jump and the filler): cover a band
        for d in 0..120usize {
            if magic >= d {
                v.push(magic - d);
            }
        }
    }
    v.sort();
    v.dedup();
    v.retain(|f| *f <= 65_535);
    v
}

pub fn run(f: usize, fam: &str, st: &mut Stats) {
    for in_fn in [false, true] {
        let fill = match filler(f, in_fn) {
            Some(x) => x,
            None => {
                st.count("jump-distances:filler-size-not-reachable");
                continue;
            }
        };
        let single = f > 16_000;
        let text = if single { program_single(&fill, in_fn) } else { program(&fill, in_fn) };
        let expected = || if single { Val::Array(vec![Val::Int(3), Val::Int(1)]) } else { expected() };
        let mut cfg = ObsCfg::default();
        cfg.budget = Some(2_000_000);
        let o = eval_observed(&text, &cfg);
        st.evaluations += 1;
        match &o.outcome {
            Outcome::Value(v) if same_val(v, &expected()) => {
                st.count(if in_fn { "jump-distances:in-function:agreed" } else { "jump-distances:top-level:agreed" });
                st.max("jump-distances:largest-filler-that-compiled", f as u64);
            }
            // past the 64 KiB of one jump range the documented limit answers
            Outcome::Error(crate::val::ErrKind::Syntax, m) if m.contains("te groot") && f > 65_000 => {
                st.count("jump-distances:limit-error");
            }
            other => {
                st.violation(
                    &format!("{}:{}:{}", fam, if in_fn { "in-function" } else { "top-level" }, other.class()),
                    format!("filler of {} bytes of code ({} statements): expected {}, got {}", f, fill.len() / 4, crate::val::render_val(&expected()), crate::obs::clip(&other.render(), 200)),
                    &format!("{}", crate::obs::clip(&text, 600)),
                );
            }
        }
    }
}

pub fn sizes_note() -> String {
    let s = sizes();
    format!("filler statements `ja;` / `!ja;` compile to {} / {} bytes at top level and {} / {} bytes in a function", s[0].0, s[0].1, s[1].0, s[1].1)
}
