//! C06 — operators are exact over the whole value range.
//! Oracle: i128 arithmetic / host IEEE-754 / code-point order, compared with `eval` of `a op b`
//! in three syntactic forms.

use super::{int_lattice, random_int61, Families, MAX_INT, MIN_INT};
use crate::obs::{eval_observed, ObsCfg, Outcome};
use crate::rng::{hash_str, Rng};
use crate::sup::{Check, Ctx, Flavour, Stats, Summary, Tier};
use crate::val::{same_val, ErrKind, Val};
use serde_json::json;

pub const OPS: [&str; 11] = ["+", "-", "*", "/", "%", "<", "<=", ">", ">=", "==", "!="];

pub struct C06 {
    lattice: Vec<i64>,
    floats: Vec<f64>,
    strings: Vec<&'static str>,
    cfg: ObsCfg,
}

/// spelling of an integer as an expression (there are no negative literals)
pub fn int_lit(v: i64) -> String {
    if v >= 0 {
        format!("{}", v)
    } else if v == MIN_INT {
        format!("(-{} - 1)", MAX_INT)
    } else {
        format!("(-{})", -v)
    }
}

/// spelling of a float as an expression
pub fn float_lit(f: f64) -> String {
    if f.is_nan() {
        "(0.0 / 0.0)".to_string()
    } else if f.is_infinite() {
        if f > 0.0 {
            "(1.0 / 0.0)".to_string()
        } else {
            "(-1.0 / 0.0)".to_string()
        }
    } else {
        let mut s = format!("{}", f.abs());
        if !s.contains('.') {
            s.push_str(".0");
        }
        if f.is_sign_negative() {
            format!("(-{})", s)
        } else {
            s
        }
    }
}

#[derive(Clone, Debug)]
enum Expect {
    Exact(Val),
    /// any error kind
    AnyErr,
    TypeErr,
    /// unspecified by the documentation: a value or an error, but no crash
    ValueOrErr,
}

fn int_expect(a: i64, op: &str, b: i64) -> Expect {
    let (x, y) = (a as i128, b as i128);
    let r: Option<i128> = match op {
        "+" => Some(x + y),
        "-" => Some(x - y),
        "*" => Some(x * y),
        "/" => {
            if y == 0 {
                None
            } else {
                Some(x / y)
            }
        }
        "%" => {
            if y == 0 {
                None
            } else {
                Some(x % y)
            }
        }
        "<" => return Expect::Exact(Val::Bool(x < y)),
        "<=" => return Expect::Exact(Val::Bool(x <= y)),
        ">" => return Expect::Exact(Val::Bool(x > y)),
        ">=" => return Expect::Exact(Val::Bool(x >= y)),
        "==" => return Expect::Exact(Val::Bool(x == y)),
        "!=" => return Expect::Exact(Val::Bool(x != y)),
        _ => unreachable!(),
    };
    match r {
        Some(v) if v >= MIN_INT as i128 && v <= MAX_INT as i128 => Expect::Exact(Val::Int(v as i64)),
        _ => Expect::AnyErr,
    }
}

fn float_expect(a: f64, op: &str, b: f64) -> Expect {
    Expect::Exact(match op {
        "+" => Val::Float(a + b),
        "-" => Val::Float(a - b),
        "*" => Val::Float(a * b),
        "/" => Val::Float(a / b),
        "%" => Val::Float(a % b),
        "<" => Val::Bool(a < b),
        "<=" => Val::Bool(a <= b),
        ">" => Val::Bool(a > b),
        ">=" => Val::Bool(a >= b),
        "==" => Val::Bool(a == b),
        "!=" => Val::Bool(a != b),
        _ => unreachable!(),
    })
}

fn str_expect(a: &str, op: &str, b: &str) -> Expect {
    // lexicographic by code point == byte order of UTF-8
    let (ca, cb): (Vec<char>, Vec<char>) = (a.chars().collect(), b.chars().collect());
    match op {
        "<" => Expect::Exact(Val::Bool(ca < cb)),
        "<=" => Expect::Exact(Val::Bool(ca <= cb)),
        ">" => Expect::Exact(Val::Bool(ca > cb)),
        ">=" => Expect::Exact(Val::Bool(ca >= cb)),
        "==" => Expect::Exact(Val::Bool(ca == cb)),
        "!=" => Expect::Exact(Val::Bool(ca != cb)),
        _ => Expect::TypeErr,
    }
}

pub fn str_lit(s: &str) -> String {
    let mut o = String::from("\"");
    for c in s.chars() {
        match c {
            '"' => o.push_str("\\\""),
            '\\' => o.push_str("\\\\"),
            '\n' => o.push_str("\\n"),
            '\t' => o.push_str("\\t"),
            c => o.push(c),
        }
    }
    o.push('"');
    o
}

const TYPES: [&str; 7] = ["null", "bool", "int", "float", "string", "array", "functie"];
const TYPE_EXPR: [&str; 7] = ["n", "ja", "3", "1.5", "\"a\"", "[1]", "g"];
const CROSS_PRELUDE: &str = "functie g() { 1 }; stel n = als nee { 1 }; ";

impl C06 {
    pub fn new() -> Self {
        let floats = vec![
            0.0,
            -0.0,
            f64::from_bits(1),
            -f64::from_bits(1),
            f64::MIN_POSITIVE,
            1.0,
            -1.0,
            f64::MAX,
            f64::MIN,
            f64::INFINITY,
            f64::NEG_INFINITY,
            f64::NAN,
            0.1,
            0.2,
            0.30000000000000004,
            1e15 + 0.5,
            3.0,
            -7.5,
            2.0,
            0.5,
            1e300,
            1e-300,
            9007199254740993.0,
            1.0000000000000002,
        ];
        let strings = vec!["", "a", "b", "ab", "aa", "A", "é", "e", "ez", "€", "💖", "a💖", "aé", "z", "10", "9", " ", "abc", "abd", "\u{7f}", "\u{80}", "\u{7ff}", "\u{800}", "\u{ffff}", "\u{10000}"];
        C06 {
            lattice: int_lattice(),
            floats,
            strings,
            cfg: ObsCfg::plain(10_000),
        }
    }

    fn fams(&self, ctx: &Ctx) -> Families {
        let n = self.lattice.len() as u64;
        let (lat, rnd, frnd, srnd) = match (ctx.flavour, ctx.tier) {
            // the debug build re-runs a strided part of the lattice plus fewer random pairs
            (Flavour::Rel, Tier::Quick) => (n * n, 40_000, 20_000, 5_000),
            (Flavour::Rel, Tier::Thorough) => (n * n, 3_000_000, 1_000_000, 200_000),
            (_, Tier::Quick) => (n * n / 16, 3_000, 3_000, 1_000),
            (_, Tier::Thorough) => (n * n / 2, 100_000, 50_000, 10_000),
        };
        let chains = match (ctx.flavour, ctx.tier) {
            (Flavour::Rel, Tier::Quick) => 30_000,
            (Flavour::Rel, Tier::Thorough) => 2_000_000,
            (_, Tier::Quick) => 3_000,
            (_, Tier::Thorough) => 100_000,
        };
        Families::new(vec![
            ("int-lattice", lat),
            ("int-random", rnd),
            ("float-pool", (self.floats.len() * self.floats.len()) as u64),
            ("float-random", frnd),
            ("string-pool", (self.strings.len() * self.strings.len()) as u64),
            ("string-random", srnd),
            ("cross-type", 49),
            ("int-chains", chains),
            // == != < <= > >= of long strings across in-place changes (props/strlife.rs)
            ("string-lifecycle", match (ctx.flavour, ctx.tier) { (Flavour::Rel, Tier::Quick) => 4_000, (Flavour::Rel, Tier::Thorough) => 300_000, (_, Tier::Quick) => 300, _ => 5_000 }),
        ])
    }

    fn lattice_pair(&self, ctx: &Ctx, i: u64) -> (i64, i64) {
        let n = self.lattice.len() as u64;
        let total = n * n;
        let fam_n = self.fams(ctx).fams[0].1;
        // strided sub-sampling for the reduced flavours (stride 1 = complete)
        let stride = total / fam_n;
        let k = (i * stride + (ctx.seed % stride.max(1))) % total;
        (self.lattice[(k / n) as usize], self.lattice[(k % n) as usize])
    }

    fn check_one(&self, program: &str, expect: &Expect, fam: &str, op: &str, form: &str, st: &mut Stats) {
        let o = eval_observed(program, &self.cfg);
        st.evaluations += 1;
        let ok = match (&o.outcome, expect) {
            (Outcome::Value(v), Expect::Exact(w)) => same_val(v, w),
            (Outcome::Error(_, _), Expect::AnyErr) => true,
            (Outcome::Error(k, _), Expect::TypeErr) => *k == ErrKind::Type,
            (Outcome::Value(_), Expect::ValueOrErr) | (Outcome::Error(_, _), Expect::ValueOrErr) => true,
            _ => false,
        };
        st.count(match expect {
            Expect::Exact(_) => "expect:exact",
            Expect::AnyErr => "expect:range-or-zero-error",
            Expect::TypeErr => "expect:type-error",
            Expect::ValueOrErr => "expect:unspecified",
        });
        if !ok {
            let want = match expect {
                Expect::Exact(v) => format!("Value({})", crate::val::render_val(v)),
                Expect::AnyErr => "an error (zero divisor / result out of the 61-bit range)".to_string(),
                Expect::TypeErr => "Err(Type)".to_string(),
                Expect::ValueOrErr => "a value or an error".to_string(),
            };
            let class = match (&o.outcome, expect) {
                (Outcome::Panic(..), _) => "panic",
                (Outcome::Value(_), Expect::Exact(_)) => "wrong-value",
                (Outcome::Value(_), _) => "value-instead-of-error",
                (Outcome::Error(..), Expect::Exact(_)) => "error-instead-of-value",
                (Outcome::Error(..), _) => "wrong-error-kind",
                _ => "other",
            };
            st.violation(
                &format!("{}:{}:{}:{}", fam, op, form, class),
                format!("expected {}, got {}", want, o.outcome.render()),
                program,
            );
        }
    }

    fn three_forms(&self, a: &str, b: &str, op: &str, expect: &Expect, fam: &str, st: &mut Stats) {
        let pa = format!("({}) {} ({})", a, op, b);
        self.check_one(&pa, expect, fam, op, "toplevel", st);
        let pb = format!("functie f(x) {{ x {} {} }} f({})", op, b, a);
        self.check_one(&pb, expect, fam, op, "var-op-lit", st);
        let pc = format!("functie f(x) {{ {} {} x }} f({})", a, op, b);
        self.check_one(&pc, expect, fam, op, "lit-op-var", st);
        // a comparison under `!`: the logical negation of the comparison's own answer (for NaN that is not the answer of
        // the opposite comparison)
        if matches!(op, "<" | "<=" | ">" | ">=" | "==" | "!=") {
            let neg = match expect {
                Expect::Exact(Val::Bool(v)) => Some(Expect::Exact(Val::Bool(!*v))),
                Expect::TypeErr => Some(Expect::TypeErr),
                _ => None,
            };
            if let Some(neg) = neg {
                let pn = format!("!(({}) {} ({}))", a, op, b);
                self.check_one(&pn, &neg, fam, op, "negated-toplevel", st);
                let pm = format!("functie f(x, y) {{ als !(x {} y) {{ ja }} anders {{ nee }} }} f({}, {})", op, a, b);
                self.check_one(&pm, &neg, fam, op, "negated-in-condition", st);
            }
        }
        // the very same object on both sides (x op x): the answer is that of two equal values — also for NaN
        if a == b {
            let pd = format!("stel x = {}; x {} x", a, op);
            self.check_one(&pd, expect, fam, op, "same-global", st);
            let pe = format!("functie f(x) {{ stel y = x; [x {} x, y {} x][1] }} f({})", op, op, a);
            self.check_one(&pe, expect, fam, op, "same-local", st);
        }
        st.count(&format!("op:{}", op));
    }
}

fn random_float(r: &mut Rng) -> f64 {
    loop {
        let f = match r.below(5) {
            0 => f64::from_bits(r.next()),
            1 => (r.range(-1000, 1000) as f64) / 8.0,
            2 => f64::from_bits(r.next() & 0x800f_ffff_ffff_ffff), // subnormals and zeros
            3 => (random_int61(r) as f64) * 1.5,
            _ => f64::from_bits((r.next() & 0x800f_ffff_ffff_ffff) | ((r.range(1000, 1046) as u64) << 52)), // moderate exponents
        };
        if f.is_finite() {
            return f;
        }
    }
}

fn random_str(r: &mut Rng) -> String {
    let n = r.below(5);
    let mut s = String::new();
    for _ in 0..n {
        s.push(*r.pick(&['a', 'b', 'A', 'é', '€', '💖', 'z', '0', '9', ' ', '\u{7f}', '\u{80}', '\u{800}', '\u{ffff}', '\u{10000}']));
    }
    s
}

impl Check for C06 {
    fn id(&self) -> &'static str {
        "C06"
    }
    fn total_cases(&self, ctx: &Ctx) -> u64 {
        self.fams(ctx).total()
    }
    fn chunk_size(&self, _ctx: &Ctx) -> u64 {
        1000
    }
    fn describe_case(&mut self, ctx: &Ctx, idx: u64) -> String {
        let (_, name, i) = self.fams(ctx).locate(idx);
        format!("{} #{}", name, i)
    }

    fn run_case(&mut self, ctx: &Ctx, idx: u64, st: &mut Stats) {
        let (f, name, i) = self.fams(ctx).locate(idx);
        let mut r = Rng::for_case(ctx.seed, f as u64 + 600, i);
        match name {
            "int-lattice" | "int-random" => {
                let (a, b) = if name == "int-lattice" {
                    self.lattice_pair(ctx, i)
                } else {
                    let a = random_int61(&mut r);
                    let b = match r.below(4) {
                        0 => (a as i128 + r.range(-3, 3) as i128).clamp(MIN_INT as i128, MAX_INT as i128) as i64,
                        1 => {
                            // near overflow of + or -: b ≈ MAX - a
                            ((MAX_INT as i128 - a as i128) + r.range(-2, 2) as i128).clamp(MIN_INT as i128, MAX_INT as i128) as i64
                        }
                        2 => {
                            // near overflow of *: b ≈ MAX / a
                            if a == 0 {
                                0
                            } else {
                                ((MAX_INT as i128 / a as i128) + r.range(-2, 2) as i128).clamp(MIN_INT as i128, MAX_INT as i128) as i64
                            }
                        }
                        _ => random_int61(&mut r),
                    };
                    (a, b)
                };
                st.distinct_hash(hash_str(&format!("i {} {}", a, b)));
                if i % 9973 == 0 {
                    st.sample(&format!("{} {{+ - * / % < <= > >= == !=}} {} in three forms, e.g. `functie f(x) {{ x - {} }} f({})`", a, b, int_lit(b), int_lit(a)));
                }
                let (la, lb) = (int_lit(a), int_lit(b));
                for op in OPS {
                    let e = int_expect(a, op, b);
                    self.three_forms(&la, &lb, op, &e, name, st);
                }
            }
            "float-pool" | "float-random" => {
                let (a, b) = if name == "float-pool" {
                    let n = self.floats.len() as u64;
                    (self.floats[(i / n) as usize], self.floats[(i % n) as usize])
                } else {
                    let a = random_float(&mut r);
                    let b = if r.chance(1, 4) { a } else { random_float(&mut r) };
                    (a, b)
                };
                st.distinct_hash(hash_str(&format!("f {:x} {:x}", a.to_bits(), b.to_bits())));
                if i % 4001 == 0 {
                    st.sample(&format!("{} op {}", float_lit(a), float_lit(b)));
                }
                let (la, lb) = (float_lit(a), float_lit(b));
                for op in OPS {
                    let e = float_expect(a, op, b);
                    self.three_forms(&la, &lb, op, &e, name, st);
                }
            }
            "string-pool" | "string-random" => {
                let (a, b): (String, String) = if name == "string-pool" {
                    let n = self.strings.len() as u64;
                    (self.strings[(i / n) as usize].to_string(), self.strings[(i % n) as usize].to_string())
                } else {
                    let a = random_str(&mut r);
                    let b = match r.below(3) {
                        0 => a.clone(),
                        1 => format!("{}{}", a, random_str(&mut r)),
                        _ => random_str(&mut r),
                    };
                    (a, b)
                };
                st.distinct_hash(hash_str(&format!("s {:?} {:?}", a, b)));
                let (la, lb) = (str_lit(&a), str_lit(&b));
                for op in OPS {
                    let e = str_expect(&a, op, &b);
                    self.three_forms(&la, &lb, op, &e, name, st);
                }
            }
            "cross-type" => {
                let (ta, tb) = ((i / 7) as usize, (i % 7) as usize);
                st.distinct_hash(hash_str(&format!("x {} {}", ta, tb)));
                st.set_insert("cross-type-pairs", &format!("{}x{}", TYPES[ta], TYPES[tb]));
                for op in OPS {
                    let arith = matches!(op, "+" | "-" | "*" | "/" | "%");
                    let eqop = matches!(op, "==" | "!=");
                    let expect = if ta != tb {
                        Expect::TypeErr
                    } else {
                        match TYPES[ta] {
                            // same type: int/float/string are covered by the other families; here only
                            // that unsupported operand types are reported as errors
                            "int" | "float" => continue,
                            "string" => {
                                if arith {
                                    Expect::TypeErr
                                } else {
                                    continue;
                                }
                            }
                            "null" | "bool" | "functie" => {
                                if arith {
                                    Expect::TypeErr
                                } else if eqop {
                                    Expect::Exact(Val::Bool(op == "=="))
                                } else {
                                    Expect::ValueOrErr
                                }
                            }
                            _ => {
                                // arrays
                                if arith {
                                    Expect::TypeErr
                                } else {
                                    Expect::ValueOrErr
                                }
                            }
                        }
                    };
                    let p = format!("{}{} {} {}", CROSS_PRELUDE, TYPE_EXPR[ta], op, TYPE_EXPR[tb]);
                    self.check_one(&p, &expect, name, op, "toplevel", st);
                    let p2 = format!("{}functie f(x, y) {{ x {} y }} f({}, {})", CROSS_PRELUDE, op, TYPE_EXPR[ta], TYPE_EXPR[tb]);
                    self.check_one(&p2, &expect, name, op, "locals", st);
                    // a local variable against an integer LITERAL (the specialised instructions), both sides
                    if TYPES[tb] == "int" && ta != tb {
                        let p3 = format!("{}functie f(x) {{ x {} 3 }} f({})", CROSS_PRELUDE, op, TYPE_EXPR[ta]);
                        self.check_one(&p3, &expect, name, op, "var-op-lit", st);
                    }
                    if TYPES[ta] == "int" && ta != tb {
                        let p4 = format!("{}functie f(x) {{ 3 {} x }} f({})", CROSS_PRELUDE, op, TYPE_EXPR[tb]);
                        self.check_one(&p4, &expect, name, op, "lit-op-var", st);
                    }
                    if i == 12 && op == "+" {
                        st.sample(&p2);
                    }
                }
            }
            "string-lifecycle" => {
                let mut r = Rng::for_case(ctx.seed, 6_900, i);
                super::strlife::run_case(&mut r, super::strlife::Focus::Equality, name, false, st);
            }
            "int-chains" => {
                // every application in a chain of operators is exact and reports its own overflow: `x + 1 - 1` at the
                // upper end of the range is an error although the sum of the constants is zero. Terms: one variable (at
                // any position) among integer literals; operators with their precedence (* / % bind tighter than + -),
                // optionally one comparison at the end. The expectation is computed with 128-bit arithmetic, one
                // application at a time.
                let ends = [MAX_INT, MAX_INT - 1, MAX_INT - 2, MIN_INT, MIN_INT + 1, MIN_INT + 2, 0, 1, -1, 2, -2];
                let x = match r.below(4) {
                    0 | 1 => ends[r.below(ends.len() as u64) as usize],
                    2 => self.lattice[r.below(self.lattice.len() as u64) as usize],
                    _ => random_int61(&mut r),
                };
                let nterms = 3 + r.below(3) as usize; // 3..5 terms
                let pos = if r.chance(2, 3) { 0 } else { r.below(nterms as u64) as usize };
                let mut lits: Vec<i64> = vec![];
                for _ in 0..nterms {
                    lits.push(match r.below(8) {
                        0 | 1 | 2 => [1, 1, 2, 3, 7, 10][r.below(6) as usize],
                        3 => r.range(0, 20),
                        4 => [MAX_INT, MAX_INT - 1, 1 << 59, (1 << 59) + 1, 1 << 30][r.below(5) as usize],
                        5 => -[1, 2, 7][r.below(3) as usize],
                        6 => 0,
                        _ => (x as i128 + r.range(-2, 2) as i128).clamp(0, MAX_INT as i128) as i64,
                    });
                }
                let mut ops: Vec<&str> = vec![];
                for _ in 0..nterms - 1 {
                    ops.push(match r.below(10) {
                        0..=3 => "+",
                        4..=7 => "-",
                        8 => "*",
                        _ => ["/", "%"][r.below(2) as usize],
                    });
                }
                let cmp: Option<(&str, i64)> = if r.chance(1, 4) { Some((["<", "<=", ">", ">=", "==", "!="][r.below(6) as usize], lits[0])) } else { None };
                // expectation: products first, then sums, each application checked against the range
                let vals: Vec<i128> = (0..nterms).map(|k| if k == pos { x as i128 } else { lits[k] as i128 }).collect();
                let in_range = |v: i128| v >= MIN_INT as i128 && v <= MAX_INT as i128;
                let mut err = false;
                let mut sum_terms: Vec<i128> = vec![vals[0]];
                let mut sum_ops: Vec<&str> = vec![];
                for (k, op) in ops.iter().enumerate() {
                    let rhs = vals[k + 1];
                    match *op {
                        "*" | "/" | "%" => {
                            let l = *sum_terms.last().unwrap();
                            let v = match *op {
                                "*" => Some(l * rhs),
                                "/" => if rhs == 0 { None } else { Some(l / rhs) },
                                _ => if rhs == 0 { None } else { Some(l % rhs) },
                            };
                            match v {
                                Some(v) if in_range(v) => *sum_terms.last_mut().unwrap() = v,
                                _ => { err = true; break; }
                            }
                        }
                        _ => { sum_terms.push(rhs); sum_ops.push(op); }
                    }
                }
                let mut acc = sum_terms[0];
                if !err {
                    for (k, op) in sum_ops.iter().enumerate() {
                        acc = if *op == "+" { acc + sum_terms[k + 1] } else { acc - sum_terms[k + 1] };
                        if !in_range(acc) { err = true; break; }
                    }
                }
                let expect = if err {
                    Expect::AnyErr
                } else {
                    match cmp {
                        None => Expect::Exact(Val::Int(acc as i64)),
                        Some((c, k)) => {
                            let k = k as i128;
                            Expect::Exact(Val::Bool(match c { "<" => acc < k, "<=" => acc <= k, ">" => acc > k, ">=" => acc >= k, "==" => acc == k, _ => acc != k }))
                        }
                    }
                };
                let chain = |var: &str| -> String {
                    let mut t = String::new();
                    for k in 0..nterms {
                        if k > 0 { t.push_str(&format!(" {} ", ops[k - 1])); }
                        if k == pos { t.push_str(var) } else { t.push_str(&int_lit(lits[k])) }
                    }
                    if let Some((c, k)) = cmp { t.push_str(&format!(" {} {}", c, int_lit(k))); }
                    t
                };
                let opsig = format!("{}-terms", nterms);
                st.distinct_hash(hash_str(&format!("c {} {}", x, chain("x"))));
                st.count(&format!("chain-terms:{}", nterms));
                st.count(if err { "chain:expect-error" } else { "chain:expect-value" });
                if i % 2003 == 0 {
                    st.sample(&format!("functie f(x) {{ {} }} f({})", chain("x"), int_lit(x)));
                }
                let lx = int_lit(x);
                self.check_one(&format!("functie f(x) {{ {} }} f({})", chain("x"), lx), &expect, name, &opsig, "parameter", st);
                self.check_one(&format!("functie f() {{ stel x = {}; {} }} f()", lx, chain("x")), &expect, name, &opsig, "local", st);
                self.check_one(&format!("stel x = {}; {}", lx, chain("x")), &expect, name, &opsig, "global", st);
                self.check_one(&chain(&format!("({})", lx)), &expect, name, &opsig, "literals", st);
                self.check_one(&format!("functie f(x) {{ stel r = {}; r }} f({})", chain("x"), lx), &expect, name, &opsig, "parameter-into-local", st);
            }
            _ => unreachable!(),
        }
    }

    fn summarize(&self, ctx: &Ctx, merged: &Stats) -> Summary {
        let fams = self.fams(ctx);
        let n = self.lattice.len() as u64;
        let mut inconclusive = vec![];
        for op in OPS {
            if merged.counters.get(&format!("op:{}", op)).copied().unwrap_or(0) == 0 {
                inconclusive.push(format!("operator {} never evaluated", op));
            }
        }
        if merged.sets.get("cross-type-pairs").map(|s| s.len()).unwrap_or(0) != 49 {
            inconclusive.push("cross-type matrix incomplete".to_string());
        }
        Summary {
            rule: "one case = one operand pair evaluated with all 11 operators in three syntactic forms (literal op literal; variable op literal inside a function, which selects the fused opcodes for non-negative literals; literal op variable inside a function); expected results from i128 arithmetic / host IEEE-754 / code-point order; distinct = distinct operand pairs (every pair is non-trivial: 33 real evaluations)".to_string(),
            exhaustive: Some(true),
            extra: json!({
                "exhaustive_parts": [format!("all {}x{} pairs of the boundary lattice x 11 operators x 3 forms (release build)", n, n), "float special pool cross product", "string pool cross product", "7x7 cross-type matrix"],
                "lattice_size": n,
                "families": fams.fams.iter().map(|f| json!({"name": f.0, "cases": f.1})).collect::<Vec<_>>(),
                "order_laws": "totality, antisymmetry, transitivity and agreement with the integers follow from exact agreement of all six comparisons with the integer order on every lattice pair",
            }),
            assumptions: vec!["the host's f64 operations are IEEE-754 (same hardware executes both sides; any NaN equals any NaN)".to_string()],
            inconclusive,
        }
    }

    fn post(&mut self, ctx: &Ctx, merged: &mut Stats) {
        if ctx.flavour == Flavour::Rel {
            crate::sup::run_sub_flavour("C06", ctx, Flavour::Dbg, merged);
        }
    }
}
