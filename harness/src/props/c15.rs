//! C15 — the value encoding is lossless and collision-free.
//! Direct round-trip and pairwise-distinctness assertions on the public `Object` API (no VM).

use super::{int_lattice, random_int61, Families};
use crate::rng::{hash_str, Rng};
use crate::sup::{Check, Ctx, Stats, Summary};
use nederlang::object::{FromString, FromVec, Object, Type};
use nederlang::verif::{self, GC};
use crate::val::{same_val, Val};
use serde_json::json;

/// literals for the `literal-pairs` family: spelling as written in a program
const LITERALS: [&str; 50] = [
    // numerals with leading zeros: decimal all the same
    "00", "007", "010", "0755", "08", "09", "0100", "000012", "00.5", "010.50", "-010",
    "3.141592653589793238462643", "0.1000000000000000055511151231257827", "123456789012345678901234567890.5", "0.000000000000000000000000000001234567890123456789", "2.71828182845904523536",
    "0", "1", "-1", "7", "-7", "255", "256", "65535", "65536", "1152921504606846975", "-1152921504606846975", "0.0", "-0.0", "1.0", "-1.0", "0.5",
    "-0.5", "0.1", "-0.1", "1.5", "100.25", "0.30000000000000004", "3.141592653589793", "1000000000000000000000.0", "-1000000000000000000000.0",
    "0.000000000000000000001", "ja", "nee", "\"\"", "\"0\"", "\"0.0\"", "\"-0.0\"", "\"ja\"", "\"é\"",
];

/// (expression, type) for the `cross-type-equality` family; values whose payload bits coincide across types on purpose
/// (0 / nee / null / 0.0 / "", 1 / ja / 1.0 / "1")
const XVALS: [(&str, &str); 14] = [
    ("0", "int"),
    ("1", "int"),
    ("2", "int"),
    ("ja", "bool"),
    ("nee", "bool"),
    ("(als nee { 1 })", "null"),
    ("0.0", "float"),
    ("1.0", "float"),
    ("\"\"", "string"),
    ("\"1\"", "string"),
    ("\"ja\"", "string"),
    ("(functie() { 1 })", "functie"),
    ("[1]", "lijst"),
    ("[]", "lijst"),
];

/// (literal, a statement that changes the value held by `t` in place) for the `literal-reevaluation` family
const RELITS: [(&str, &str); 16] = [
    ("string(\"abc\")", "t[0] = \"#\""),
    ("[string(\"ab\"), \"ab\"]", "stel c = t[0]; c[0] = \"#\""),
    ("string(\"é\") + \"\"", "t[0] = \"e\""),
    ("[lengte(\"abc\"), string(\"abc\"), type(\"abc\")]", "stel c = t[1]; c[1] = \"#\"; stel d = t[2]; d[0] = \"#\""),
    ("[0, 0]", "t[0] = t[0] + 5"),
    ("[1.5, ja, 7]", "t[2] = t[2] * 2; t[1] = nee"),
    ("[[1], [2, 3]]", "stel r = t[0]; r[0] = r[0] + 10"),
    ("\"abc\"", "t[0] = \"#\""),
    ("[\"a\", 1]", "t[1] = t[1] + 1"),
    ("[-1, 2]", "t[0] = 0"),
    ("[nee]", "t[0] = ja"),
    ("[1152921504606846975]", "t[0] = 0"),
    ("[0.0, -0.0]", "t[1] = 1.0"),
    ("[0.5]", "t[0] = t[0] + 0.5"),
    ("[\"é\", \"💖\"]", "stel c = t[0]; c[0] = \"e\"; t[1] = \"x\""),
    ("[[], [[]]]", "t[0] = 1"),
];

fn literal_value(s: &str) -> Val {
    if s == "ja" || s == "nee" {
        Val::Bool(s == "ja")
    } else if let Some(body) = s.strip_prefix('"') {
        Val::Str(body.trim_end_matches('"').to_string())
    } else if s.contains('.') {
        // the nearest double of the decimal spelling; `-x` is the negation of the literal x
        Val::Float(s.parse::<f64>().unwrap())
    } else {
        Val::Int(s.parse::<i64>().unwrap())
    }
}

pub struct C15 {
    lattice: Vec<i64>,
    sample: Vec<Desc>,
}

const OFFSETS: [u32; 12] = [
    0,
    1,
    2,
    (1 << 15) - 1,
    (1 << 15) + 1,
    (1 << 16) - 1,
    (1 << 16) + 1,
    (1u32 << 31) - 1,
    (1u32 << 31) + 1,
    u32::MAX - 1,
    u32::MAX,
    1 << 15,
];
const COUNTS: [u16; 9] = [0, 1, 2, 255, 256, 32767, 32768, 65534, 65535];

/// description of a value, from which the object is (re)built
#[derive(Clone, Debug, PartialEq)]
enum Desc {
    Null,
    Bool(bool),
    Int(i64),
    Func(u32, u16),
    Float(u64),
    Str(String),
}

fn render(d: &Desc) -> String {
    match d {
        Desc::Float(b) => format!("Float(bits={:#018x}, {:?})", b, f64::from_bits(*b)),
        other => format!("{:?}", other),
    }
}

fn build(d: &Desc, gc: &mut GC) -> Object {
    match d {
        Desc::Null => Object::null(),
        Desc::Bool(b) => Object::bool(*b),
        Desc::Int(i) => Object::int(*i as isize),
        Desc::Func(o, c) => Object::function(*o, *c),
        Desc::Float(b) => Object::float(f64::from_bits(*b), gc),
        Desc::Str(s) => Object::string(s.as_str(), gc),
    }
}

fn ty_of(d: &Desc) -> Type {
    match d {
        Desc::Null => Type::Null,
        Desc::Bool(_) => Type::Bool,
        Desc::Int(_) => Type::Int,
        Desc::Func(..) => Type::Function,
        Desc::Float(_) => Type::Float,
        Desc::Str(_) => Type::String,
    }
}

/// expected `==` by the property statement: same type and same content, NaN excepted
fn expect_eq(a: &Desc, b: &Desc) -> bool {
    match (a, b) {
        (Desc::Float(x), Desc::Float(y)) => f64::from_bits(*x) == f64::from_bits(*y),
        _ => a == b,
    }
}

fn check_readback(d: &Desc, o: Object) -> Result<(), String> {
    if o.tag() != ty_of(d) {
        return Err(format!("tag is {:?}, expected {:?}", o.tag(), ty_of(d)));
    }
    let heap = matches!(d, Desc::Float(_) | Desc::Str(_));
    if o.is_heap_allocated() != heap {
        return Err(format!("is_heap_allocated() = {}", o.is_heap_allocated()));
    }
    if heap && verif::addr(o) % 8 != 0 {
        return Err(format!("heap address {:#x} not 8-aligned", verif::addr(o)));
    }
    match d {
        Desc::Null => Ok(()),
        Desc::Bool(b) => {
            if o.as_bool() == *b {
                Ok(())
            } else {
                Err(format!("as_bool() = {}", o.as_bool()))
            }
        }
        Desc::Int(i) => {
            if o.as_int() as i64 == *i {
                Ok(())
            } else {
                Err(format!("as_int() = {}", o.as_int()))
            }
        }
        Desc::Func(off, c) => {
            let [ip, n] = o.as_function();
            if ip == *off && n == *c as u32 {
                Ok(())
            } else {
                Err(format!("as_function() = [{}, {}]", ip, n))
            }
        }
        Desc::Float(b) => {
            let got = o.as_f64().to_bits();
            if got == *b {
                Ok(())
            } else {
                Err(format!("as_f64() bits = {:#018x}", got))
            }
        }
        Desc::Str(s) => {
            if o.as_str() == s {
                Ok(())
            } else {
                Err(format!("as_str() = {:?}", crate::obs::clip(o.as_str(), 80)))
            }
        }
    }
}

fn random_string(r: &mut Rng, max_chars: usize) -> String {
    let n = r.below(max_chars as u64 + 1) as usize;
    let mut s = String::new();
    for _ in 0..n {
        let c = match r.below(8) {
            0 => 'a',
            1 => char::from_u32(r.range(0x20, 0x7e) as u32).unwrap(),
            2 => char::from_u32(r.range(0xa0, 0x7ff) as u32).unwrap(),
            3 => char::from_u32(r.range(0x800, 0xd7ff) as u32).unwrap(),
            4 => char::from_u32(r.range(0x10000, 0x10ffff) as u32).unwrap_or('💖'),
            5 => *r.pick(&['"', '\\', '\n', '\t', '{', '}', '\0']),
            6 => 'é',
            _ => '💖',
        };
        s.push(c);
    }
    s
}

fn random_float_bits(r: &mut Rng) -> u64 {
    const SPECIAL: [u64; 14] = [
        0x0000_0000_0000_0000, // +0
        0x8000_0000_0000_0000, // -0
        0x0000_0000_0000_0001, // min subnormal
        0x8000_0000_0000_0001,
        0x000f_ffff_ffff_ffff, // max subnormal
        0x0010_0000_0000_0000, // min normal
        0x3ff0_0000_0000_0000, // 1
        0xbff0_0000_0000_0000, // -1
        0x7fef_ffff_ffff_ffff, // max
        0x7ff0_0000_0000_0000, // inf
        0xfff0_0000_0000_0000, // -inf
        0x7ff8_0000_0000_0000, // qNaN
        0x7ff0_0000_0000_0001, // sNaN payload 1
        0xfff8_dead_beef_0001, // negative qNaN with payload
    ];
    match r.below(4) {
        0 => *r.pick(&SPECIAL),
        1 => (0x7ff0_0000_0000_0000 | (r.next() & 0x000f_ffff_ffff_ffff)) | ((r.next() & 1) << 63), // NaNs/inf with payloads
        _ => r.next(),
    }
}

impl C15 {
    pub fn new() -> Self {
        // deterministic 200-value sample across null/bool/int/function/float/string
        let mut r = Rng::new(0xC15);
        let mut sample = vec![Desc::Null, Desc::Bool(true), Desc::Bool(false)];
        let lat = int_lattice();
        for v in [0i64, 1, -1, 2, 8, 16, super::MAX_INT, super::MIN_INT, 1 << 16, 65537, 3, 24] {
            sample.push(Desc::Int(v));
        }
        while sample.len() < 50 {
            sample.push(Desc::Int(*r.pick(&lat)));
        }
        // functions whose payload collides numerically with ints/bools if the tag were ignored
        for (o, c) in [(0u32, 0u16), (0, 1), (1, 0), (0, 2), (1, 1), (0, 65535), (u32::MAX, 65535), (u32::MAX, 0), (1 << 16, 0), (0, 8)] {
            sample.push(Desc::Func(o, c));
        }
        while sample.len() < 80 {
            sample.push(Desc::Func(*r.pick(&OFFSETS), *r.pick(&COUNTS)));
        }
        for b in [0u64, 0x8000_0000_0000_0000, 0x3ff0_0000_0000_0000, 0x7ff8_0000_0000_0000, 0x7ff0_0000_0000_0000, 0x4000_0000_0000_0000, 0x3ff0_0000_0000_0001] {
            sample.push(Desc::Float(b));
        }
        while sample.len() < 130 {
            sample.push(Desc::Float(random_float_bits(&mut r)));
        }
        for s in ["", "a", "b", "ab", "1", "0", "ja", "null", "é", "e\u{301}", "💖", "a\0", " ", "1.0"] {
            sample.push(Desc::Str(s.to_string()));
        }
        while sample.len() < 200 {
            sample.push(Desc::Str(random_string(&mut r, 5)));
        }
        C15 {
            lattice: lat,
            sample,
        }
    }

    fn fams(&self, ctx: &Ctx) -> Families {
        let t = ctx.tier;
        if ctx.flavour == crate::sup::Flavour::Miri {
            // interpreted: ~10^4 times slower, so a small but complete-in-kind workload
            return Families::new(vec![
                ("int-lattice", self.lattice.len() as u64),
                ("int-random", 200),
                ("func-grid", (OFFSETS.len() * COUNTS.len()) as u64),
                ("func-random", 100),
                ("immediates", 3),
                ("float", 300),
                ("string", 100),
                ("string-1MiB", 0),
                ("array", 100),
                ("pairs-row", 24),
                ("literal-pairs", 40),
                ("cross-type-equality", 60),
                ("literal-reevaluation", 12),
                ("immediate-collisions", 2),
                ("string-lifecycle", 40),
            ]);
        }
        Families::new(vec![
            ("int-lattice", self.lattice.len() as u64),
            ("int-random", t.pick(20_000, 2_000_000)),
            ("func-grid", (OFFSETS.len() * COUNTS.len()) as u64),
            ("func-random", t.pick(5_000, 500_000)),
            ("immediates", 3),
            ("float", t.pick(20_000, 2_000_000)),
            ("string", t.pick(3_000, 100_000)),
            ("string-1MiB", 1),
            ("array", t.pick(3_000, 100_000)),
            ("pairs-row", self.sample.len() as u64),
            ("literal-pairs", (LITERALS.len() * LITERALS.len()) as u64),
            ("cross-type-equality", (XVALS.len() * XVALS.len() * 5) as u64),
            ("literal-reevaluation", (RELITS.len() * 4) as u64),
            ("immediate-collisions", 12),
            // equality and order of long strings across in-place changes (props/strlife.rs)
            ("string-lifecycle", t.pick(4_000, 300_000)),
        ])
    }

    fn one(&self, d: &Desc, fam: &str, st: &mut Stats) {
        let mut gc = GC::new();
        let o = build(d, &mut gc);
        st.evaluations += 1;
        st.count(&format!("values:{}", fam));
        st.distinct_hash(hash_str(&format!("{:?}", d)));
        if let Err(e) = check_readback(d, o) {
            st.violation(&format!("roundtrip:{}", fam), format!("wrote {} but {}", render(d), e), &render(d));
        }
    }
}

/// random nested array description: leaves are immediates / floats / strings
#[derive(Clone, Debug)]
enum ADesc {
    Leaf(Desc),
    Arr(Vec<ADesc>),
}

fn random_adesc(r: &mut Rng, depth: usize) -> ADesc {
    if depth == 0 || r.chance(2, 3) {
        let d = match r.below(6) {
            0 => Desc::Null,
            1 => Desc::Bool(r.chance(1, 2)),
            2 => Desc::Int(random_int61(r)),
            3 => Desc::Func(r.next() as u32, r.next() as u16),
            4 => Desc::Float(random_float_bits(r)),
            _ => Desc::Str(random_string(r, 6)),
        };
        ADesc::Leaf(d)
    } else {
        let n = r.below(6) as usize;
        ADesc::Arr((0..n).map(|_| random_adesc(r, depth - 1)).collect())
    }
}

fn build_a(d: &ADesc, gc: &mut GC) -> Object {
    match d {
        ADesc::Leaf(l) => build(l, gc),
        ADesc::Arr(xs) => {
            let v: Vec<Object> = xs.iter().map(|x| build_a(x, gc)).collect();
            if v.len() % 2 == 0 {
                Object::array(v, gc)
            } else {
                Object::array(v.as_slice(), gc)
            }
        }
    }
}

fn check_a(d: &ADesc, o: Object) -> Result<(), String> {
    match d {
        ADesc::Leaf(l) => check_readback(l, o),
        ADesc::Arr(xs) => {
            if o.tag() != Type::Array {
                return Err(format!("tag is {:?}, expected Array", o.tag()));
            }
            if !o.is_heap_allocated() {
                return Err("array not heap allocated".to_string());
            }
            if verif::addr(o) % 8 != 0 {
                return Err("array address not 8-aligned".to_string());
            }
            let v = o.as_vec();
            if v.len() != xs.len() {
                return Err(format!("array length {} expected {}", v.len(), xs.len()));
            }
            for (i, x) in xs.iter().enumerate() {
                check_a(x, v[i]).map_err(|e| format!("[{}]: {}", i, e))?;
            }
            Ok(())
        }
    }
}

impl Check for C15 {
    fn id(&self) -> &'static str {
        "C15"
    }
    fn total_cases(&self, ctx: &Ctx) -> u64 {
        self.fams(ctx).total()
    }
    fn chunk_size(&self, _ctx: &Ctx) -> u64 {
        2000
    }
    fn describe_case(&mut self, ctx: &Ctx, idx: u64) -> String {
        let (_, name, i) = self.fams(ctx).locate(idx);
        format!("{} #{}", name, i)
    }

    fn run_case(&mut self, ctx: &Ctx, idx: u64, st: &mut Stats) {
        let (f, name, i) = self.fams(ctx).locate(idx);
        let mut r = Rng::for_case(ctx.seed, f as u64 + 1500, i);
        match name {
            "int-lattice" => {
                let d = Desc::Int(self.lattice[i as usize]);
                self.one(&d, name, st);
            }
            "int-random" => {
                let d = Desc::Int(random_int61(&mut r));
                self.one(&d, name, st);
            }
            "func-grid" => {
                let o = OFFSETS[i as usize / COUNTS.len()];
                let c = COUNTS[i as usize % COUNTS.len()];
                self.one(&Desc::Func(o, c), name, st);
                st.set_insert("func-grid", &format!("{},{}", o, c));
            }
            "func-random" => {
                let d = Desc::Func(r.next() as u32, r.next() as u16);
                self.one(&d, name, st);
            }
            "immediates" => {
                let d = [Desc::Null, Desc::Bool(true), Desc::Bool(false)][i as usize].clone();
                self.one(&d, name, st);
                // null and false and int 0 and function(0,0) must all be different words' meanings
                let all = [Object::null(), Object::bool(false), Object::int(0), Object::function(0, 0)];
                for a in 0..4 {
                    for b in 0..4 {
                        if (all[a] == all[b]) != (a == b) {
                            st.violation("immediates:collision", format!("zero-payload immediates {} and {} compare {}", a, b, all[a] == all[b]), "null/nee/0/function(0,0)");
                        }
                    }
                }
            }
            "float" => {
                let d = Desc::Float(random_float_bits(&mut r));
                self.one(&d, name, st);
                if let Desc::Float(b) = d {
                    let f = f64::from_bits(b);
                    st.count(if f.is_nan() {
                        "float:nan"
                    } else if f.is_infinite() {
                        "float:inf"
                    } else if f == 0.0 {
                        "float:zero"
                    } else if !f.is_normal() {
                        "float:subnormal"
                    } else {
                        "float:normal"
                    });
                }
            }
            "string" => {
                let d = Desc::Str(random_string(&mut r, 40));
                self.one(&d, name, st);
                if i < 2 {
                    if let Desc::Str(s) = &d {
                        st.sample(&format!("string {:?}", s));
                    }
                }
            }
            "string-1MiB" => {
                let mut s = String::with_capacity(1 << 20);
                while s.len() < (1 << 20) {
                    s.push_str("aé€💖");
                }
                self.one(&Desc::Str(s), name, st);
            }
            "array" => {
                let d = ADesc::Arr((0..r.below(6)).map(|_| random_adesc(&mut r, 3)).collect());
                let mut gc = GC::new();
                let o = build_a(&d, &mut gc);
                st.evaluations += 1;
                st.count("values:array");
                let txt = format!("{:?}", d);
                st.distinct_hash(hash_str(&txt));
                if i < 2 {
                    st.sample(&format!("array {}", txt));
                }
                if let Err(e) = check_a(&d, o) {
                    st.violation("roundtrip:array", e, &txt);
                }
                // the same array reached twice inside one value (no cycle): its text is written out both times
                let once = format!("{}", o);
                let twice = Object::array(vec![o, o], &mut gc);
                let got = format!("{}", twice);
                if !once.contains("[...]") && got != format!("[{}, {}]", once, once) {
                    st.violation("roundtrip:array-shared-rendering", format!("an array that holds the same array twice is rendered as {}, the array itself as {}", crate::obs::clip(&got, 300), crate::obs::clip(&once, 150)), &txt);
                }
            }
            "immediate-collisions" => {
                // Functions, booleans, null and integers are all stored inside the pointer word. One program holds functions
                // with 0-3 locals at many code offsets together with every integer that equals such a function's (or a
                // boolean's, or null's) payload under one of the plausible packings — offset * 2^16 + count, offset * 2^32 +
                // count, the same shifted by the three tag bits, the small numbers — and reads all of them back.
                let shift = [16u32, 32, 19, 35, 13, 29][(i % 6) as usize];
                let dense = i / 6 == 0;
                let mut items: Vec<String> = vec![];
                let mut want: Vec<Val> = vec![];
                let pad = if dense { 1 } else { 7 };
                for off in 0..220i64 {
                    for cnt in 0..4i64 {
                        let v = ((off * pad) << shift) | cnt;
                        if v <= crate::props::MAX_INT {
                            items.push(v.to_string());
                            want.push(Val::Int(v));
                        }
                    }
                }
                for v in [0i64, 1, 2, 3, 4, 5, 6, 7, 8] {
                    items.push(v.to_string());
                    want.push(Val::Int(v));
                }
                let text = format!(
                    "functie f0() {{ 7 }}; functie f1(a) {{ a }}; functie f2(a, b) {{ stel c = a + b; c }}; functie f3(a) {{ stel b = a; stel c = b; c }}; stel fs = [f0, f1, f2, f3, functie() {{ 9 }}]; stel ks = [{}]; stel g = fs[4]; [ks, f0(), f1(5), f2(1, 2), f3(4), g(), type(f0), type(ks[3]), ja, nee, type(ja)]",
                    items.join(", ")
                );
                let want = Val::Array(vec![Val::Array(want), Val::Int(7), Val::Int(5), Val::Int(3), Val::Int(4), Val::Int(9), Val::Str("functie".into()), Val::Str("int".into()), Val::Bool(true), Val::Bool(false), Val::Str("bool".into())]);
                let o = crate::obs::eval_observed(&text, &crate::obs::ObsCfg::plain(100_000));
                st.evaluations += 1;
                st.count("immediate-collisions");
                st.distinct_hash(hash_str(&text));
                let ok = matches!(&o.outcome, crate::obs::Outcome::Value(v) if same_val(v, &want));
                if !ok {
                    st.violation("immediate-collisions:read-back", format!("functions and integers written together do not read back as written (packing with shift {}): got {}", shift, crate::obs::clip(&o.outcome.render(), 300)), &crate::obs::clip(&text, 600));
                }
            }
            "literal-reevaluation" => {
                // a literal denotes a NEW value every time it is evaluated: what an earlier evaluation's value was turned
                // into afterwards must not show in a later one (function called again, next loop iteration, the same
                // spelling elsewhere). Oracle: the reference interpreter.
                let n = RELITS.len() as u64;
                let i = if ctx.flavour == crate::sup::Flavour::Miri { (i * 5 + ctx.seed) % (n * 4) } else { i };
                let (lit, mutation) = RELITS[(i % n) as usize];
                let text = match i / n {
                    0 => format!("functie f() {{ stel t = {}; {}; t }}; [f(), f(), f()]", lit, mutation),
                    1 => format!("stel uit = []; stel i = 0; zolang i < 3 {{ stel t = {}; {}; uit = [uit, t]; i += 1 }}; uit", lit, mutation),
                    2 => format!("stel t = {}; stel q = {}; {}; [t, q, {}]", lit, lit, mutation, lit),
                    _ => format!("functie maak() {{ {} }}; stel t = maak(); {}; stel u = maak(); [t, u, maak()]", lit, mutation),
                };
                let d = crate::diff::differential(&text, &crate::obs::ObsCfg::plain(100_000), 100_000, st);
                st.count("literal-reevaluation");
                match d.verdict {
                    crate::diff::Verdict::Agree { .. } => st.distinct_hash(hash_str(&text)),
                    crate::diff::Verdict::Mismatch { sig, detail } => st.violation(&format!("literal-reevaluation:{}", sig), detail, &text),
                    _ => st.count("literal-reevaluation:not-judged"),
                }
            }
            "cross-type-equality" => {
                // through the language: two values of different type are never equal, whichever instruction the compiler
                // picks for the comparison (an error is fine — C06 demands one —, `ja` for == or `nee` for != is not);
                // two values of the same type and content always are
                let n = XVALS.len() as u64;
                let total = n * n * 5;
                let i = if ctx.flavour == crate::sup::Flavour::Miri { (i * 37 + ctx.seed) % total } else { i };
                let (form, a, b) = (i % 5, XVALS[((i / 5) / n) as usize], XVALS[((i / 5) % n) as usize]);
                for (op, eq_answer) in [("==", "ja"), ("!=", "nee")] {
                    let text = match form {
                        0 => format!("{} {} {}", a.0, op, b.0),
                        1 => format!("functie f(x) {{ x {} {} }} f({})", op, b.0, a.0),
                        2 => format!("functie f(x) {{ {} {} x }} f({})", a.0, op, b.0),
                        3 => format!("functie f(x, y) {{ x {} y }} f({}, {})", op, a.0, b.0),
                        _ => format!("stel p = {}; stel q = {}; p {} q", a.0, b.0, op),
                    };
                    let o = crate::obs::eval_observed(&text, &crate::obs::ObsCfg::plain(10_000));
                    st.evaluations += 1;
                    st.count("cross-type-equality");
                    st.distinct_hash(hash_str(&text));
                    let says_equal = matches!(&o.outcome, crate::obs::Outcome::Value(Val::Bool(v)) if *v == (eq_answer == "ja"));
                    let says_unequal = matches!(&o.outcome, crate::obs::Outcome::Value(Val::Bool(v)) if *v != (eq_answer == "ja"));
                    if a.1 != b.1 && says_equal {
                        st.violation("cross-type-equality:different-types-equal", format!("{} gave {}: values of type {} and {} compare equal", text, o.outcome.render(), a.1, b.1), &text);
                    }
                    // same spelling, same type (functions and arrays aside: identity / no comparison)
                    if a.0 == b.0 && !matches!(a.1, "functie" | "lijst") && !says_equal {
                        st.violation("cross-type-equality:same-value-unequal", format!("{} gave {}", text, o.outcome.render()), &text);
                    }
                    if a.1 == b.1 && a.0 != b.0 && !matches!(a.1, "functie" | "lijst") && !says_unequal {
                        st.violation("cross-type-equality:different-content-equal", format!("{} gave {}", text, o.outcome.render()), &text);
                    }
                }
            }
            "literal-pairs" => {
                // two literals written in one program (so that they meet in the constant pool), each twice, directly
                // and through variables: what is read back must be what was written, bit for bit
                let n = LITERALS.len() as u64;
                let i = if ctx.flavour == crate::sup::Flavour::Miri { (i * 41 + ctx.seed) % (n * n) } else { i };
                let (x, y) = (LITERALS[(i / n) as usize], LITERALS[(i % n) as usize]);
                let text = format!("stel p = {x}; stel q = {y}; functie f(a) {{ [a, {y}, {x}] }}; [{x}, {y}, q, p, {x}, f({y})]");
                let (vx, vy) = (literal_value(x), literal_value(y));
                let want = Val::Array(vec![vx.clone(), vy.clone(), vy.clone(), vx.clone(), vx.clone(), Val::Array(vec![vy.clone(), vy.clone(), vx.clone()])]);
                let o = crate::obs::eval_observed(&text, &crate::obs::ObsCfg::plain(10_000));
                st.evaluations += 1;
                st.count("literal-pairs");
                st.distinct_hash(hash_str(&text));
                let ok = matches!(&o.outcome, crate::obs::Outcome::Value(v) if same_val(v, &want));
                if !ok {
                    st.violation("literal-pairs:read-back", format!("expected {}, got {}", crate::val::render_val(&want), o.outcome.render()), &text);
                }
            }
            "pairs-row" => {
                let a = &self.sample[i as usize];
                let mut gc = GC::new();
                let oa = build(a, &mut gc);
                for (j, b) in self.sample.iter().enumerate() {
                    let ob = build(b, &mut gc);
                    let got = oa == ob;
                    let got_rev = ob == oa;
                    let want = expect_eq(a, b);
                    st.evaluations += 1;
                    st.count("pairs");
                    if want {
                        st.count("pairs:equal");
                    }
                    st.distinct_hash(hash_str(&format!("pair {} {}", i, j)));
                    if got != want || got_rev != want {
                        st.violation(
                            "pairs:eq",
                            format!("({}) == ({}) is {} / reversed {}, expected {}", render(a), render(b), got, got_rev, want),
                            &format!("{} == {}", render(a), render(b)),
                        );
                    }
                    // a rebuilt copy of the same description must be equal to the original (unless NaN)
                    if i as usize == j {
                        let oc = build(a, &mut gc);
                        if (oa == oc) != want {
                            st.violation("pairs:copy", format!("two objects built from {} compare {}", render(a), oa == oc), &render(a));
                        }
                    }
                }
                if i == 0 {
                    st.sample(&format!("pairwise sample (200 values), e.g. {:?}", &self.sample[45..52].iter().map(render).collect::<Vec<_>>()));
                }
            }
            "string-lifecycle" => {
                let mut r = Rng::for_case(ctx.seed, 15_900, i);
                super::strlife::run_case(&mut r, super::strlife::Focus::Equality, name, ctx.flavour == crate::sup::Flavour::Miri, st);
            }
            _ => unreachable!(),
        }
    }

    fn summarize(&self, ctx: &Ctx, merged: &Stats) -> Summary {
        let fams = self.fams(ctx);
        let mut inconclusive = vec![];
        let grid = merged.sets.get("func-grid").map(|s| s.len()).unwrap_or(0);
        if grid != OFFSETS.len() * COUNTS.len() {
            inconclusive.push(format!("function (offset,count) grid incomplete: {} of {}", grid, OFFSETS.len() * COUNTS.len()));
        }
        let pairs = merged.counters.get("pairs").copied().unwrap_or(0);
        if pairs != (self.sample.len() * self.sample.len()) as u64 {
            inconclusive.push(format!("pairwise cross product incomplete: {} pairs", pairs));
        }
        Summary {
            rule: "constructors of nederlang::object::Object called directly, read back through tag/as_*/is_heap_allocated; plus every ordered pair of 34 literal spellings (integers up to both range ends, floats incl. both zeros and 17-digit fractions, booleans, strings that spell numbers) written together in one program, directly, through variables and through a function, and read back from the result; literals evaluated repeatedly (function called again, next iteration, same spelling elsewhere) after the earlier value was changed in place; and == / != between every ordered pair of 14 values of the seven types in five syntactic forms (literals, local against literal on either side, two locals, two globals): different types never equal, same type and content always, different content never; distinct = distinct value descriptions (and distinct ordered pairs); every case is non-trivial (an actual encode/decode)".to_string(),
            exhaustive: Some(true),
            extra: json!({
                "exhaustive_parts": ["int lattice", "function (offset,count) boundary grid", "200x200 pairwise cross product"],
                "families": fams.fams.iter().map(|f| json!({"name": f.0, "cases": f.1})).collect::<Vec<_>>(),
                "lattice_size": self.lattice.len(),
            }),
            assumptions: vec!["heap values are created through a GC obtained from the verif re-export; arrays are excluded from == (outside the property)".to_string()],
            inconclusive,
        }
    }

    fn post(&mut self, ctx: &Ctx, merged: &mut Stats) {
        if ctx.flavour == crate::sup::Flavour::Rel {
            // both tiers: the interpreter-sized workload natively under valgrind memcheck
            let mctx = Ctx { seed: ctx.seed, tier: ctx.tier, flavour: crate::sup::Flavour::Miri };
            let n = self.fams(&mctx).total();
            crate::sup::run_valgrind_inproc("C15", ctx, n, 8, merged);
        }
        // provenance of the int-to-pointer tagging, alignment, uninitialised reads, leaks: the whole check again under Miri
        if ctx.flavour == crate::sup::Flavour::Rel && ctx.tier == crate::sup::Tier::Thorough {
            let mctx = Ctx { seed: ctx.seed, tier: ctx.tier, flavour: crate::sup::Flavour::Miri };
            let n = self.fams(&mctx).total();
            crate::sup::run_miri("C15", ctx, 0, n, 16, merged);
        }
    }
}
