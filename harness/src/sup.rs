//! Supervisor / worker plumbing: cases are generated deterministically from (seed, index); the
//! supervisor hands out chunks of indices to worker processes, so that anything a case does to
//! the process (abort, signal, hang) is attributed to that case and cannot take the check down.

use serde_json::{json, Value};
use std::collections::{BTreeMap, BTreeSet, HashSet};
use std::io::{BufRead, BufReader, Write};
use std::process::{Child, Command, Stdio};
use std::sync::atomic::{AtomicU64, Ordering};
use std::sync::mpsc::{channel, Receiver, RecvTimeoutError};
use std::sync::{Arc, Mutex};
use std::time::{Duration, Instant};

#[derive(Clone, Copy, PartialEq, Eq, Debug)]
pub enum Tier {
    Quick,
    Thorough,
}

impl Tier {
    pub fn name(self) -> &'static str {
        match self {
            Tier::Quick => "quick",
            Tier::Thorough => "thorough",
        }
    }
    pub fn parse(s: &str) -> Option<Tier> {
        match s {
            "quick" => Some(Tier::Quick),
            "thorough" => Some(Tier::Thorough),
            _ => None,
        }
    }
    pub fn pick(self, q: u64, t: u64) -> u64 {
        match self {
            Tier::Quick => q,
            Tier::Thorough => t,
        }
    }
}

#[derive(Clone, Copy, Debug, PartialEq, Eq)]
pub enum Flavour {
    /// release profile (no debug assertions, no overflow checks), hooks on: the primary build
    Rel,
    /// dev profile: debug assertions and overflow checks on
    Dbg,
    /// nightly -Zsanitizer=address
    Asan,
    /// interpreted by Miri
    Miri,
}

impl Flavour {
    pub fn name(self) -> &'static str {
        match self {
            Flavour::Rel => "rel",
            Flavour::Dbg => "dbg",
            Flavour::Asan => "asan",
            Flavour::Miri => "miri",
        }
    }
    pub fn from_env() -> Flavour {
        match std::env::var("NLV_FLAVOUR").as_deref() {
            Ok("dbg") => Flavour::Dbg,
            Ok("asan") => Flavour::Asan,
            Ok("miri") => Flavour::Miri,
            _ => Flavour::Rel,
        }
    }
    pub fn binary(self) -> String {
        match self {
            Flavour::Rel => format!("{}/harness/target/release/nlv", root()),
            Flavour::Dbg => format!("{}/harness/target/debug/nlv", root()),
            Flavour::Asan => format!("{}/harness/target-asan/x86_64-unknown-linux-gnu/release/nlv", root()),
            Flavour::Miri => String::new(),
        }
    }
}

#[derive(Clone, Copy, Debug)]
pub struct Ctx {
    pub seed: u64,
    pub tier: Tier,
    pub flavour: Flavour,
}

/// Run the sharded part of a check with another build flavour and merge what it found (prefixed).
pub fn run_sub_flavour(prop: &str, ctx: &Ctx, flavour: Flavour, merged: &mut Stats) {
    let bin = flavour.binary();
    if !std::path::Path::new(&bin).exists() {
        merged.inconclusive(format!("{} binary for the {} pass is missing ({})", flavour.name(), prop, bin));
        return;
    }
    let out = Command::new(&bin)
        .arg("run-sub")
        .arg(prop)
        .arg(ctx.tier.name())
        .arg(ctx.seed.to_string())
        .env("NLV_FLAVOUR", flavour.name())
        .env(
            "ASAN_OPTIONS",
            // leaks at worker exit are a finding only for the leak property; other checks leak by design (quarantine, session results)
            if prop == "C04" { "detect_leaks=1:halt_on_error=1:abort_on_error=1:allocator_may_return_null=1" } else { "detect_leaks=0:halt_on_error=1:abort_on_error=1:allocator_may_return_null=1" },
        )
        .stderr(Stdio::inherit())
        .output();
    let out = match out {
        Ok(o) => o,
        Err(e) => {
            merged.inconclusive(format!("could not run {}: {}", bin, e));
            return;
        }
    };
    let text = String::from_utf8_lossy(&out.stdout);
    let line = text.lines().rev().find(|l| l.starts_with("substats "));
    match line.and_then(|l| serde_json::from_str::<Value>(&l[9..]).ok()) {
        Some(v) => {
            let s = Stats::from_json(&v);
            let p = flavour.name();
            merged.evaluations += s.evaluations;
            merged.add(&format!("{}:evaluations", p), s.evaluations);
            for (k, x) in s.counters {
                merged.add(&format!("{}:{}", p, k), x);
            }
            for (k, x) in s.maxes {
                merged.max(&format!("{}:{}", p, k), x);
            }
            for h in s.distinct {
                merged.distinct.insert(h ^ (0x5bd1_e995u64.wrapping_mul(p.len() as u64 + flavour as u64 + 1)));
            }
            for x in s.inconclusive {
                merged.inconclusive(format!("[{}] {}", p, x));
            }
            for mut v in s.violations {
                v.sig = format!("{}:{}", p, v.sig);
                merged.violations.push(v);
            }
        }
        None => merged.inconclusive(format!("{} pass of {} produced no statistics (exit {:?})", flavour.name(), prop, out.status.code())),
    }
}

#[derive(Clone, Debug)]
pub struct Violation {
    pub sig: String,
    pub detail: String,
    pub input: String,
    pub idx: u64,
}

#[derive(Default, Debug)]
pub struct Stats {
    pub evaluations: u64,
    pub counters: BTreeMap<String, u64>,
    pub maxes: BTreeMap<String, u64>,
    pub sets: BTreeMap<String, BTreeSet<String>>,
    pub distinct: HashSet<u64>,
    pub samples: Vec<String>,
    pub inconclusive: Vec<String>,
    pub violations: Vec<Violation>,
    pub cur_idx: u64,
}

impl Stats {
    pub fn count(&mut self, key: &str) {
        self.add(key, 1);
    }
    pub fn add(&mut self, key: &str, n: u64) {
        *self.counters.entry(key.to_string()).or_insert(0) += n;
    }
    pub fn max(&mut self, key: &str, v: u64) {
        let e = self.maxes.entry(key.to_string()).or_insert(0);
        if v > *e {
            *e = v;
        }
    }
    pub fn set_insert(&mut self, key: &str, v: &str) {
        let s = self.sets.entry(key.to_string()).or_default();
        if s.len() < 5000 {
            s.insert(v.to_string());
        }
    }
    pub fn distinct_hash(&mut self, h: u64) {
        if self.distinct.len() < 3_000_000 {
            self.distinct.insert(h);
        }
    }
    pub fn sample(&mut self, s: &str) {
        if self.samples.len() < 6 {
            self.samples.push(crate::obs::clip(s, 600));
        }
    }
    pub fn inconclusive(&mut self, s: String) {
        self.add("inconclusive", 1);
        if self.inconclusive.len() < 20 {
            self.inconclusive.push(s);
        }
    }
    pub fn violation(&mut self, sig: &str, detail: String, input: &str) {
        self.add("violations_raw", 1);
        // keep at most two per signature, so that a flood of one kind cannot crowd out the others
        if self.violations.iter().filter(|v| v.sig == sig).count() >= 2 {
            return;
        }
        if self.violations.len() < 400 {
            self.violations.push(Violation {
                sig: sig.to_string(),
                detail,
                input: input.to_string(),
                idx: self.cur_idx,
            });
        }
    }

    pub fn merge(&mut self, o: Stats) {
        self.evaluations += o.evaluations;
        for (k, v) in o.counters {
            *self.counters.entry(k).or_insert(0) += v;
        }
        for (k, v) in o.maxes {
            self.max(&k, v);
        }
        for (k, v) in o.sets {
            let s = self.sets.entry(k).or_default();
            for x in v {
                s.insert(x);
            }
        }
        for h in o.distinct {
            self.distinct.insert(h);
        }
        for s in o.samples {
            if self.samples.len() < 12 {
                self.samples.push(s);
            }
        }
        for s in o.inconclusive {
            if self.inconclusive.len() < 40 {
                self.inconclusive.push(s);
            }
        }
        for v in o.violations {
            if self.violations.iter().filter(|x| x.sig == v.sig).count() >= 2 {
                continue;
            }
            if self.violations.len() < 2000 {
                self.violations.push(v);
            }
        }
    }

    fn to_json(&self, distinct_file: &str) -> Value {
        // distinct hashes go to a side file (can be millions)
        let mut buf = Vec::with_capacity(self.distinct.len() * 8);
        for h in &self.distinct {
            buf.extend_from_slice(&h.to_le_bytes());
        }
        let _ = std::fs::write(distinct_file, buf);
        json!({
            "evaluations": self.evaluations,
            "counters": self.counters,
            "maxes": self.maxes,
            "sets": self.sets,
            "distinct_file": distinct_file,
            "samples": self.samples,
            "inconclusive": self.inconclusive,
            "violations": self.violations.iter().map(|v| json!({"sig": v.sig, "detail": v.detail, "input": v.input, "idx": v.idx})).collect::<Vec<_>>(),
        })
    }

    fn from_json(v: &Value) -> Stats {
        let mut s = Stats::default();
        s.evaluations = v["evaluations"].as_u64().unwrap_or(0);
        if let Some(m) = v["counters"].as_object() {
            for (k, x) in m {
                s.counters.insert(k.clone(), x.as_u64().unwrap_or(0));
            }
        }
        if let Some(m) = v["maxes"].as_object() {
            for (k, x) in m {
                s.maxes.insert(k.clone(), x.as_u64().unwrap_or(0));
            }
        }
        if let Some(m) = v["sets"].as_object() {
            for (k, x) in m {
                let mut set = BTreeSet::new();
                if let Some(a) = x.as_array() {
                    for y in a {
                        if let Some(t) = y.as_str() {
                            set.insert(t.to_string());
                        }
                    }
                }
                s.sets.insert(k.clone(), set);
            }
        }
        if let Some(f) = v["distinct_file"].as_str() {
            if let Ok(b) = std::fs::read(f) {
                for c in b.chunks_exact(8) {
                    s.distinct.insert(u64::from_le_bytes(c.try_into().unwrap()));
                }
            }
            let _ = std::fs::remove_file(f);
        }
        if let Some(a) = v["samples"].as_array() {
            for x in a {
                s.samples.push(x.as_str().unwrap_or("").to_string());
            }
        }
        if let Some(a) = v["inconclusive"].as_array() {
            for x in a {
                s.inconclusive.push(x.as_str().unwrap_or("").to_string());
            }
        }
        if let Some(a) = v["violations"].as_array() {
            for x in a {
                s.violations.push(Violation {
                    sig: x["sig"].as_str().unwrap_or("").to_string(),
                    detail: x["detail"].as_str().unwrap_or("").to_string(),
                    input: x["input"].as_str().unwrap_or("").to_string(),
                    idx: x["idx"].as_u64().unwrap_or(0),
                });
            }
        }
        s
    }
}

/// What the per-property module tells the supervisor at the end
pub struct Summary {
    pub rule: String,
    pub exhaustive: Option<bool>,
    pub extra: Value,
    pub assumptions: Vec<String>,
    /// reasons that make this run inconclusive (a monitor observed nothing, …)
    pub inconclusive: Vec<String>,
}

pub trait Check {
    fn id(&self) -> &'static str;
    fn level(&self) -> &'static str {
        "exploration"
    }
    fn total_cases(&self, ctx: &Ctx) -> u64;
    fn chunk_size(&self, _ctx: &Ctx) -> u64 {
        500
    }
    /// generous wall-clock bound for one chunk (expiry is a suspected hang, examined case by case)
    fn chunk_timeout_s(&self, _ctx: &Ctx) -> u64 {
        300
    }
    /// wall-clock bound for a single case when examined alone
    fn case_timeout_s(&self, _ctx: &Ctx) -> u64 {
        30
    }
    fn run_case(&mut self, ctx: &Ctx, idx: u64, st: &mut Stats);
    /// human-readable input of case `idx` (for replay files of crashes)
    fn describe_case(&mut self, ctx: &Ctx, idx: u64) -> String;
    /// classify the death / hang of a worker on this case: Some(signature) = violation of this property
    fn death_signature(&self, _ctx: &Ctx, _idx: u64, how: &str) -> Option<String> {
        Some(format!("worker-death:{}", how))
    }
    fn summarize(&self, ctx: &Ctx, merged: &Stats) -> Summary;
    /// extra work done once in the supervisor after the sharded part (sanitizer passes etc.)
    fn post(&mut self, _ctx: &Ctx, _merged: &mut Stats) {}
}

/// Run cases [from, to) of a check under Miri, in `shards` parallel interpreter processes.
/// A report of undefined behaviour (or a leak) ends the interpreter with an error: that is the finding.
pub fn run_miri(prop: &str, ctx: &Ctx, from: u64, to: u64, shards: u64, merged: &mut Stats) {
    // shard s interprets the cases from + s, from + s + shards, …: families of very different cost are spread evenly
    let shards = shards.max(1).min((to - from).max(1));
    let mut children = vec![];
    for s in 0..shards {
        let (a, b) = (from, to);
        let child = Command::new("cargo")
            .current_dir(format!("{}/harness", root()))
            .args(["+nightly", "miri", "run", "--offline", "-q", "--"])
            .args(["inproc", prop, ctx.tier.name(), &ctx.seed.to_string(), &a.to_string(), &b.to_string(), &shards.to_string(), &s.to_string()])
            .env("NLV_FLAVOUR", "miri")
            // the reference interpreter of the harness leaks reference-counted cycles (cyclic arrays); only C04, which
            // does not use it, lets Miri's leak checker speak
            .env("MIRIFLAGS", if prop == "C04" { "-Zmiri-disable-isolation" } else { "-Zmiri-disable-isolation -Zmiri-ignore-leaks" })
            .env("CARGO_NET_OFFLINE", "true")
            .stdin(Stdio::null())
            .stdout(Stdio::piped())
            .stderr(Stdio::piped())
            .spawn();
        match child {
            Ok(c) => children.push((a, format!("{} step {} offset {}", b, shards, s), c)),
            Err(e) => merged.inconclusive(format!("could not start Miri: {}", e)),
        }
    }
    for (a, b, c) in children {
        match c.wait_with_output() {
            Ok(o) => {
                let out = String::from_utf8_lossy(&o.stdout).to_string();
                let err = String::from_utf8_lossy(&o.stderr).to_string();
                if let Some(l) = out.lines().find(|l| l.starts_with("inproc ")) {
                    merged.count("miri:shards-completed");
                    let ev: u64 = l.split("evaluations=").nth(1).and_then(|x| x.split_whitespace().next()).and_then(|x| x.parse().ok()).unwrap_or(0);
                    merged.add("miri:evaluations", ev);
                    merged.evaluations += ev;
                }
                for l in out.lines().filter(|l| l.starts_with("INPROC-VIOLATION ")) {
                    merged.violation(&format!("miri:{}", l.split(" :: ").next().unwrap_or("").trim_start_matches("INPROC-VIOLATION ")), l.to_string(), &format!("cases {}..{} of {} interpreted by Miri", a, b, prop));
                }
                if !o.status.success() {
                    let class = if err.contains("Undefined Behavior") {
                        "undefined-behaviour"
                    } else if err.contains("memory leaked") || err.contains("leaked") {
                        "leak"
                    } else if err.contains("unsupported operation") {
                        "unsupported"
                    } else {
                        "error"
                    };
                    let tail: String = {
                        let lines: Vec<&str> = err.lines().filter(|l| !l.trim().is_empty()).collect();
                        let k = lines.iter().position(|l| l.contains("error")).unwrap_or(lines.len().saturating_sub(25));
                        lines[k..(k + 30).min(lines.len())].join("\n")
                    };
                    if class == "unsupported" || class == "error" {
                        merged.inconclusive(format!("Miri could not interpret cases {}..{} of {}: {}", a, b, prop, crate::obs::clip(&tail, 600)));
                    } else {
                        merged.violation(&format!("miri:{}", class), crate::obs::clip(&tail, 2500), &format!("cases {}..{} of {} interpreted by Miri", a, b, prop));
                    }
                }
            }
            Err(e) => merged.inconclusive(format!("Miri shard failed to run: {}", e)),
        }
    }
}

/// The interpreter-sized workload of a check (the family sizes of the Miri flavour), run in this very build under
/// valgrind memcheck, in `shards` parallel processes: out-of-bounds and uninitialised accesses and releases through
/// the wrong layout in native code, about 25 times slower than native — cheap enough for the quick tier, where
/// Miri and the AddressSanitizer build are not.
pub fn run_valgrind_inproc(prop: &str, ctx: &Ctx, total: u64, shards: u64, merged: &mut Stats) {
    let bin = Flavour::Rel.binary();
    let shards = shards.max(1).min(total.max(1));
    let mut children = vec![];
    for s in 0..shards {
        let child = Command::new("timeout")
            .args(["900", "valgrind", "-q", "--error-exitcode=99", "--leak-check=no", bin.as_str()])
            .args(["inproc", prop, ctx.tier.name(), &ctx.seed.to_string(), "0", &total.to_string(), &shards.to_string(), &s.to_string()])
            .env("NLV_FLAVOUR", "miri")
            .stdin(Stdio::null())
            .stdout(Stdio::piped())
            .stderr(Stdio::piped())
            .spawn();
        match child {
            Ok(c) => children.push((s, c)),
            Err(e) => {
                merged.inconclusive(format!("valgrind could not be started: {}", e));
                return;
            }
        }
    }
    for (s, c) in children {
        let o = match c.wait_with_output() {
            Ok(o) => o,
            Err(e) => {
                merged.inconclusive(format!("valgrind shard failed to run: {}", e));
                continue;
            }
        };
        let out = String::from_utf8_lossy(&o.stdout).to_string();
        let err = String::from_utf8_lossy(&o.stderr).to_string();
        let what = format!("cases {} + k * {} of {} (interpreter-sized workload) under valgrind memcheck", s, shards, prop);
        if let Some(l) = out.lines().find(|l| l.starts_with("inproc ")) {
            merged.count("valgrind-inproc:shards-completed");
            let ev: u64 = l.split("evaluations=").nth(1).and_then(|x| x.split_whitespace().next()).and_then(|x| x.parse().ok()).unwrap_or(0);
            merged.add("valgrind-inproc:evaluations", ev);
            merged.evaluations += ev;
        }
        for l in out.lines().filter(|l| l.starts_with("INPROC-VIOLATION ")) {
            merged.violation(&format!("valgrind-inproc:{}", l.split(" :: ").next().unwrap_or("").trim_start_matches("INPROC-VIOLATION ")), l.to_string(), &what);
        }
        match o.status.code() {
            Some(0) => {}
            Some(99) => {
                let class = if err.contains("Invalid read") {
                    "invalid-read"
                } else if err.contains("Invalid write") {
                    "invalid-write"
                } else if err.contains("Invalid free") || err.contains("Mismatched free") {
                    "invalid-free"
                } else if err.contains("uninitialised") {
                    "uninitialised"
                } else {
                    "error"
                };
                let k = err.find("==").unwrap_or(0);
                merged.violation(&format!("valgrind-inproc:{}", class), crate::obs::clip(&err[k..], 2500), &what);
            }
            Some(124) => merged.count("case-inconclusive:valgrind-inproc-timeout"),
            other => merged.inconclusive(format!("valgrind run of {} ended with {:?}: {}", prop, other, crate::obs::clip(&err, 400))),
        }
    }
}

/// The in-process thread context of a check under ThreadSanitizer (binary built by ./check with -Zbuild-std)
pub fn run_tsan(prop: &str, ctx: &Ctx, merged: &mut Stats) {
    let bin_s = format!("{}/harness/target-tsan/x86_64-unknown-linux-gnu/release/nlv", root());
    let bin = bin_s.as_str();
    if !std::path::Path::new(bin).exists() {
        merged.count("tsan:binary-missing");
        return;
    }
    // the Miri-sized family layout keeps the batch small; TSan is ~10x
    let out = Command::new(bin)
        .args(["inproc", prop, ctx.tier.name(), &ctx.seed.to_string(), "0", "3"])
        .env("NLV_FLAVOUR", "miri")
        .env("TSAN_OPTIONS", "halt_on_error=1:exitcode=66")
        .env("NLV_THREADS", "16")
        .stdin(Stdio::null())
        .output();
    match out {
        Ok(o) => {
            let err = String::from_utf8_lossy(&o.stderr).to_string();
            let text = String::from_utf8_lossy(&o.stdout).to_string();
            merged.count("tsan:runs");
            if let Some(l) = text.lines().find(|l| l.starts_with("inproc ")) {
                let ev: u64 = l.split("evaluations=").nth(1).and_then(|x| x.split_whitespace().next()).and_then(|x| x.parse().ok()).unwrap_or(0);
                merged.add("tsan:evaluations", ev);
                merged.evaluations += ev;
            }
            for l in text.lines().filter(|l| l.starts_with("INPROC-VIOLATION ")) {
                merged.violation("tsan:outcome-differs", l.to_string(), "thread context under ThreadSanitizer");
            }
            if o.status.code() == Some(66) || err.contains("ThreadSanitizer: data race") {
                let k = err.find("WARNING: ThreadSanitizer").unwrap_or(0);
                merged.violation("tsan:data-race", crate::obs::clip(&err[k..], 2500), "thread context under ThreadSanitizer");
            } else if !o.status.success() {
                merged.inconclusive(format!("ThreadSanitizer run of {} ended with {:?}: {}", prop, o.status.code(), crate::obs::clip(&err, 400)));
            }
        }
        Err(e) => merged.inconclusive(format!("could not run the ThreadSanitizer binary: {}", e)),
    }
}

pub fn print_substats(stats: &Stats, prop: &str) {
    let f = format!("{}/distinct-sub-{}-{}.bin", scratch_dir(), std::process::id(), prop);
    println!("substats {}", stats.to_json(&f));
}

/// where the framework lives: /verif, or the snapshot a background run was started from
pub fn root() -> String {
    std::env::var("NLV_ROOT").unwrap_or_else(|_| "/verif".to_string())
}

pub fn scratch_dir() -> String {
    let d = format!("{}/harness/target/scratch", root());
    let _ = std::fs::create_dir_all(&d);
    d
}

// ------------------------------------------------------------------------------------------------
// worker side

extern "C" {
    fn prctl(option: i32, arg2: u64, arg3: u64, arg4: u64, arg5: u64) -> i32;
    fn setrlimit(resource: i32, rlim: *const [u64; 2]) -> i32;
}

pub fn worker_main(check: &mut dyn Check, ctx: &Ctx, trace: bool) {
    // die with the supervisor (PR_SET_PDEATHSIG, SIGKILL): a worker stuck in a non-terminating case
    // must not outlive a supervisor that was killed
    unsafe {
        prctl(1, 9, 0, 0, 0);
    }
    // a generated program may spell out exponential growth (`s = s + s` in a loop): let the allocation fail inside
    // this worker (abort: "memory allocation of … failed") long before the machine runs out of memory. Not under the
    // sanitizer builds, which reserve terabytes of address space for their shadow memory.
    if matches!(ctx.flavour, Flavour::Rel | Flavour::Dbg) {
        let lim: [u64; 2] = [3 << 30, 3 << 30];
        unsafe {
            setrlimit(9 /* RLIMIT_AS */, &lim);
        }
    }
    crate::obs::install_panic_hook();
    let stdin = std::io::stdin();
    let stdout = std::io::stdout();
    let mut st = Stats::default();
    let mut line = String::new();
    loop {
        line.clear();
        if stdin.lock().read_line(&mut line).unwrap_or(0) == 0 {
            break;
        }
        let parts: Vec<&str> = line.split_whitespace().collect();
        match parts.as_slice() {
            ["chunk", a, b] => {
                let a: u64 = a.parse().unwrap();
                let b: u64 = b.parse().unwrap();
                for idx in a..b {
                    if trace {
                        let mut o = stdout.lock();
                        let _ = writeln!(o, "S {}", idx);
                        let _ = o.flush();
                    }
                    st.cur_idx = idx;
                    check.run_case(ctx, idx, &mut st);
                }
                let mut o = stdout.lock();
                let _ = writeln!(o, "ok {}", a);
                let _ = o.flush();
            }
            ["finish"] => {
                let f = format!(
                    "{}/distinct-{}-{}.bin",
                    scratch_dir(),
                    std::process::id(),
                    check.id()
                );
                let j = st.to_json(&f);
                let mut o = stdout.lock();
                let _ = writeln!(o, "stats {}", j);
                let _ = o.flush();
                break;
            }
            _ => {}
        }
    }
}

// ------------------------------------------------------------------------------------------------
// supervisor side

struct Worker {
    child: Child,
    rx: Receiver<String>,
    stderr_path: String,
}

fn spawn_worker(prop: &str, ctx: &Ctx, trace: bool, n: usize) -> Worker {
    let exe = std::env::current_exe().expect("current_exe");
    let stderr_path = format!(
        "{}/stderr-{}-{}-{}.txt",
        scratch_dir(),
        std::process::id(),
        prop,
        n
    );
    let errf = std::fs::File::create(&stderr_path).expect("stderr file");
    let mut cmd = Command::new(exe);
    cmd.env("NLV_FLAVOUR", ctx.flavour.name());
    cmd.arg("worker")
        .arg(prop)
        .arg(ctx.tier.name())
        .arg(ctx.seed.to_string());
    if trace {
        cmd.arg("--trace");
    }
    let mut child = cmd
        .stdin(Stdio::piped())
        .stdout(Stdio::piped())
        .stderr(Stdio::from(errf))
        .spawn()
        .expect("spawn worker");
    let out = child.stdout.take().unwrap();
    let (tx, rx) = channel();
    std::thread::spawn(move || {
        let r = BufReader::new(out);
        for l in r.lines() {
            match l {
                Ok(l) => {
                    if tx.send(l).is_err() {
                        break;
                    }
                }
                Err(_) => break,
            }
        }
    });
    Worker {
        child,
        rx,
        stderr_path,
    }
}

/// user + system CPU time consumed so far by a process (all its threads), in seconds
fn cpu_seconds(pid: u32) -> Option<f64> {
    let s = std::fs::read_to_string(format!("/proc/{}/stat", pid)).ok()?;
    // the command name may contain spaces and parentheses: fields are counted after the last ')'
    let rest = &s[s.rfind(')')? + 1..];
    let f: Vec<&str> = rest.split_whitespace().collect();
    // rest starts at field 3 (state); utime and stime are fields 14 and 15
    let ut: f64 = f.get(11)?.parse().ok()?;
    let stime: f64 = f.get(12)?.parse().ok()?;
    Some((ut + stime) / 100.0)
}

enum Wait {
    Line(String),
    /// no answer within the limit AND the worker burned at least that much CPU time meanwhile: it is spinning
    Spin,
    /// no answer for 20 times the limit, without consuming CPU: the machine is overloaded or the worker is blocked
    Stalled,
    Closed,
}

impl Worker {
    /// Waits for the next line of the worker. A deadline is only a verdict ("hang") when the worker also consumed that
    /// much CPU time: on a loaded machine wall-clock time alone says nothing about the program under test.
    fn wait_line(&self, limit: Duration) -> Wait {
        let pid = self.child.id();
        let t0 = Instant::now();
        let c0 = cpu_seconds(pid);
        loop {
            match self.rx.recv_timeout(Duration::from_millis(200)) {
                Ok(l) => return Wait::Line(l),
                Err(RecvTimeoutError::Disconnected) => return Wait::Closed,
                Err(RecvTimeoutError::Timeout) => {
                    let wall = t0.elapsed();
                    if wall >= limit {
                        let cpu = match (c0, cpu_seconds(pid)) {
                            (Some(a), Some(b)) => b - a,
                            _ => wall.as_secs_f64(),
                        };
                        if cpu >= 0.8 * limit.as_secs_f64() {
                            return Wait::Spin;
                        }
                        if wall >= limit * 20 {
                            return Wait::Stalled;
                        }
                    }
                }
            }
        }
    }
    fn send(&mut self, s: &str) -> bool {
        match self.child.stdin.as_mut() {
            Some(i) => writeln!(i, "{}", s).is_ok() && i.flush().is_ok(),
            None => false,
        }
    }
    /// how the worker ended: "signal:11", "exit:101", …; plus a tail of its stderr
    fn reap(&mut self, kill: bool) -> (String, String) {
        if kill {
            let _ = self.child.kill();
        }
        let status = self.child.wait();
        let how = match status {
            Ok(s) => {
                use std::os::unix::process::ExitStatusExt;
                if let Some(sig) = s.signal() {
                    format!("signal:{}", sig)
                } else {
                    format!("exit:{}", s.code().unwrap_or(-1))
                }
            }
            Err(_) => "unknown".to_string(),
        };
        let tail = std::fs::read_to_string(&self.stderr_path).unwrap_or_default();
        // what the worker wrote last; when a backtrace follows the message (RUST_BACKTRACE), the lines that say what
        // happened come first: keep those too
        let tail: String = {
            let lines: Vec<&str> = tail.lines().collect();
            let from = lines.len().saturating_sub(12);
            let mut keep: Vec<&str> = lines.iter().copied().filter(|l| l.contains("memory allocation of") || l.contains("capacity overflow") || l.contains("has overflowed its stack") || l.contains("panicked at") || l.contains("AddressSanitizer") || l.contains("double free") || l.contains("corrupted")).take(6).collect();
            keep.extend(lines[from..].iter().copied());
            keep.join("\n")
        };
        let _ = std::fs::remove_file(&self.stderr_path);
        (how, tail)
    }
    fn finish(mut self) -> Option<Stats> {
        if !self.send("finish") {
            self.reap(true);
            return None;
        }
        let r = loop {
            match self.rx.recv_timeout(Duration::from_secs(120)) {
                Ok(l) => {
                    if let Some(j) = l.strip_prefix("stats ") {
                        break serde_json::from_str::<Value>(j).ok().map(|v| Stats::from_json(&v));
                    }
                }
                Err(_) => break None,
            }
        };
        let (how, tail) = self.reap(r.is_none());
        match r {
            Some(mut s) => {
                if how != "exit:0" && tail.contains("LeakSanitizer") {
                    s.cur_idx = 0;
                    s.violation("lsan:leak-at-worker-exit", crate::obs::clip(&tail, 1500), "(objects still allocated when a worker of this check exited)");
                }
                Some(s)
            }
            None => None,
        }
    }
}

fn classify_death(how: &str, stderr_tail: &str) -> String {
    let t = stderr_tail;
    if t.contains("has overflowed its stack") || t.contains("stack overflow") {
        "abort:stack-overflow".to_string()
    } else if t.contains("memory allocation of") || t.contains("capacity overflow") {
        "abort:alloc".to_string()
    } else if t.contains("double free") || t.contains("corrupted") || t.contains("malloc") || t.contains("free():") || t.contains("munmap_chunk") {
        "abort:heap-corruption".to_string()
    } else if t.contains("AddressSanitizer") {
        "asan".to_string()
    } else if t.contains("panic in a destructor") || t.contains("panicked") {
        "abort:panic".to_string()
    } else {
        how.to_string()
    }
}

pub struct RunResult {
    pub stats: Stats,
    pub wall_s: f64,
}

/// Examine a chunk case by case in trace workers after a death / hang. Returns stats of the re-run.
fn examine_chunk(
    check: &mut dyn Check,
    ctx: &Ctx,
    a: u64,
    b: u64,
    merged: &Mutex<Stats>,
    wid: usize,
) {
    let prop = check.id();
    let mut from = a;
    let case_timeout = Duration::from_secs(check.case_timeout_s(ctx));
    while from < b {
        let mut w = spawn_worker(prop, ctx, true, 1000 + wid);
        w.send(&format!("chunk {} {}", from, b));
        let mut last: Option<u64> = None;
        let mut done = false;
        let mut hang = false;
        let mut stalled = false;
        loop {
            match w.wait_line(case_timeout) {
                Wait::Line(l) => {
                    if let Some(i) = l.strip_prefix("S ") {
                        last = i.trim().parse().ok();
                    } else if l.starts_with("ok ") {
                        done = true;
                        break;
                    }
                }
                Wait::Spin => {
                    hang = true;
                    break;
                }
                Wait::Stalled => {
                    stalled = true;
                    break;
                }
                Wait::Closed => break,
            }
        }
        if done {
            if let Some(s) = w.finish() {
                merged.lock().unwrap().merge(s);
            }
            return;
        }
        let (how, tail) = w.reap(true);
        if stalled {
            merged.lock().unwrap().inconclusive(format!(
                "worker for chunk {}..{} of {} gave no answer for {} s without using the CPU (case {:?}): overloaded machine or blocked worker",
                from, b, prop, case_timeout.as_secs() * 20, last
            ));
            return;
        }
        let idx = match last {
            Some(i) => i,
            None => {
                merged.lock().unwrap().inconclusive(format!(
                    "worker for chunk {}..{} of {} ended ({}) before starting a case",
                    from, b, prop, how
                ));
                return;
            }
        };
        // confirm alone
        let mut w2 = spawn_worker(prop, ctx, true, 2000 + wid);
        w2.send(&format!("chunk {} {}", idx, idx + 1));
        let mut ok2 = false;
        let mut hang2 = false;
        loop {
            match w2.wait_line(case_timeout) {
                Wait::Line(l) => {
                    if l.starts_with("ok ") {
                        ok2 = true;
                        break;
                    }
                }
                Wait::Spin => {
                    hang2 = true;
                    break;
                }
                Wait::Stalled => {
                    let _ = w2.reap(true);
                    merged.lock().unwrap().inconclusive(format!("case {} of {}: no answer and no CPU use when run alone: overloaded machine or blocked worker", idx, prop));
                    return;
                }
                Wait::Closed => break,
            }
        }
        let input = check.describe_case(ctx, idx);
        if ok2 {
            if let Some(s) = w2.finish() {
                // its stats for this one case are real
                merged.lock().unwrap().merge(s);
            }
            let what = if hang { "hang".to_string() } else { classify_death(&how, &tail) };
            if hang || how == "signal:9" {
                merged.lock().unwrap().inconclusive(format!(
                    "case {} of {}: {} in a batch, not reproduced alone (input: {})",
                    idx,
                    prop,
                    what,
                    crate::obs::clip(&input, 200)
                ));
            } else if let Some(sig) = check.death_signature(ctx, idx, &format!("{}:batch-only", what)) {
                let mut m = merged.lock().unwrap();
                m.cur_idx = idx;
                m.violation(&sig, format!("worker died ({}) while running this case in a batch; alone it completes. stderr: {}", how, tail), &input);
            } else {
                let mut m = merged.lock().unwrap();
                m.count(&format!("cases-not-judged:{}", what));
                m.sample(&format!("[not judged: {} in a batch] {}", what, crate::obs::clip(&input, 300)));
            }
        } else {
            let (how2, tail2) = w2.reap(true);
            let what = if hang2 { "hang".to_string() } else { classify_death(&how2, &tail2) };
            if how2 == "signal:9" && !hang2 {
                merged.lock().unwrap().inconclusive(format!("case {} of {}: worker killed (SIGKILL, memory limit?)", idx, prop));
            } else if let Some(sig) = check.death_signature(ctx, idx, &what) {
                let mut m = merged.lock().unwrap();
                m.cur_idx = idx;
                m.violation(&sig, format!("worker {} ({}). stderr: {}", if hang2 { "did not answer" } else { "died" }, how2, tail2), &input);
            } else {
                let mut m = merged.lock().unwrap();
                m.count(&format!("cases-not-judged:{}", what));
                m.sample(&format!("[not judged: {}] {}", what, crate::obs::clip(&input, 300)));
            }
        }
        from = idx + 1;
    }
}

pub fn run_sharded(check_factory: &(dyn Fn() -> Box<dyn Check> + Sync), ctx: &Ctx, jobs: usize, range: Option<(u64, u64)>) -> RunResult {
    let t0 = Instant::now();
    let probe = check_factory();
    let prop = probe.id();
    let (first, total) = match range {
        Some((a, b)) => (a, b),
        None => (0, probe.total_cases(ctx)),
    };
    let chunk = probe.chunk_size(ctx).max(1);
    let chunk_timeout = Duration::from_secs(probe.chunk_timeout_s(ctx));
    drop(probe);
    let n_chunks = (total - first + chunk - 1) / chunk;
    let next = Arc::new(AtomicU64::new(0));
    let merged = Arc::new(Mutex::new(Stats::default()));
    let n_workers = jobs.min(n_chunks.max(1) as usize).max(1);

    std::thread::scope(|scope| {
        for wid in 0..n_workers {
            let next = next.clone();
            let merged = merged.clone();
            scope.spawn(move || {
                let mut check = check_factory();
                let mut w = spawn_worker(prop, ctx, false, wid);
                loop {
                    let c = next.fetch_add(1, Ordering::SeqCst);
                    if c >= n_chunks {
                        break;
                    }
                    let a = first + c * chunk;
                    let b = (first + (c + 1) * chunk).min(total);
                    let mut healthy = w.send(&format!("chunk {} {}", a, b));
                    if healthy {
                        healthy = loop {
                            match w.wait_line(chunk_timeout) {
                                Wait::Line(l) => {
                                    if l.starts_with("ok ") {
                                        break true;
                                    }
                                }
                                _ => break false,
                            }
                        };
                    }
                    if !healthy {
                        // death or suspected hang: stats of this worker are lost; examine the chunk
                        let _ = w.reap(true);
                        merged.lock().unwrap().add("workers_lost", 1);
                        examine_chunk(check.as_mut(), ctx, a, b, &merged, wid);
                        w = spawn_worker(prop, ctx, false, wid);
                    }
                }
                if let Some(s) = w.finish() {
                    merged.lock().unwrap().merge(s);
                } else {
                    merged.lock().unwrap().inconclusive(format!("worker {} did not deliver its statistics", wid));
                }
            });
        }
    });
    let stats = std::mem::take(&mut *merged.lock().unwrap());
    RunResult {
        stats,
        wall_s: t0.elapsed().as_secs_f64(),
    }
}

// ------------------------------------------------------------------------------------------------
// known findings, evidence, verdict

pub struct Known {
    pub property: String,
    pub status: String,
    pub signature: String,
    pub what: String,
}

pub fn load_known() -> Vec<Known> {
    let mut out = vec![];
    if let Ok(s) = std::fs::read_to_string(format!("{}/known_findings.json", root())) {
        if let Ok(v) = serde_json::from_str::<Value>(&s) {
            if let Some(a) = v["findings"].as_array() {
                for f in a {
                    out.push(Known {
                        property: f["property"].as_str().unwrap_or("").to_string(),
                        status: f["status"].as_str().unwrap_or("").to_string(),
                        signature: f["signature"].as_str().unwrap_or("").to_string(),
                        what: f["what"].as_str().unwrap_or("").to_string(),
                    });
                }
            }
        }
    }
    out
}

/// Writes evidence, prints KNOWN-FINDING / VIOLATION lines, returns the exit code.
pub fn conclude(check: &dyn Check, ctx: &Ctx, mut stats: Stats, wall_s: f64) -> i32 {
    let id = check.id();
    let summary = check.summarize(ctx, &stats);
    let known = load_known();

    // de-duplicate violations by signature, keep the smallest input
    let mut by_sig: BTreeMap<String, Violation> = BTreeMap::new();
    for v in stats.violations.drain(..) {
        match by_sig.get(&v.sig) {
            Some(old) if old.input.len() <= v.input.len() => {}
            _ => {
                by_sig.insert(v.sig.clone(), v);
            }
        }
    }
    let mut new_violations = vec![];
    let mut known_hits = vec![];
    for (sig, v) in by_sig {
        if let Some(k) = known
            .iter()
            .find(|k| k.property == id && k.status == "known" && k.signature == sig)
        {
            known_hits.push((k.what.clone(), sig));
        } else {
            new_violations.push(v);
        }
    }

    let _ = std::fs::create_dir_all(format!("{}/replays", root()));
    let _ = std::fs::create_dir_all(format!("{}/evidence", root()));
    let mut viol_json = vec![];
    let mut lines = vec![];
    for v in &new_violations {
        let h = crate::rng::hash_str(&format!("{}|{}", v.sig, v.input));
        let path = format!("{}/replays/{}-{:016x}.json", root(), id, h);
        let r = json!({
            "property": id, "tier": ctx.tier.name(), "seed": ctx.seed, "idx": v.idx,
            "signature": v.sig, "detail": v.detail, "input": v.input,
        });
        let _ = std::fs::write(&path, serde_json::to_string_pretty(&r).unwrap());
        lines.push(format!("VIOLATION property={} replay={}", id, path));
        viol_json.push(json!({"signature": v.sig, "detail": crate::obs::clip(&v.detail, 400), "input": crate::obs::clip(&v.input, 400), "replay": path}));
    }

    let mut inconclusive = summary.inconclusive.clone();
    for s in &stats.inconclusive {
        inconclusive.push(s.clone());
    }

    let mut coverage = serde_json::Map::new();
    coverage.insert("evaluations".into(), json!(stats.evaluations));
    coverage.insert("distinct_nontrivial".into(), json!(stats.distinct.len()));
    coverage.insert("rule".into(), json!(summary.rule));
    coverage.insert("samples".into(), json!(stats.samples));
    if let Some(e) = summary.exhaustive {
        coverage.insert("exhaustive".into(), json!(e));
    }
    coverage.insert("counters".into(), json!(stats.counters));
    coverage.insert("maxes".into(), json!(stats.maxes));
    let set_sizes: BTreeMap<String, usize> = stats.sets.iter().map(|(k, v)| (k.clone(), v.len())).collect();
    coverage.insert("coverage_set_sizes".into(), json!(set_sizes));
    let small_sets: BTreeMap<String, Vec<String>> = stats
        .sets
        .iter()
        .filter(|(_, v)| v.len() <= 80)
        .map(|(k, v)| (k.clone(), v.iter().cloned().collect()))
        .collect();
    coverage.insert("coverage_sets".into(), json!(small_sets));
    coverage.insert("inconclusive".into(), json!(inconclusive));
    coverage.insert("known_findings_observed".into(), json!(known_hits.iter().map(|k| k.1.clone()).collect::<Vec<_>>()));
    coverage.insert("violations_found".into(), json!(viol_json));
    if let Some(m) = summary.extra.as_object() {
        for (k, v) in m {
            coverage.insert(k.clone(), v.clone());
        }
    }
    let ev = json!({
        "property_id": id,
        "tier": ctx.tier.name(),
        "seed": ctx.seed,
        "level": check.level(),
        "coverage": Value::Object(coverage),
        "assumptions": summary.assumptions,
        "wall_s": (wall_s * 100.0).round() / 100.0,
        "violations": new_violations.len(),
    });
    let _ = std::fs::write(
        format!("{}/evidence/{}.json", root(), id),
        serde_json::to_string_pretty(&ev).unwrap() + "\n",
    );

    for (what, _sig) in &known_hits {
        println!("KNOWN-FINDING: property={} {}", id, what);
    }
    for l in &lines {
        println!("{}", l);
    }
    println!(
        "{} {} seed={} evaluations={} distinct_nontrivial={} violations={} known={} inconclusive={} wall={:.1}s",
        id,
        ctx.tier.name(),
        ctx.seed,
        stats.evaluations,
        stats.distinct.len(),
        new_violations.len(),
        known_hits.len(),
        inconclusive.len(),
        wall_s
    );
    if !new_violations.is_empty() {
        for v in new_violations.iter().take(8) {
            eprintln!("--- {} :: {}\n    input: {}\n    {}", id, v.sig, crate::obs::clip(&v.input, 300), crate::obs::clip(&v.detail, 500));
        }
        return 1;
    }
    if !inconclusive.is_empty() {
        for s in inconclusive.iter().take(10) {
            eprintln!("INCONCLUSIVE {}: {}", id, s);
        }
        return 2;
    }
    0
}
