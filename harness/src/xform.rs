//! Program transformations on the mirror tree used by the metamorphic checks (C09, C10).

use crate::ast::*;
use crate::refsem::BUILTINS;
use crate::rng::Rng;

// ------------------------------------------------------------------------------------------------
// generic traversal helpers

pub fn idents_in_block(b: &[Stmt], out: &mut Vec<String>) {
    for s in b {
        match s {
            Stmt::Let(n, e) => {
                out.push(n.clone());
                idents_in_expr(e, out);
            }
            Stmt::Return(e) | Stmt::Expr(e) => idents_in_expr(e, out),
            Stmt::Block(b) => idents_in_block(b, out),
            _ => {}
        }
    }
}

pub fn idents_in_expr(e: &Expr, out: &mut Vec<String>) {
    match e {
        Expr::Ident(n) => out.push(n.clone()),
        Expr::Infix { left, right, .. } | Expr::Assign { left, right } => {
            idents_in_expr(left, out);
            idents_in_expr(right, out);
        }
        Expr::Index { left, index } => {
            idents_in_expr(left, out);
            idents_in_expr(index, out);
        }
        Expr::Prefix { right, .. } => idents_in_expr(right, out),
        Expr::If { cond, cons, alt } => {
            idents_in_expr(cond, out);
            idents_in_block(cons, out);
            if let Some(a) = alt {
                idents_in_block(a, out);
            }
        }
        Expr::While { cond, body } => {
            idents_in_expr(cond, out);
            idents_in_block(body, out);
        }
        Expr::Function { name, params, body } => {
            if !name.is_empty() {
                out.push(name.clone());
            }
            out.extend(params.iter().cloned());
            idents_in_block(body, out);
        }
        Expr::Call { left, args } => {
            idents_in_expr(left, out);
            for a in args {
                idents_in_expr(a, out);
            }
        }
        Expr::Array(xs) => {
            for a in xs {
                idents_in_expr(a, out);
            }
        }
        _ => {}
    }
}

// ------------------------------------------------------------------------------------------------
// resolver-driven rewriting: rename one declaration and the uses bound to it; replace one use

/// Returns for every use (in walk order) the declaration index it binds to (None = unbound / builtin call).
pub fn resolve_uses(prog: &[Stmt]) -> (Vec<Option<usize>>, Vec<String>) {
    struct R {
        ctxs: Vec<Vec<Vec<(String, usize)>>>,
        decl_names: Vec<String>,
        uses: Vec<Option<usize>>,
    }
    impl R {
        fn lookup(&self, name: &str) -> Option<usize> {
            let n = self.ctxs.len();
            for s in self.ctxs[n - 1].iter().rev() {
                if let Some((_, d)) = s.iter().rev().find(|(x, _)| x == name) {
                    return Some(*d);
                }
            }
            if n > 1 {
                for s in self.ctxs[0].iter().rev() {
                    if let Some((_, d)) = s.iter().rev().find(|(x, _)| x == name) {
                        return Some(*d);
                    }
                }
            }
            None
        }
        fn declare(&mut self, name: &str) {
            let d = self.decl_names.len();
            self.decl_names.push(name.to_string());
            self.ctxs.last_mut().unwrap().last_mut().unwrap().push((name.to_string(), d));
        }
        fn block(&mut self, b: &[Stmt]) {
            self.ctxs.last_mut().unwrap().push(vec![]);
            for s in b {
                self.stmt(s);
            }
            self.ctxs.last_mut().unwrap().pop();
        }
        fn stmt(&mut self, s: &Stmt) {
            match s {
                Stmt::Let(n, e) => {
                    self.declare(n);
                    self.expr(e);
                }
                Stmt::Return(e) | Stmt::Expr(e) => self.expr(e),
                Stmt::Block(b) => self.block(b),
                _ => {}
            }
        }
        fn expr(&mut self, e: &Expr) {
            match e {
                Expr::Ident(n) => {
                    let d = self.lookup(n);
                    self.uses.push(d);
                }
                Expr::Infix { left, right, .. } => {
                    self.expr(left);
                    self.expr(right);
                }
                Expr::Assign { left, right } => {
                    self.expr(left);
                    self.expr(right);
                }
                Expr::Index { left, index } => {
                    self.expr(left);
                    self.expr(index);
                }
                Expr::Prefix { right, .. } => self.expr(right),
                Expr::If { cond, cons, alt } => {
                    self.expr(cond);
                    self.block(cons);
                    if let Some(a) = alt {
                        self.block(a);
                    }
                }
                Expr::While { cond, body } => {
                    self.expr(cond);
                    self.block(body);
                }
                Expr::Function { name, params, body } => {
                    if !name.is_empty() {
                        self.declare(name);
                    }
                    self.ctxs.push(vec![vec![]]);
                    for p in params {
                        self.declare(p);
                    }
                    self.block(body);
                    self.ctxs.pop();
                }
                Expr::Call { left, args } => {
                    for a in args {
                        self.expr(a);
                    }
                    match &**left {
                        Expr::Ident(n) if BUILTINS.contains(&n.as_str()) => {}
                        other => self.expr(other),
                    }
                }
                Expr::Array(xs) => {
                    for a in xs {
                        self.expr(a);
                    }
                }
                _ => {}
            }
        }
    }
    let mut r = R { ctxs: vec![vec![vec![]]], decl_names: vec![], uses: vec![] };
    for s in prog {
        r.stmt(s);
    }
    (r.uses, r.decl_names)
}

/// Apply a rewrite that is expressed on walk-order indices (same walk order as `resolve_uses`).
pub fn rewrite(prog: &[Stmt], rename_decl: Option<(usize, &str)>, uses_to_rename: &[usize], replace_use: Option<(usize, &str)>) -> Vec<Stmt> {
    struct W<'a> {
        decl: usize,
        use_idx: usize,
        rename_decl: Option<(usize, &'a str)>,
        uses_to_rename: &'a [usize],
        replace_use: Option<(usize, &'a str)>,
    }
    impl<'a> W<'a> {
        fn declare(&mut self, name: &mut String) {
            if let Some((d, to)) = self.rename_decl {
                if d == self.decl {
                    *name = to.to_string();
                }
            }
            self.decl += 1;
        }
        fn block(&mut self, b: &mut Vec<Stmt>) {
            for s in b.iter_mut() {
                self.stmt(s);
            }
        }
        fn stmt(&mut self, s: &mut Stmt) {
            match s {
                Stmt::Let(n, e) => {
                    self.declare(n);
                    self.expr(e);
                }
                Stmt::Return(e) | Stmt::Expr(e) => self.expr(e),
                Stmt::Block(b) => self.block(b),
                _ => {}
            }
        }
        fn expr(&mut self, e: &mut Expr) {
            match e {
                Expr::Ident(n) => {
                    let u = self.use_idx;
                    self.use_idx += 1;
                    if self.uses_to_rename.contains(&u) {
                        if let Some((_, to)) = self.rename_decl {
                            *n = to.to_string();
                        }
                    }
                    if let Some((k, to)) = self.replace_use {
                        if k == u {
                            *n = to.to_string();
                        }
                    }
                }
                Expr::Infix { left, right, .. } | Expr::Assign { left, right } => {
                    self.expr(left);
                    self.expr(right);
                }
                Expr::Index { left, index } => {
                    self.expr(left);
                    self.expr(index);
                }
                Expr::Prefix { right, .. } => self.expr(right),
                Expr::If { cond, cons, alt } => {
                    self.expr(cond);
                    self.block(cons);
                    if let Some(a) = alt {
                        self.block(a);
                    }
                }
                Expr::While { cond, body } => {
                    self.expr(cond);
                    self.block(body);
                }
                Expr::Function { name, params, body } => {
                    if !name.is_empty() {
                        self.declare(name);
                    }
                    for p in params.iter_mut() {
                        self.declare(p);
                    }
                    self.block(body);
                }
                Expr::Call { left, args } => {
                    for a in args.iter_mut() {
                        self.expr(a);
                    }
                    match &mut **left {
                        Expr::Ident(n) if BUILTINS.contains(&n.as_str()) => {}
                        other => self.expr(other),
                    }
                }
                Expr::Array(xs) => {
                    for a in xs.iter_mut() {
                        self.expr(a);
                    }
                }
                _ => {}
            }
        }
    }
    let mut p = prog.to_vec();
    let mut w = W { decl: 0, use_idx: 0, rename_decl, uses_to_rename, replace_use };
    w.block(&mut p);
    p
}

/// α-rename declaration `d` (and the uses bound to it) to a fresh name
pub fn alpha_rename(prog: &[Stmt], d: usize, fresh: &str) -> Vec<Stmt> {
    let (uses, _) = resolve_uses(prog);
    let idx: Vec<usize> = uses.iter().enumerate().filter(|(_, x)| **x == Some(d)).map(|(i, _)| i).collect();
    rewrite(prog, Some((d, fresh)), &idx, None)
}

/// replace use #u by an undeclared name
pub fn inject_undeclared(prog: &[Stmt], u: usize, name: &str) -> Vec<Stmt> {
    rewrite(prog, None, &[], Some((u, name)))
}

// ------------------------------------------------------------------------------------------------
// padding: an unused (possibly shadowing) declaration at the start of an inner block

/// number of inner blocks (if / else / while / function bodies and block statements)
pub fn count_blocks(prog: &[Stmt]) -> usize {
    let mut n = 0;
    visit_blocks(&mut prog.to_vec(), &mut |_b, _outer| {
        n += 1;
    });
    n
}

fn visit_blocks(b: &mut Vec<Stmt>, f: &mut dyn FnMut(&mut Vec<Stmt>, bool)) {
    fn ex(e: &mut Expr, f: &mut dyn FnMut(&mut Vec<Stmt>, bool)) {
        match e {
            Expr::Infix { left, right, .. } | Expr::Assign { left, right } => {
                ex(left, f);
                ex(right, f);
            }
            Expr::Index { left, index } => {
                ex(left, f);
                ex(index, f);
            }
            Expr::Prefix { right, .. } => ex(right, f),
            Expr::If { cond, cons, alt } => {
                ex(cond, f);
                f(cons, false);
                visit_blocks(cons, f);
                if let Some(a) = alt {
                    // an else-if chain is not a block of its own
                    let chain = a.len() == 1 && matches!(a[0], Stmt::Expr(Expr::If { .. }));
                    if !chain {
                        f(a, false);
                    }
                    visit_blocks(a, f);
                }
            }
            Expr::While { cond, body } => {
                ex(cond, f);
                f(body, false);
                visit_blocks(body, f);
            }
            Expr::Function { body, .. } => {
                f(body, false);
                visit_blocks(body, f);
            }
            Expr::Call { left, args } => {
                ex(left, f);
                for a in args.iter_mut() {
                    ex(a, f);
                }
            }
            Expr::Array(xs) => {
                for a in xs.iter_mut() {
                    ex(a, f);
                }
            }
            _ => {}
        }
    }
    for s in b.iter_mut() {
        match s {
            Stmt::Let(_, e) | Stmt::Return(e) | Stmt::Expr(e) => ex(e, f),
            Stmt::Block(inner) => {
                f(inner, false);
                visit_blocks(inner, f);
            }
            _ => {}
        }
    }
}

/// insert `stel <name> = 424242` at the start of inner block #k; `shadow`: use a name declared outside that the block never mentions
pub fn pad_block(prog: &[Stmt], k: usize, r: &mut Rng, shadow: bool) -> Option<Vec<Stmt>> {
    let mut p = prog.to_vec();
    let mut all = vec![];
    idents_in_block(prog, &mut all);
    let mut i = 0;
    let mut done = false;
    let pick = r.next();
    visit_blocks(&mut p, &mut |b, _| {
        if i == k && !done {
            let mut inside = vec![];
            idents_in_block(b, &mut inside);
            let name = if shadow {
                let cands: Vec<&String> = all.iter().filter(|n| !inside.contains(n) && !BUILTINS.contains(&n.as_str())).collect();
                if cands.is_empty() {
                    None
                } else {
                    Some(cands[(pick % cands.len() as u64) as usize].clone())
                }
            } else {
                Some(format!("vulling_{}", pick % 1000))
            };
            if let Some(name) = name {
                b.insert(0, Stmt::Let(name, Expr::Int(424242)));
                done = true;
            }
        }
        i += 1;
    });
    if done {
        Some(p)
    } else {
        None
    }
}

// ------------------------------------------------------------------------------------------------
// C10 transformations

/// T1: move the non-function top-level statements into `functie hoofd() { … } hoofd()`
pub fn globals_to_locals(prog: &[Stmt]) -> Option<Vec<Stmt>> {
    let is_fn_def = |s: &Stmt| matches!(s, Stmt::Expr(Expr::Function { name, .. }) if !name.is_empty()) || matches!(s, Stmt::Let(_, Expr::Function { .. }));
    let mut moved_names = vec![];
    let mut fn_idents = vec![];
    for s in prog {
        if is_fn_def(s) {
            match s {
                Stmt::Expr(Expr::Function { body, .. }) | Stmt::Let(_, Expr::Function { body, .. }) => idents_in_block(body, &mut fn_idents),
                _ => {}
            }
        } else {
            let mut ids = vec![];
            idents_in_block(std::slice::from_ref(s), &mut ids);
            // every name declared or used by a moved statement
            moved_names.extend(ids);
        }
    }
    // nested function literals inside moved statements must not refer to moved variables either (they would
    // become locals of hoofd: a closure)
    fn nested_fn_idents(b: &[Stmt], out: &mut Vec<String>) {
        fn ex(e: &Expr, out: &mut Vec<String>) {
            match e {
                Expr::Function { body, .. } => idents_in_block(body, out),
                Expr::Infix { left, right, .. } | Expr::Assign { left, right } => {
                    ex(left, out);
                    ex(right, out)
                }
                Expr::Index { left, index } => {
                    ex(left, out);
                    ex(index, out)
                }
                Expr::Prefix { right, .. } => ex(right, out),
                Expr::If { cond, cons, alt } => {
                    ex(cond, out);
                    nested_fn_idents(cons, out);
                    if let Some(a) = alt {
                        nested_fn_idents(a, out)
                    }
                }
                Expr::While { cond, body } => {
                    ex(cond, out);
                    nested_fn_idents(body, out)
                }
                Expr::Call { left, args } => {
                    ex(left, out);
                    for a in args {
                        ex(a, out)
                    }
                }
                Expr::Array(xs) => {
                    for a in xs {
                        ex(a, out)
                    }
                }
                _ => {}
            }
        }
        for s in b {
            match s {
                Stmt::Let(_, e) | Stmt::Return(e) | Stmt::Expr(e) => ex(e, out),
                Stmt::Block(b) => nested_fn_idents(b, out),
                _ => {}
            }
        }
    }
    let moved: Vec<Stmt> = prog.iter().filter(|s| !is_fn_def(s)).cloned().collect();
    nested_fn_idents(&moved, &mut fn_idents);
    // every name that occurs anywhere in the moved statements (an over-approximation of what they declare)
    let mut declared = vec![];
    idents_in_block(&moved, &mut declared);
    // names of the global functions may of course be used by everybody
    for s in prog.iter().filter(|s| is_fn_def(s)) {
        match s {
            Stmt::Expr(Expr::Function { name, .. }) | Stmt::Let(name, _) => declared.retain(|n| n != name),
            _ => {}
        }
    }
    if fn_idents.iter().any(|n| declared.contains(n)) {
        return None;
    }
    if moved.is_empty() || declared.iter().any(|n| n == "hoofd") || moved_names.iter().any(|n| n == "hoofd") {
        return None;
    }
    let mut out: Vec<Stmt> = prog.iter().filter(|s| is_fn_def(s)).cloned().collect();
    // a function definition that came after a moved statement might shadow / depend on order: only allow when
    // every function definition precedes its first use in the moved code, which holds if all definitions come first
    let first_moved = prog.iter().position(|s| !is_fn_def(s)).unwrap_or(0);
    if prog.iter().skip(first_moved).any(|s| is_fn_def(s)) {
        return None;
    }
    out.push(Stmt::Expr(Expr::Function { name: "hoofd".into(), params: vec![], body: moved }));
    out.push(Stmt::Expr(calln("hoofd", vec![])));
    Some(out)
}

/// positions (walk order) of `ident op int-literal` / `int-literal op ident` infix expressions
fn visit_exprs(b: &mut Vec<Stmt>, f: &mut dyn FnMut(&mut Expr)) {
    fn ex(e: &mut Expr, f: &mut dyn FnMut(&mut Expr)) {
        f(e);
        match e {
            Expr::Infix { left, right, .. } | Expr::Assign { left, right } => {
                ex(left, f);
                ex(right, f);
            }
            Expr::Index { left, index } => {
                ex(left, f);
                ex(index, f);
            }
            Expr::Prefix { right, .. } => ex(right, f),
            Expr::If { cond, cons, alt } => {
                ex(cond, f);
                visit_exprs(cons, f);
                if let Some(a) = alt {
                    visit_exprs(a, f);
                }
            }
            Expr::While { cond, body } => {
                ex(cond, f);
                visit_exprs(body, f);
            }
            Expr::Function { body, .. } => visit_exprs(body, f),
            Expr::Call { left, args } => {
                ex(left, f);
                for a in args.iter_mut() {
                    ex(a, f);
                }
            }
            Expr::Array(xs) => {
                for a in xs.iter_mut() {
                    ex(a, f);
                }
            }
            _ => {}
        }
    }
    for s in b.iter_mut() {
        match s {
            Stmt::Let(_, e) | Stmt::Return(e) | Stmt::Expr(e) => ex(e, f),
            Stmt::Block(inner) => visit_exprs(inner, f),
            _ => {}
        }
    }
}

fn mirror_op(op: Op) -> Option<Op> {
    Some(match op {
        Op::Add | Op::Multiply | Op::Eq | Op::Neq => op,
        Op::Lt => Op::Gt,
        Op::Gt => Op::Lt,
        Op::Lte => Op::Gte,
        Op::Gte => Op::Lte,
        _ => return None,
    })
}

pub fn count_mirrorable(prog: &[Stmt]) -> usize {
    let mut n = 0;
    visit_exprs(&mut prog.to_vec(), &mut |e| {
        if let Expr::Infix { left, op, right } = e {
            if mirror_op(*op).is_some() && matches!((&**left, &**right), (Expr::Ident(_), Expr::Int(_)) | (Expr::Int(_), Expr::Ident(_))) {
                n += 1;
            }
        }
    });
    n
}

/// T3: mirror the k-th `c op x` / `x op c`
pub fn mirror(prog: &[Stmt], k: usize) -> Vec<Stmt> {
    let mut p = prog.to_vec();
    let mut i = 0;
    visit_exprs(&mut p, &mut |e| {
        if let Expr::Infix { left, op, right } = e {
            if let Some(m) = mirror_op(*op) {
                if matches!((&**left, &**right), (Expr::Ident(_), Expr::Int(_)) | (Expr::Int(_), Expr::Ident(_))) {
                    if i == k {
                        std::mem::swap(left, right);
                        *op = m;
                    }
                    i += 1;
                }
            }
        }
    });
    p
}

pub fn count_int_operands(prog: &[Stmt]) -> usize {
    let mut n = 0;
    visit_exprs(&mut prog.to_vec(), &mut |e| {
        if let Expr::Infix { left, right, .. } = e {
            if matches!(**left, Expr::Int(_)) {
                n += 1;
            }
            if matches!(**right, Expr::Int(_)) {
                n += 1;
            }
        }
    });
    n
}

/// T2: replace the k-th integer literal operand by a fresh global variable declared at the very start of the
/// program (only valid when the literal is not inside a function body: returns None otherwise)
pub fn literal_to_variable(prog: &[Stmt], k: usize) -> Option<Vec<Stmt>> {
    // operate per top-level statement so that we know whether we are inside a function literal
    let mut p = prog.to_vec();
    let mut i = 0;
    let mut value = None;
    let name = format!("lit_{}", k);
    fn ex(e: &mut Expr, i: &mut usize, k: usize, name: &str, value: &mut Option<i64>, in_fn: bool) {
        match e {
            Expr::Infix { left, right, .. } => {
                for side in [left, right] {
                    if let Expr::Int(v) = **side {
                        if *i == k {
                            // inside a function the variable would have to be a local of that function: skip those
                            if !in_fn {
                                *value = Some(v);
                                **side = Expr::Ident(name.to_string());
                            }
                        }
                        *i += 1;
                    } else {
                        ex(side, i, k, name, value, in_fn);
                    }
                }
            }
            Expr::Assign { left, right } => {
                ex(left, i, k, name, value, in_fn);
                ex(right, i, k, name, value, in_fn);
            }
            Expr::Index { left, index } => {
                ex(left, i, k, name, value, in_fn);
                ex(index, i, k, name, value, in_fn);
            }
            Expr::Prefix { right, .. } => ex(right, i, k, name, value, in_fn),
            Expr::If { cond, cons, alt } => {
                ex(cond, i, k, name, value, in_fn);
                bl(cons, i, k, name, value, in_fn);
                if let Some(a) = alt {
                    bl(a, i, k, name, value, in_fn);
                }
            }
            Expr::While { cond, body } => {
                ex(cond, i, k, name, value, in_fn);
                bl(body, i, k, name, value, in_fn);
            }
            Expr::Function { body, .. } => bl(body, i, k, name, value, true),
            Expr::Call { left, args } => {
                ex(left, i, k, name, value, in_fn);
                for a in args.iter_mut() {
                    ex(a, i, k, name, value, in_fn);
                }
            }
            Expr::Array(xs) => {
                for a in xs.iter_mut() {
                    ex(a, i, k, name, value, in_fn);
                }
            }
            _ => {}
        }
    }
    fn bl(b: &mut Vec<Stmt>, i: &mut usize, k: usize, name: &str, value: &mut Option<i64>, in_fn: bool) {
        for s in b.iter_mut() {
            match s {
                Stmt::Let(_, e) | Stmt::Return(e) | Stmt::Expr(e) => ex(e, i, k, name, value, in_fn),
                Stmt::Block(inner) => bl(inner, i, k, name, value, in_fn),
                _ => {}
            }
        }
    }
    bl(&mut p, &mut i, k, &name, &mut value, false);
    let v = value?;
    p.insert(0, Stmt::Let(name, Expr::Int(v)));
    Some(p)
}

/// T4: prepend expression statements that mention literals of the program and others
pub fn perturb_constants(prog: &[Stmt], r: &mut Rng) -> Vec<Stmt> {
    let mut lits: Vec<Expr> = vec![];
    visit_exprs(&mut prog.to_vec(), &mut |e| match e {
        Expr::Int(_) | Expr::Float(_) | Expr::Str(_) => lits.push(e.clone()),
        _ => {}
    });
    let mut pre = vec![];
    let n = r.range(1, 6);
    for _ in 0..n {
        let e = if !lits.is_empty() && r.chance(2, 3) {
            lits[r.below(lits.len() as u64) as usize].clone()
        } else {
            match r.below(4) {
                0 => Expr::Int(r.range(0, 300)),
                1 => Expr::Float(r.range(0, 9) as f64 + 0.5),
                2 => Expr::Str("abc".into()),
                _ => Expr::Int(1),
            }
        };
        pre.push(Stmt::Expr(e));
    }
    pre.extend(prog.iter().cloned());
    pre
}
