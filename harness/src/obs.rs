//! Running the real interpreter under the hooks and turning what happened into plain data.

use crate::val::{ErrKind, Val};
use nederlang::object::{Error, Object, Type};
use nederlang::verif::{self, Event, ShadowMode, VerifStop};
use std::cell::RefCell;
use std::collections::HashSet;
use std::panic::{catch_unwind, AssertUnwindSafe};

thread_local! {
    static LAST_PANIC: RefCell<Option<(String, String)>> = RefCell::new(None);
}

/// Installs a panic hook that records location and message instead of printing them.
pub fn install_panic_hook() {
    std::panic::set_hook(Box::new(|info| {
        if info.payload().is::<VerifStop>() {
            return;
        }
        let loc = info
            .location()
            .map(|l| format!("{}:{}", l.file(), l.line()))
            .unwrap_or_else(|| "?".to_string());
        let msg = if let Some(s) = info.payload().downcast_ref::<&str>() {
            s.to_string()
        } else if let Some(s) = info.payload().downcast_ref::<String>() {
            s.clone()
        } else {
            "<non-string payload>".to_string()
        };
        LAST_PANIC.with(|p| *p.borrow_mut() = Some((loc, msg)));
    }));
}

pub fn take_panic() -> (String, String) {
    LAST_PANIC
        .with(|p| p.borrow_mut().take())
        .unwrap_or(("?".to_string(), "?".to_string()))
}

#[derive(Clone, Debug)]
pub enum Outcome {
    Value(Val),
    Error(ErrKind, String),
    /// instruction budget exhausted inside the VM loop
    Budget,
    /// a panic escaped from the interpreter (location, message)
    Panic(String, String),
    /// a probe or the shadow heap stopped the run; details are in `events`
    Stop,
}

impl Outcome {
    pub fn render(&self) -> String {
        match self {
            Outcome::Value(v) => format!("Value({})", crate::val::render_val(v)),
            Outcome::Error(k, m) => format!("Err({}: {})", k.name(), m),
            Outcome::Budget => "Budget".to_string(),
            Outcome::Panic(l, m) => format!("Panic@{}: {}", l, clip(m, 120)),
            Outcome::Stop => "Stopped-by-monitor".to_string(),
        }
    }
    /// short class without payload
    pub fn class(&self) -> String {
        match self {
            Outcome::Value(_) => "value".to_string(),
            Outcome::Error(k, _) => format!("err:{}", k.name()),
            Outcome::Budget => "budget".to_string(),
            Outcome::Panic(l, _) => format!("panic@{}", short_loc(l)),
            Outcome::Stop => "monitor-stop".to_string(),
        }
    }
}

pub fn clip(s: &str, n: usize) -> String {
    if s.chars().count() <= n {
        s.to_string()
    } else {
        let t: String = s.chars().take(n).collect();
        format!("{}…", t)
    }
}

/// `…/src/vm.rs:123` -> `src/vm.rs:123`; std locations keep only the file name
pub fn short_loc(l: &str) -> String {
    if let Some(p) = l.find("/src/") {
        l[p + 1..].to_string()
    } else {
        l.to_string()
    }
}

#[derive(Clone, Debug)]
pub struct ObsCfg {
    pub budget: Option<u64>,
    pub probes: bool,
    pub shadow: ShadowMode,
    pub trace: bool,
    pub branch_schedule: Option<Vec<bool>>,
}

impl Default for ObsCfg {
    fn default() -> Self {
        ObsCfg {
            budget: Some(2_000_000),
            probes: true,
            shadow: ShadowMode::Quarantine,
            trace: false,
            branch_schedule: None,
        }
    }
}

impl ObsCfg {
    /// plain: no probes, no shadow heap, only capture and budget
    pub fn plain(budget: u64) -> Self {
        ObsCfg {
            budget: Some(budget),
            probes: false,
            shadow: ShadowMode::Off,
            trace: false,
            branch_schedule: None,
        }
    }
}

#[derive(Clone, Debug)]
pub struct Obs {
    pub outcome: Outcome,
    pub output: Vec<String>,
    pub events: Vec<Event>,
    pub count: u64,
    /// heap boxes still live after the run and after releasing the result graph (Ledger/Quarantine only)
    pub live_after: usize,
    /// number of distinct heap objects in the result graph
    pub result_objects: usize,
    /// eval returned a value, and a monitor stopped the walk / release of that value afterwards
    pub stop_in_walk: bool,
}

pub fn kind_of(e: &Error) -> (ErrKind, String) {
    match e {
        Error::TypeError(m) => (ErrKind::Type, m.clone()),
        Error::SyntaxError(m) => (ErrKind::Syntax, m.clone()),
        Error::ReferenceError(m) => (ErrKind::Reference, m.clone()),
        Error::IndexError(m) => (ErrKind::Index, m.clone()),
        Error::ArgumentError(m) => (ErrKind::Argument, m.clone()),
    }
}

pub fn apply_cfg(cfg: &ObsCfg) {
    verif::reset_run();
    verif::set_capture(true);
    verif::set_budget(cfg.budget);
    verif::set_probes(cfg.probes);
    verif::set_stop_on_event(true);
    verif::set_shadow(cfg.shadow);
    verif::set_trace(cfg.trace, 1 << 20);
    verif::set_branch_schedule(cfg.branch_schedule.clone());
}

/// Walk a result through the public accessors only.
pub fn walk(o: Object) -> Val {
    let mut path: Vec<usize> = Vec::new();
    walk_rec(o, &mut path)
}

fn walk_rec(o: Object, path: &mut Vec<usize>) -> Val {
    match o.tag() {
        Type::Null => Val::Null,
        Type::Bool => Val::Bool(o.as_bool()),
        Type::Int => Val::Int(o.as_int() as i64),
        Type::Function => Val::Func,
        Type::Float => Val::Float(o.as_f64()),
        Type::String => Val::Str(o.as_str().to_string()),
        Type::Array => {
            let a = verif::addr(o);
            if let Some(pos) = path.iter().rposition(|x| *x == a) {
                return Val::Cycle(path.len() - pos);
            }
            if path.len() > 64 {
                return Val::TooDeep;
            }
            path.push(a);
            let items: Vec<Object> = o.as_vec().clone();
            let v = items.into_iter().map(|x| walk_rec(x, path)).collect();
            path.pop();
            Val::Array(v)
        }
    }
}

/// Distinct heap objects reachable from `o`
pub fn graph(o: Object) -> Vec<Object> {
    let mut seen = HashSet::new();
    let mut out = Vec::new();
    let mut todo = vec![o];
    while let Some(x) = todo.pop() {
        if !x.is_heap_allocated() {
            continue;
        }
        if !seen.insert(verif::addr(x)) {
            continue;
        }
        out.push(x);
        if x.tag() == Type::Array {
            for y in x.as_vec().iter() {
                todo.push(*y);
            }
        }
    }
    out
}

/// Release every distinct object of the result graph once through the public `free()`
pub fn free_graph(o: Object) -> usize {
    let g = graph(o);
    let n = g.len();
    // a flat array whose heap elements are all distinct and not arrays: exactly the case `Object::free_recursive`
    // (the convenience the documentation of eval points to for array results) is made for
    if o.tag() == Type::Array && g.iter().skip(1).all(|x| x.tag() != Type::Array) && n == 1 + o.as_vec().iter().filter(|x| x.is_heap_allocated()).count() {
        o.free_recursive();
        return n;
    }
    for x in g {
        x.free();
    }
    n
}

/// Evaluate `text` with the real interpreter under the given monitor configuration.
pub fn eval_observed(text: &str, cfg: &ObsCfg) -> Obs {
    apply_cfg(cfg);
    // the interpreter gets the text in an allocation of exactly its length, so that a read one byte past the end
    // of the input is a read past an allocation (memcheck, AddressSanitizer and Miri can then see it)
    let exact: Box<str> = text.into();
    let text: &str = &exact;
    let r = catch_unwind(AssertUnwindSafe(|| nederlang::eval(text)));
    finish(r, cfg)
}

/// Turn the raw result of a run into an `Obs` (walks and releases the result)
pub fn finish(r: std::thread::Result<Result<Object, Error>>, cfg: &ObsCfg) -> Obs {
    let count = verif::instruction_count();
    let budget_hit = verif::budget_exhausted();
    let mut result_objects = 0;
    let mut stop_in_walk = false;
    let outcome = match r {
        Ok(Ok(obj)) => {
            // the walk itself dereferences heap objects: the shadow heap may stop it
            let w = catch_unwind(AssertUnwindSafe(|| {
                let v = walk(obj);
                let n = free_graph(obj);
                (v, n)
            }));
            match w {
                Ok((v, n)) => {
                    result_objects = n;
                    Outcome::Value(v)
                }
                Err(p) => {
                    if p.is::<VerifStop>() {
                        stop_in_walk = true;
                        Outcome::Stop
                    } else {
                        let (l, m) = take_panic();
                        Outcome::Panic(l, m)
                    }
                }
            }
        }
        Ok(Err(e)) => {
            if budget_hit {
                Outcome::Budget
            } else {
                let (k, m) = kind_of(&e);
                Outcome::Error(k, m)
            }
        }
        Err(p) => {
            if p.is::<VerifStop>() {
                Outcome::Stop
            } else {
                let (l, m) = take_panic();
                Outcome::Panic(l, m)
            }
        }
    };
    let output = verif::take_output();
    let events = verif::take_events();
    let live_after = if cfg.shadow == ShadowMode::Off {
        0
    } else {
        verif::live_count()
    };
    if cfg.shadow == ShadowMode::Quarantine {
        verif::forget_dead();
    }
    Obs {
        outcome,
        output,
        events,
        count,
        live_after,
        result_objects,
        stop_in_walk,
    }
}

pub fn render_event(e: &Event) -> String {
    match e {
        Event::Probe {
            site,
            ip,
            stack_len,
            operand,
        } => format!("probe:{} ip={} stack={} operand={}", site, ip, stack_len, operand),
        Event::UseAfterFree { .. } => "use-after-free".to_string(),
        Event::DoubleFree { .. } => "double-free".to_string(),
        Event::UnknownFree { .. } => "unknown-free".to_string(),
    }
}

pub fn event_class(e: &Event) -> String {
    match e {
        Event::Probe { site, .. } => format!("probe:{}", site),
        Event::UseAfterFree { .. } => "use-after-free".to_string(),
        Event::DoubleFree { .. } => "double-free".to_string(),
        Event::UnknownFree { .. } => "unknown-free".to_string(),
    }
}
