//! Bounded-exhaustive program enumerator (DESIGN.md §5): every statement list up to a node budget
//! over a small vocabulary. Every program starts with the prelude `stel a = 1; stel b = [1, 2]`.

use crate::ast::*;
use std::collections::HashMap;

#[derive(Clone, Copy, PartialEq, Eq, Hash)]
struct Cx {
    in_fn: bool,
    in_loop: bool,
    has_f: bool,
}

pub struct Enumerator {
    expr_memo: HashMap<(usize, Cx), Vec<Expr>>,
    list_memo: HashMap<(usize, Cx), Vec<Vec<Stmt>>>,
}

const BIN: [Op; 9] = [Op::Add, Op::Subtract, Op::Lt, Op::Lte, Op::Gt, Op::Gte, Op::Eq, Op::Neq, Op::And];

impl Enumerator {
    pub fn new() -> Self {
        Enumerator {
            expr_memo: HashMap::new(),
            list_memo: HashMap::new(),
        }
    }

    /// all expressions of exactly `n` nodes
    fn exprs(&mut self, n: usize, cx: Cx) -> Vec<Expr> {
        if n == 0 {
            return vec![];
        }
        if let Some(v) = self.expr_memo.get(&(n, cx)) {
            return v.clone();
        }
        let mut out = vec![];
        if n == 1 {
            out.push(Expr::Int(1));
            out.push(Expr::Int(2));
            out.push(Expr::Bool(true));
            out.push(ident("a"));
            out.push(ident("b"));
            if cx.in_fn {
                out.push(ident("x"));
            }
        }
        if n == 2 {
            out.push(index(ident("b"), Expr::Int(0)));
            out.push(index(ident("b"), prefix(Op::Subtract, Expr::Int(3))));
        }
        if n >= 2 {
            for e in self.exprs(n - 1, cx) {
                out.push(prefix(Op::Subtract, e.clone()));
                out.push(prefix(Op::Not, e.clone()));
                out.push(Expr::Array(vec![e.clone()]));
                out.push(assign(ident("a"), e.clone()));
                if cx.has_f {
                    out.push(calln("f", vec![e.clone()]));
                }
                out.push(calln("lengte", vec![e.clone()]));
            }
        }
        if n >= 3 {
            for ls in 1..=n - 2 {
                let rs = n - 1 - ls;
                let lefts = self.exprs(ls, cx);
                let rights = self.exprs(rs, cx);
                for l in &lefts {
                    for r in &rights {
                        for op in BIN {
                            out.push(infix(l.clone(), op, r.clone()));
                        }
                    }
                }
            }
            for e in self.exprs(n - 2, cx) {
                out.push(assign(index(ident("b"), Expr::Int(0)), e.clone()));
            }
            // if-expression in value position: als c { e1 } anders { e2 } with small parts
            for cs in 1..=n.saturating_sub(3) {
                let rest = n - 1 - cs;
                for c in self.exprs(cs, cx) {
                    for a in 1..rest {
                        let b = rest - a;
                        for e1 in self.exprs(a, cx) {
                            for e2 in self.exprs(b, cx) {
                                out.push(Expr::If {
                                    cond: Box::new(c.clone()),
                                    cons: vec![Stmt::Expr(e1.clone())],
                                    alt: Some(vec![Stmt::Expr(e2.clone())]),
                                });
                            }
                        }
                    }
                }
            }
        }
        self.expr_memo.insert((n, cx), out.clone());
        out
    }

    /// all single statements of exactly `n` nodes
    fn stmts(&mut self, n: usize, cx: Cx) -> Vec<Stmt> {
        let mut out = vec![];
        // expression statement (no overhead)
        for e in self.exprs(n, cx) {
            out.push(Stmt::Expr(e));
        }
        if n == 1 && cx.in_loop {
            out.push(Stmt::Break);
            out.push(Stmt::Continue);
        }
        if n == 1 {
            out.push(Stmt::Block(vec![]));
        }
        if n >= 2 {
            for e in self.exprs(n - 1, cx) {
                out.push(Stmt::Let("a".into(), e.clone()));
                out.push(Stmt::Let("c".into(), e.clone()));
                if cx.in_fn {
                    out.push(Stmt::Return(e.clone()));
                }
            }
            for b in self.lists(n - 1, cx) {
                out.push(Stmt::Block(b));
            }
        }
        if n >= 2 {
            // als c { B }   /   als c { B } anders { B2 }   (condition of size 1..)
            for cs in 1..n {
                let rest = n - 1 - cs;
                let conds = self.exprs(cs, cx);
                for c in &conds {
                    for b in self.lists_upto_exact(rest, cx) {
                        out.push(Stmt::Expr(Expr::If { cond: Box::new(c.clone()), cons: b, alt: None }));
                    }
                    if rest >= 1 {
                        for a in 0..rest {
                            let bsz = rest - 1 - a;
                            for b1 in self.lists_upto_exact(a, cx) {
                                for b2 in self.lists_upto_exact(bsz, cx) {
                                    out.push(Stmt::Expr(Expr::If { cond: Box::new(c.clone()), cons: b1.clone(), alt: Some(b2) }));
                                }
                            }
                        }
                    }
                }
            }
            // counted loop template (2 nodes): stel i = 0; zolang i < 2 { i = i + 1; B }
            let lcx = Cx { in_loop: true, ..cx };
            for b in self.lists_upto_exact(n - 2, lcx) {
                let mut body = vec![Stmt::Expr(assign(ident("i"), infix(ident("i"), Op::Add, Expr::Int(1))))];
                body.extend(b);
                out.push(Stmt::Block(vec![
                    Stmt::Let("i".into(), Expr::Int(0)),
                    Stmt::Expr(Expr::While { cond: Box::new(infix(ident("i"), Op::Lt, Expr::Int(2))), body }),
                ]));
            }
        }
        out
    }

    /// statement lists of exactly n nodes (n = 0: the empty list)
    fn lists_upto_exact(&mut self, n: usize, cx: Cx) -> Vec<Vec<Stmt>> {
        if n == 0 {
            return vec![vec![]];
        }
        self.lists(n, cx)
    }

    /// non-empty statement lists of exactly n nodes
    fn lists(&mut self, n: usize, cx: Cx) -> Vec<Vec<Stmt>> {
        if n == 0 {
            return vec![];
        }
        if let Some(v) = self.list_memo.get(&(n, cx)) {
            return v.clone();
        }
        let mut out = vec![];
        for first in 1..=n {
            let heads = self.stmts(first, cx);
            if first == n {
                for h in heads {
                    out.push(vec![h]);
                }
            } else {
                let tails = self.lists(n - first, cx);
                for h in &heads {
                    for t in &tails {
                        let mut v = vec![h.clone()];
                        v.extend(t.iter().cloned());
                        out.push(v);
                    }
                }
            }
        }
        self.list_memo.insert((n, cx), out.clone());
        out
    }

    /// every program with at most `budget` nodes after the prelude
    pub fn programs(&mut self, budget: usize) -> Vec<Vec<Stmt>> {
        let prelude = vec![
            Stmt::Let("a".into(), Expr::Int(1)),
            Stmt::Let("b".into(), Expr::Array(vec![Expr::Int(1), Expr::Int(2)])),
        ];
        let top = Cx { in_fn: false, in_loop: false, has_f: false };
        let mut out = vec![];
        for n in 1..=budget {
            for l in self.lists(n, top) {
                let mut p = prelude.clone();
                p.extend(l);
                out.push(p);
            }
        }
        // with a unary function f (2 nodes + body) defined first
        let fcx = Cx { in_fn: true, in_loop: false, has_f: false };
        let after = Cx { in_fn: false, in_loop: false, has_f: true };
        for n in 3..=budget {
            for bs in 0..=n - 3 {
                let rest = n - 2 - bs;
                if rest == 0 {
                    continue;
                }
                for body in self.lists_upto_exact(bs, fcx) {
                    for l in self.lists(rest, after) {
                        let mut p = prelude.clone();
                        p.push(Stmt::Expr(Expr::Function { name: "f".into(), params: vec!["x".into()], body: body.clone() }));
                        p.extend(l.iter().cloned());
                        out.push(p);
                    }
                }
            }
        }
        out
    }
}
